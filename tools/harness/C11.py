"""C11 harness: forward / inverse wavelet transforms.

Correspondence (tie C) of the hand models Model/Lifting.v + Model/Wavelet.v with
  vc2_conformance.pseudocode.picture_decoding (lift1..4, oned_synthesis, idwt, idwt_pad_removal)
  vc2_conformance.pseudocode.picture_encoding (oned_analysis, dwt, dwt_pad_addition)
and the property oracle (round trip + sub-band shapes vs slice_sizes) on the implementation.
The LIVE vc2_data_tables.LIFTING_FILTERS table is dumped into every case file as the
filter-table argument of the model."""
import concurrent.futures
import os
from copy import deepcopy

from vlib import cz, clist


# ----------------------------------------------------------------------------- implementation
def impl():
    import vc2_data_tables as tables
    from vc2_conformance.pseudocode import picture_decoding as pd
    from vc2_conformance.pseudocode import picture_encoding as pe
    from vc2_conformance.pseudocode import slice_sizes as ss
    from vc2_conformance.pseudocode.state import State
    return tables, pd, pe, ss, State


COMPS = ["Y", "C1", "C2"]


def mkstate(State, tables, wi, wiho, lw, lh, cw, ch, d, dh):
    return State(
        wavelet_index=tables.WaveletFilters(wi), wavelet_index_ho=tables.WaveletFilters(wiho),
        dwt_depth=d, dwt_depth_ho=dh, luma_width=lw, luma_height=lh, color_diff_width=cw, color_diff_height=ch)


def coeff_tuple(cf, d, dh):
    """{level:{orient:arr}} -> (dc, [H..], [(HL,LH,HH)..]) ; raises if the key set is not the expected one"""
    want = {0: {"LL"} if dh == 0 else {"L"}}
    for n in range(1, dh + 1):
        want[n] = {"H"}
    for n in range(dh + 1, dh + d + 1):
        want[n] = {"HL", "LH", "HH"}
    got = dict((k, set(v.keys())) for k, v in cf.items())
    if got != want:
        raise ValueError("unexpected coefficient keys %r" % (got,))
    dc = cf[0]["LL"] if dh == 0 else cf[0]["L"]
    return (dc, [cf[n]["H"] for n in range(1, dh + 1)],
            [(cf[n]["HL"], cf[n]["LH"], cf[n]["HH"]) for n in range(dh + 1, dh + d + 1)])


def coeff_dict(ct, d, dh):
    dc, ho, vh = ct
    cf = {0: {("LL" if dh == 0 else "L"): deepcopy(dc)}}
    for i, h in enumerate(ho):
        cf[1 + i] = {"H": deepcopy(h)}
    for i, (hl, lh, hh) in enumerate(vh):
        cf[dh + 1 + i] = {"HL": deepcopy(hl), "LH": deepcopy(lh), "HH": deepcopy(hh)}
    return cf


def py_forward(I, wi, wiho, dims, comp, pic):
    """pad, dwt, idwt, unpad on the real code; every intermediate copied"""
    tables, pd, pe, ss, State = I
    lw, lh, cw, ch, d, dh = dims
    st = mkstate(State, tables, wi, wiho, lw, lh, cw, ch, d, dh)
    p = deepcopy(pic)
    pe.dwt_pad_addition(st, p, COMPS[comp])
    padded = deepcopy(p)
    cf = pe.dwt(st, p)
    ct = deepcopy(coeff_tuple(cf, d, dh))
    syn = pd.idwt(st, cf)
    syn_c = deepcopy(syn)
    pd.idwt_pad_removal(st, syn, COMPS[comp])
    return st, padded, ct, syn_c, syn


def shapes_ok(I, st, comp, ct, d, dh):
    tables, pd, pe, ss, State = I
    dc, ho, vh = ct
    bands = [(0, dc)] + [(1 + i, h) for i, h in enumerate(ho)]
    for i, t in enumerate(vh):
        bands += [(dh + 1 + i, b) for b in t]
    for level, b in bands:
        eh = ss.subband_height(st, level, COMPS[comp])
        ew = ss.subband_width(st, level, COMPS[comp])
        if len(b) != eh or any(len(r) != ew for r in b):
            return "level %d: shape %dx%s, slice geometry says %dx%d (h x w)" % (
                level, len(b), sorted(set(len(r) for r in b)), eh, ew)
    return None


def oracle_one(I, wi, wiho, dims, comp, pic):
    """the property on the implementation: returns None or (key, description, observed)"""
    lw, lh, cw, ch, d, dh = dims
    try:
        st, padded, ct, syn, out = py_forward(I, wi, wiho, dims, comp, pic)
    except Exception as e:
        return ("transform-raises", "exception %r" % (e,), None)
    if out != pic:
        return ("round-trip-differs", "idwt_pad_removal(idwt(dwt(dwt_pad_addition(pic)))) != pic", out)
    msg = shapes_ok(I, st, comp, ct, d, dh)
    if msg:
        return ("subband-shape-differs", msg, None)
    return None


# worker for the (slow, pure python) oracle sweep
def _oracle_chunk(jobs):
    I = impl()
    out = []
    for job in jobs:
        wi, wiho, dims, comp, pic = job
        r = oracle_one(I, wi, wiho, dims, comp, pic)
        if r is not None:
            out.append((job, r))
    return out


# ----------------------------------------------------------------------------- literals
def carr(a):
    return clist(a, clist)


def ccoeffs(ct):
    dc, ho, vh = ct
    return "(mk_coeffs %s %s %s)" % (carr(dc), clist(ho, carr),
                                     clist(vh, lambda t: "(%s, %s, %s)" % (carr(t[0]), carr(t[1]), carr(t[2]))))


def cstage(s):
    return "(mk_stage %s %s %s %s %s)" % (cz(int(s.lift_type)), cz(s.S), cz(s.L), cz(s.D), clist(s.taps))


def table_def(tables):
    idx = sorted(int(k) for k in tables.LIFTING_FILTERS)
    assert idx == list(range(len(idx))), "filter indices not contiguous: %r" % idx
    fs = []
    for i in idx:
        f = tables.LIFTING_FILTERS[tables.WaveletFilters(i)]
        fs.append("(mk_filter %s %s)" % (cz(f.filter_bit_shift), clist(f.stages, cstage)))
    return "Definition tbl : list filter := %s." % clist(fs, str), len(idx)


# ----------------------------------------------------------------------------- generators
def rand_value(rng, kind):
    if kind == 0:
        return rng.randrange(-4, 5)
    if kind == 1:
        return rng.randrange(-512, 512)
    if kind == 2:
        return rng.choice([-1, 1]) * ((1 << rng.randrange(1, 71)) + rng.randrange(-2, 3))
    if kind == 3:
        return rng.randrange(-(1 << 70), (1 << 70) + 1)
    return rng.choice([-(1 << 70), (1 << 70), (1 << 70) - 1, -(1 << 15), (1 << 15) - 1, 0, 255, -256])


def rand_arr(rng, h, w, kind=None):
    if kind is None:
        kind = rng.randrange(5)
    return [[rand_value(rng, kind) for _ in range(w)] for _ in range(h)]


def pad_dims(w, h, d, dh):
    sw = 1 << (d + dh)
    sh = 1 << d
    return sw * ((w + sw - 1) // sw), sh * ((h + sh - 1) // sh)


def rand_dims(rng, maxw, maxh, maxd, maxdh, maxpix):
    """dims with the PADDED picture no larger than maxpix samples (the list model is quadratic);
    depths are uniform, the cap is raised so that two scale units always fit"""
    d, dh = rng.randrange(0, maxd + 1), rng.randrange(0, maxdh + 1)
    cap = max(maxpix, 2 * (1 << (d + dh)) * (1 << d))
    while True:
        lw, lh = rng.randrange(1, maxw + 1), rng.randrange(1, maxh + 1)
        cw, ch = rng.randrange(1, maxw + 1), rng.randrange(1, maxh + 1)
        ok = True
        for (w, h) in ((lw, lh), (cw, ch)):
            pw, ph = pad_dims(w, h, d, dh)
            ok = ok and pw * ph <= cap
        if ok:
            return (lw, lh, cw, ch, d, dh)


def load_corpus(nf):
    """corpus/C11/*.json: {wi, wiho, dims:[lw,lh,cw,ch,d,dh], comp, pic} (samples as decimal strings)"""
    import glob
    import json
    out = []
    here = os.path.dirname(os.path.dirname(os.path.dirname(os.path.abspath(__file__))))
    for f in sorted(glob.glob(os.path.join(here, "corpus", "C11", "*.json"))):
        d = json.load(open(f))
        if d["wi"] < nf and d["wiho"] < nf:
            out.append((d["wi"], d["wiho"], tuple(d["dims"]), d["comp"], [[int(v) for v in r] for r in d["pic"]]))
    return out


def bucket(dims, comp):
    lw, lh, cw, ch, d, dh = dims
    return "d=%d,dh=%d" % (d, dh)


# ----------------------------------------------------------------------------- run
def run(ctx):
    I = impl()
    tables, pd, pe, ss, State = I
    rng = ctx.rng
    tdef, nf = table_def(tables)
    pairs = [(a, b) for a in range(nf) for b in range(nf)]
    imports = ["Base.PyZ", "Gen.StateRec", "Gen.SliceSizes", "Model.Lifting", "Model.Wavelet", "Corr.C11"]
    ctx.extra["rule"] = (
        "correspondence: (a) single lift calls with random stage parameters (type 1..4, L 0..5, D -4..3, S 0..13, lengths 0..13 incl. odd) "
        "and oned_synthesis/oned_analysis for each live filter; (b) forward cases: random component pictures 1..20 x 1..20, every one of the "
        "%d filter pairs, depths 0..3 x 0..3, samples up to +-2^70 - padded picture, EVERY sub-band of dwt, idwt output and unpadded result "
        "compared, and the implementation's sub-band shapes checked against Gen.SliceSizes inside Coq; (c) inverse cases: idwt on independent random coefficient arrays and dwt of its output. A case is non-trivial when a "
        "transform level is applied (d+dh>0) or a lift runs on >=2 samples. oracle: round trip and sub-band shapes vs slice_sizes on the "
        "implementation over all pairs x depths 0..4 x 0..4 x sizes." % len(pairs))
    mism_inputs = []

    # ---- (a) 1-D lifts, arbitrary stage parameters --------------------------------
    n1 = ctx.pick(400, 4000)
    cases, meta = [], []
    lifts = {1: pd.lift1, 2: pd.lift2, 3: pd.lift3, 4: pd.lift4}
    swap = {1: 2, 2: 1, 3: 4, 4: 3}
    for i in range(n1):
        t = rng.randrange(1, 5)
        L = rng.randrange(0, 6)
        D = rng.randrange(-4, 4)
        S = rng.choice([0, 0, 1, 2, 4, 8, 12, 13])
        taps = [rng.randrange(-4000, 7000) if rng.random() < 0.5 else rng.randrange(-3, 4) for _ in range(L + rng.randrange(0, 2))]
        n = rng.choice([0, 1, 2, 2, 3, 4, 5, 6, 7, 8, 10, 12, 13])
        kind = rng.randrange(5)
        A = [rand_value(rng, kind) for _ in range(n)]
        syn = A[:]
        lifts[t](syn, L, D, taps, S)
        ana = A[:]
        lifts[swap[t]](ana, L, D, taps, S)
        cases.append("(mk_stage %s %s %s %s %s, %s, %s, %s)" % (cz(t), cz(S), cz(L), cz(D), clist(taps), clist(A), clist(syn), clist(ana)))
        meta.append({"lift": t, "L": L, "D": D, "S": S, "taps": taps, "A": [str(v) for v in A]})
        ctx.count(1, key=("lift", i) if n >= 2 and L > 0 else None, bucket="lift%d" % t)
    ctx.sample(meta[0])
    bad = ctx.coq_check_cases("lift", imports, "chk_lift", cases, shard=400)
    if bad:
        ctx.obligation("corr:lift1..4 model agrees with implementation", False, "corr-shard", "differs on %r" % [meta[i] for i in bad[:3]])

    cases, meta = [], []
    for wi in range(nf):
        for rep in range(ctx.pick(6, 40)):
            n = rng.choice([0, 2, 4, 6, 8, 12, 16, 20, 1, 3, 7])
            kind = rng.randrange(5)
            A = [rand_value(rng, kind) for _ in range(n)]
            syn = A[:]
            pd.oned_synthesis(syn, tables.WaveletFilters(wi))
            ana = A[:]
            pe.oned_analysis(ana, tables.WaveletFilters(wi))
            cases.append("(%s, %s, %s, %s)" % (cz(wi), clist(A), clist(syn), clist(ana)))
            meta.append({"filter": wi, "A": [str(v) for v in A]})
            ctx.count(1, key=("oned", wi, rep) if n >= 2 else None, bucket="oned")
    bad = ctx.coq_check_cases("oned", imports, "chk_oned tbl", cases, shard=400, defs=tdef)
    if bad:
        ctx.obligation("corr:oned_synthesis/oned_analysis model agrees with implementation", False, "corr-shard",
                       "differs on %r" % [meta[i] for i in bad[:3]])

    # ---- (b) forward cases ------------------------------------------------------------
    nfwd = ctx.pick(98, 980)
    cases, meta = [], []
    fails = []
    corpus = load_corpus(nf)
    for i in range(-len(corpus), nfwd):
        if i < 0:  # corpus of past failures / hand-picked edge cases first
            wi, wiho, dims, comp, pic = corpus[i + len(corpus)]
        else:
            wi, wiho = pairs[i % len(pairs)]
            dims = rand_dims(rng, 20, 20, 3, 3, 400 if rng.random() < 0.8 else 1024)
            comp = rng.randrange(3)
            w, h = (dims[0], dims[1]) if comp == 0 else (dims[2], dims[3])
            pic = rand_arr(rng, h, w)
        try:
            st, padded, ct, syn, out = py_forward(I, wi, wiho, dims, comp, pic)
        except Exception as e:
            ctx.violation("transform-raises", {"wi": wi, "wiho": wiho, "dims": dims, "comp": comp, "pic": pic}, "exception %r" % (e,))
            continue
        cases.append("((%s, %s), (%s, %s, %s, %s, %s, %s), %s, %s, %s, %s, %s, %s)" % (
            cz(wi), cz(wiho), cz(dims[0]), cz(dims[1]), cz(dims[2]), cz(dims[3]), cz(dims[4]), cz(dims[5]), cz(comp),
            carr(pic), carr(padded), ccoeffs(ct),
            "None" if syn == padded else "(Some %s)" % carr(syn), "None" if out == pic else "(Some %s)" % carr(out)))
        meta.append((wi, wiho, dims, comp, pic))
        ctx.count(1, key=("fwd", i) if dims[4] + dims[5] > 0 else None, bucket=bucket(dims, comp))
        if 0 <= i < 2:
            ctx.sample({"wavelet_index": wi, "wavelet_index_ho": wiho, "dims(lw,lh,cw,ch,d,dh)": dims, "comp": COMPS[comp],
                        "pic_first_row": [str(v) for v in pic[0]]})
    bad = ctx.coq_check_cases("fwd", imports, "chk_fwd tbl", cases, shard=ctx.pick(7, 14), defs=tdef, timeout=900,
                              ty="(Z * Z) * (Z * Z * Z * Z * Z * Z) * Z * arr * arr * coeffs * option arr * option arr")
    for i in (bad or []):
        mism_inputs.append(meta[i])
    if bad:
        ctx.obligation("corr:dwt/idwt/padding model agrees with implementation, sub-band shapes = Gen.SliceSizes (forward cases)", False, "corr-shard",
                       "differs on (wi, wiho, dims, comp) = %r" % [meta[i][:4] for i in bad[:5]])
    # ---- (c) inverse cases on independent coefficients -----------------------------------
    ninv = ctx.pick(49, 490)
    cases, meta = [], []
    for i in range(ninv):
        wi, wiho = pairs[(i * 5 + 3) % len(pairs)]
        d, dh = rng.randrange(0, 4), rng.randrange(0, 4)
        cap = max(ctx.pick(320, 640), (1 << d) * (1 << (d + dh)))  # the smallest shape is always allowed
        while True:
            h0, w0 = rng.randrange(1, 6), rng.randrange(1, 6)
            if (h0 << d) * (w0 << (d + dh)) <= cap:
                break
        kind = rng.randrange(5)
        dc = rand_arr(rng, h0, w0, kind)
        ho = [rand_arr(rng, h0, w0 << k, kind) for k in range(dh)]
        vh = [tuple(rand_arr(rng, h0 << k, w0 << (dh + k), kind) for _ in range(3)) for k in range(d)]
        ct = (dc, ho, vh)
        st = mkstate(State, tables, wi, wiho, 1, 1, 1, 1, d, dh)
        try:
            syn = pd.idwt(st, coeff_dict(ct, d, dh))
            syn_c = deepcopy(syn)
            ct2 = deepcopy(coeff_tuple(pe.dwt(st, syn), d, dh))
        except Exception as e:
            ctx.violation("transform-raises", {"wi": wi, "wiho": wiho, "d": d, "dh": dh, "coeffs": ct}, "exception %r" % (e,))
            continue
        cases.append("((%s, %s), (%s, %s), %s, %s, %s)" % (cz(wi), cz(wiho), cz(d), cz(dh), ccoeffs(ct), carr(syn_c), ccoeffs(ct2)))
        meta.append((wi, wiho, d, dh))
        ctx.count(1, key=("inv", i) if d + dh > 0 else None, bucket="inv d=%d,dh=%d" % (d, dh))
    bad = ctx.coq_check_cases("inv", imports, "chk_inv tbl", cases, shard=ctx.pick(7, 14), defs=tdef, timeout=900,
                              ty="(Z * Z) * (Z * Z) * coeffs * arr * coeffs")
    if bad:
        ctx.obligation("corr:idwt model agrees with implementation on independent coefficients", False, "corr-shard",
                       "differs on (wi, wiho, d, dh) = %r" % [meta[i] for i in bad[:5]])

    # ---- property oracle on the implementation -------------------------------------------
    # mismatching correspondence inputs first
    for (wi, wiho, dims, comp, pic) in mism_inputs:
        r = oracle_one(I, wi, wiho, dims, comp, pic)
        if r is not None:
            ctx.violation(r[0], {"wi": wi, "wiho": wiho, "dims": list(dims), "comp": comp, "pic": pic}, r[1], observed=r[2], expected=pic)
    jobs = []
    maxn = ctx.pick(24, 48)
    reps = ctx.pick(6, 30)
    for (wi, wiho) in pairs:
        for d in range(0, 5):
            for dh in range(0, 5):
                for rep in range(reps):
                    big = (d + dh >= 6)
                    lw, lh = rng.randrange(1, (4 if big else maxn) + 1), rng.randrange(1, (4 if big else maxn) + 1)
                    cw, ch = rng.randrange(1, (4 if big else maxn) + 1), rng.randrange(1, (4 if big else maxn) + 1)
                    comp = rng.randrange(3)
                    w, h = (lw, lh) if comp == 0 else (cw, ch)
                    pic = rand_arr(rng, h, w, rng.choice([0, 1, 2, 3, 4]))
                    jobs.append((wi, wiho, (lw, lh, cw, ch, d, dh), comp, pic))
    # all sizes 1..N x 1..N for a rotating pair/depth (small, exhaustive in size)
    k = 0
    for w in range(1, ctx.pick(25, 41)):
        for h in range(1, ctx.pick(25, 41)):
            wi, wiho = pairs[k % len(pairs)]
            d, dh = (k // 7) % 4, (k // 3) % 4
            k += 1
            jobs.append((wi, wiho, (w, h, w, h, d, dh), 0, rand_arr(rng, h, w, 3)))
    jobs = list(corpus) + jobs
    nw = max(1, min(12, (os.cpu_count() or 2) - 2))
    chunks = [jobs[i::nw * 4] for i in range(nw * 4)]
    results = []
    try:
        with concurrent.futures.ProcessPoolExecutor(max_workers=nw) as ex:
            for r in ex.map(_oracle_chunk, chunks):
                results.extend(r)
    except Exception as e:  # no multiprocessing available: run in-process
        ctx.note("oracle ran in-process (%r)" % (e,))
        results = _oracle_chunk(jobs)
    for (wi, wiho, dims, comp, pic) in jobs:
        ctx.count(1, key=("oracle", wi, wiho, dims, comp) if dims[4] + dims[5] > 0 else None, bucket="oracle " + bucket(dims, comp))
    for (job, r) in results:
        wi, wiho, dims, comp, pic = job
        ctx.violation(r[0], {"wi": wi, "wiho": wiho, "dims": list(dims), "comp": comp, "pic": pic}, r[1], observed=r[2], expected=pic)
    ctx.trusted.append("Model/Lifting.v, Model/Wavelet.v are hand models tied by the differential run above; the filter table is an "
                       "argument (theorems hold for every table), the live LIFTING_FILTERS is dumped into each case file")
    ctx.trusted.append("padding dimensions: Gen/SliceSizes.v regenerated from /repo (tie T)")


def replay(ctx, data):
    I = impl()
    inp = data["input"]
    print("replaying", data.get("key"), {k: v for k, v in inp.items() if k not in ("pic", "coeffs")})
    if "pic" not in inp:
        print("no picture in replay input")
        return 0
    pic = [[int(v) for v in r] for r in inp["pic"]]
    r = oracle_one(I, inp["wi"], inp["wiho"], tuple(inp["dims"]), inp["comp"], pic)
    print("property violated on this input:", r is not None, r[:2] if r else "")
    return 1 if r is not None else 0
