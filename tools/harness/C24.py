"""C24 harness: determinism and schedule independence of the real vc2-test-case-generator.

Measures the hypotheses of Props/C24 on the real worker commands (each command's write set, pairwise
path-disjointness) and compares the trees produced by: the serial run, the emitted worker commands
run one by one in shuffled order, and the same commands run concurrently, under different
PYTHONHASHSEED values."""
import hashlib
import os
import random
import shutil
import subprocess
import sys
import concurrent.futures

import vlib

HERE = os.path.dirname(os.path.abspath(__file__))

BASE_ROWS = None


def config_csv(repo, variant):
    """CSV text with small codec configurations (variants of the test suite's 'minimal' column).
    `variant` may name several variants joined by '+': they become several columns of ONE file, so that
    the serial run handles them in one process while every worker command has a process of its own."""
    if "+" in variant:
        import csv, io
        cols = [list(csv.reader(io.StringIO(config_csv(repo, v)))) for v in variant.split("+")]
        keys = []
        for c in cols:
            for k, _ in c:
                if k not in keys:
                    keys.append(k)
        f = io.StringIO()
        w = csv.writer(f)
        for k in keys:
            w.writerow([k] + [dict(c).get(k, "") for c in cols])
        return f.getvalue()
    return _config_csv(repo, variant)


def _config_csv(repo, variant):
    import csv, io
    rows = list(csv.reader(open(os.path.join(repo, "tests", "sample_codec_features.csv"))))
    out = []
    for r in rows:
        if not r or not r[0] or r[0].startswith("#"):
            continue
        out.append([r[0], r[2]])
    d = dict(out)
    d["name"] = "cfg_%s" % variant
    if variant == "ld_fragments":
        d.update(profile="low_delay", fragment_slice_count="1", picture_bytes="32", slices_x="2", slices_y="2",
                 frame_width="8", frame_height="8", clean_width="8", clean_height="8")
    elif variant == "fields_420":
        d.update(picture_coding_mode="pictures_are_fields", color_diff_format_index="color_4_2_0", frame_width="8",
                 frame_height="8", clean_width="8", clean_height="8", source_sampling="interlaced", picture_bytes="48")
    elif variant == "custom_qm":
        d.update(quantization_matrix="3 2 2 1")
    elif variant == "sibling_par":
        # same frame size as custom_qm, different pixel aspect ratio / frame rate (process-lifetime caches keyed too coarsely)
        d.update(quantization_matrix="3 2 2 1", pixel_aspect_ratio_numer="16", pixel_aspect_ratio_denom="11",
                 frame_rate_numer="25", frame_rate_denom="1")
    elif variant == "sibling_qm":
        # identical to custom_qm in everything but the quantisation matrix (per-process memoisation keyed on the
        # transform and the format only)
        d.update(quantization_matrix="0 1 1 2")
    elif variant == "sibling_range":
        d.update(luma_offset="16", luma_excursion="219", color_diff_offset="128", color_diff_excursion="224")
    elif variant == "lossless_asym":
        d.update(lossless="TRUE", wavelet_index_ho="le_gall_5_3", dwt_depth_ho="1", quantization_matrix="0 0 0 0 0")
        d.pop("picture_bytes", None)
    f = io.StringIO()
    w = csv.writer(f)
    for k, v in d.items():
        w.writerow([k, v])
    return f.getvalue()


def env(hashseed):
    e = dict(os.environ)
    e["PYTHONPATH"] = os.pathsep.join([os.path.join(HERE, "sitecustom"), vlib.REPO])
    e["PYTHONHASHSEED"] = str(hashseed)
    e["VERIF_SMALL_PICTURES"] = "1"
    e["VERIF_REPO"] = vlib.REPO
    e["OMP_NUM_THREADS"] = "1"
    e["OPENBLAS_NUM_THREADS"] = "1"
    return e


GEN = "import sys; from vc2_conformance.scripts.vc2_test_case_generator.cli import main; sys.exit(main(sys.argv[1:]))"
WORK = "import sys; from vc2_conformance.scripts.vc2_test_case_generator.worker import main; main(sys.argv[1:])"


def tree(root):
    """{relative path: sha1} of every file under root."""
    out = {}
    for dp, dn, fn in os.walk(root):
        for f in fn:
            p = os.path.join(dp, f)
            with open(p, "rb") as fh:
                out[os.path.relpath(p, root)] = hashlib.sha1(fh.read()).hexdigest()
    return out


def generate(csv_path, outdir, hashseed, parallel, cwd):
    cmd = [vlib.PY, "-c", GEN, csv_path, "--output", outdir] + (["--parallel"] if parallel else [])
    p = subprocess.run(cmd, env=env(hashseed), cwd=cwd, stdout=subprocess.PIPE, stderr=subprocess.PIPE, timeout=3000)
    return p.returncode, p.stdout.decode(), p.stderr.decode()


def run_worker(args):
    code, hashseed, cwd = args
    p = subprocess.run([vlib.PY, "-c", WORK, code], env=env(hashseed), cwd=cwd, stdout=subprocess.PIPE,
                       stderr=subprocess.PIPE, timeout=3000)
    return p.returncode, p.stderr.decode()[-500:]


def diff_trees(a, b):
    keys = sorted(set(a) | set(b))
    return [k for k in keys if a.get(k) != b.get(k)]


def directory_race_oracle(ctx, work):
    """Hypothesis of the commutation theorem measured at the primitive: every worker command begins by creating
    directories that other commands create too, so directory creation must tolerate another process creating
    the same directory at any moment.  A real race is microseconds wide; it is simulated faithfully in this
    process: whenever the code under test ASKS whether the directory exists and the true answer is "no", the
    answer is given and then "another worker" creates the directory.  No false information is ever returned."""
    import importlib
    cli = importlib.import_module("vc2_conformance.scripts.vc2_test_case_generator.cli")
    fn = getattr(cli, "makedirs", None)
    if fn is None:
        ctx.note("cli.makedirs not found: directory race oracle skipped")
        return
    real = {"isdir": os.path.isdir, "exists": os.path.exists, "lexists": os.path.lexists, "stat": os.stat}
    for depth in (1, 2, 3):
        root = os.path.join(work, "race%d" % depth)
        os.makedirs(root)
        parts = [root] + ["d%d" % i for i in range(depth)]
        target = os.path.join(*parts)
        watched = set(os.path.join(*parts[:k]) for k in range(2, len(parts) + 1))

        def wrap(name):
            def probe(p, *a, **kw):
                try:
                    r = real[name](p, *a, **kw)
                except OSError:
                    if name == "stat" and os.fspath(p) in watched:
                        os.makedirs(os.fspath(p), exist_ok=True)       # the other worker wins the race now
                    raise
                if r is False and os.fspath(p) in watched:
                    os.makedirs(os.fspath(p), exist_ok=True)           # the other worker wins the race now
                return r
            return probe
        os.path.isdir, os.path.exists, os.path.lexists = wrap("isdir"), wrap("exists"), wrap("lexists")
        try:
            try:
                fn(target, exist_ok=True)
                ok, detail = real["isdir"](target), ""
            except OSError as e:
                ok, detail = False, "%s: %s" % (type(e).__name__, e)
        finally:
            os.path.isdir, os.path.exists, os.path.lexists = real["isdir"], real["exists"], real["lexists"]
        ctx.count(1, key=("dir-race", depth), bucket="directory-race-probe")
        if not ok:
            ctx.violation("directory-creation-not-race-free", {"depth": depth},
                          "the directory creation used by every worker command fails when another worker creates the same "
                          "directory between its existence check and its mkdir: %s" % detail)


def run(ctx):
    rng = ctx.rng
    ctx.extra["rule"] = (
        "per configuration: (A) serial vc2-test-case-generator run; (B) the emitted worker commands run one at a time in a "
        "shuffled order, each under a random PYTHONHASHSEED, recording each command's write set; (C) the commands run "
        "concurrently (16 processes) in another shuffled order; (D) every command alone in a fresh empty directory (its files must equal its share of the serial run); trees compared byte for byte; write sets checked pairwise "
        "path-disjoint; evaluations = worker command executions + serial runs; distinct non-trivial = distinct commands that wrote >= 1 file")
    # custom_qm first: a configuration with a non-default option exposes shared-object mutation between generators
    variants = ctx.pick(["custom_qm+sibling_qm+sibling_par"],
                        ["custom_qm+sibling_qm+sibling_par+sibling_range", "minimal+sibling_qm", "ld_fragments+fields_420", "lossless_asym"])
    work = os.path.join(ctx.workdir, "gen")
    shutil.rmtree(work, ignore_errors=True)
    os.makedirs(work)
    try:
        directory_race_oracle(ctx, work)
        for variant in variants:
            base = os.path.join(work, variant.replace("+", "_"))
            os.makedirs(base)
            csv_path = os.path.join(base, "codec_features.csv")
            with open(csv_path, "w") as f:
                f.write(config_csv(vlib.REPO, variant))
            seeds = [rng.randrange(1, 1 << 30) for _ in range(4)]
            # (A) serial
            rc, out, err = generate(csv_path, "out", 0, False, cwd=os.path.join(base))
            ctx.count(1, bucket="serial-run")
            if rc != 0:
                ctx.obligation("harness:C24 serial generation (%s)" % variant, False, "harness", err[-1500:])
                continue
            os.rename(os.path.join(base, "out"), os.path.join(base, "A"))
            tree_a = tree(os.path.join(base, "A"))
            # commands (generated under a different hash seed)
            rc, out, err = generate(csv_path, "out", seeds[0], True, cwd=base)
            cmds = [l.split(None, 1)[1] for l in out.splitlines() if l.startswith("vc2-test-case-generator-worker ")]
            if rc != 0 or not cmds:
                ctx.obligation("harness:C24 --parallel generation (%s)" % variant, False, "harness", err[-1500:])
                continue
            rc2, out2, _ = generate(csv_path, "out", seeds[1], True, cwd=base)
            if out2 != out:
                ctx.violation("parallel-commands-differ-across-hash-seeds", {"variant": variant, "seeds": seeds[:2]},
                              "the emitted worker command list differs between PYTHONHASHSEED values")
            # (B) one at a time, shuffled, recording write sets
            order = list(range(len(cmds)))
            rng.shuffle(order)
            write_sets = {}
            before = {}
            for i in order:
                rc, e = run_worker((cmds[i], rng.randrange(1, 1 << 30), base))
                ctx.count(1, bucket="worker-sequential")
                if rc != 0:
                    ctx.violation("worker-command-fails", {"variant": variant, "command_index": i}, e)
                now = tree(os.path.join(base, "out"))
                changed = [k for k in now if before.get(k) != now[k]]
                write_sets[i] = changed
                if changed:
                    ctx.nontrivial.add("%s/%d" % (variant, i))
                before = now
            os.rename(os.path.join(base, "out"), os.path.join(base, "B"))
            tree_b = before
            owner = {}
            for i, ws in write_sets.items():
                for pth in ws:
                    if pth in owner:
                        ctx.violation("worker-commands-write-same-path", {"variant": variant, "path": pth, "commands": [owner[pth], i]},
                                      "two worker commands write %s (hypothesis of C24_schedule_independent fails)" % pth)
                    owner[pth] = i
            ctx.extra.setdefault("write_sets", {})[variant] = {"commands": len(cmds), "files": len(owner),
                                                               "max_files_per_command": max(len(w) for w in write_sets.values())}
            d = diff_trees(tree_a, tree_b)
            if d:
                ctx.violation("shuffled-sequential-run-differs-from-serial", {"variant": variant, "order": order, "files": d[:10]},
                              "%d files differ or are missing between the serial run and the shuffled one-by-one run" % len(d))
            # (C) concurrently
            order2 = list(range(len(cmds)))
            rng.shuffle(order2)
            with concurrent.futures.ThreadPoolExecutor(max_workers=16) as ex:
                res = list(ex.map(run_worker, [(cmds[i], rng.randrange(1, 1 << 30), base) for i in order2]))
            ctx.count(len(cmds), bucket="worker-concurrent")
            for (rc, e), i in zip(res, order2):
                if rc != 0:
                    ctx.violation("worker-command-fails-concurrently", {"variant": variant, "command_index": i}, e)
            tree_c = tree(os.path.join(base, "out"))
            d = diff_trees(tree_a, tree_c)
            if d:
                ctx.violation("concurrent-run-differs-from-serial", {"variant": variant, "order": order2, "files": d[:10]},
                              "%d files differ or are missing between the serial run and the concurrent run" % len(d))
            # (D) every command on its own in a fresh, empty working directory: "independent" also means that no command
            # relies on a directory or file another command happens to have created first
            solo_root = os.path.join(base, "solo")
            solo_dirs = []
            for i in range(len(cmds)):
                dd = os.path.join(solo_root, "%03d" % i)
                os.makedirs(dd)
                solo_dirs.append(dd)
            with concurrent.futures.ThreadPoolExecutor(max_workers=16) as ex:
                res = list(ex.map(run_worker, [(cmds[i], rng.randrange(1, 1 << 30), solo_dirs[i]) for i in range(len(cmds))]))
            ctx.count(len(cmds), bucket="worker-solo-fresh-directory")
            for i, (rc, e) in enumerate(res):
                if rc != 0:
                    ctx.violation("worker-command-fails-alone-in-fresh-directory", {"variant": variant, "command_index": i}, e)
                    continue
                t_i = tree(os.path.join(solo_dirs[i], "out"))
                bad = [k for k in sorted(set(t_i) | set(write_sets.get(i, []))) if t_i.get(k) != tree_a.get(k) or k not in t_i]
                if bad:
                    ctx.violation("solo-run-differs-from-serial", {"variant": variant, "command_index": i, "files": bad[:10]},
                                  "command %d run alone in a fresh directory writes %d files that differ from (or are missing relative to) "
                                  "its share of the serial run" % (i, len(bad)))
            shutil.rmtree(solo_root, ignore_errors=True)
            ctx.sample({"variant": variant, "commands": len(cmds), "files": len(tree_a), "sequential_order": order[:10],
                        "concurrent_order": order2[:10], "example_write_set": write_sets[order[0]][:5]})
            if ctx.tier == "thorough":
                # a second serial run under another hash seed
                shutil.rmtree(os.path.join(base, "out"), ignore_errors=True)
                rc, out, err = generate(csv_path, "out", seeds[2], False, cwd=base)
                ctx.count(1, bucket="serial-run")
                d = diff_trees(tree_a, tree(os.path.join(base, "out")))
                if d:
                    ctx.violation("serial-runs-differ-across-hash-seeds", {"variant": variant, "seeds": [0, seeds[2]], "files": d[:10]},
                                  "%d files differ between serial runs with different PYTHONHASHSEED" % len(d))
    finally:
        shutil.rmtree(work, ignore_errors=True)
    ctx.trusted.append("commutation proved on Model/Sched.v; its hypotheses (path-disjoint write sets, per-command determinism) "
                       "are measured on the real commands; process scheduling, pickle, the file system and hash randomisation are runtime behaviour")
    ctx.trusted.append("natural pictures replaced by tests/test_images/*.raw via a sitecustomize hook in the harness's subprocesses")


def replay(ctx, data):
    print("C24 replays are whole generator runs: re-run ./check C24 (seed %s); input: %r" % (data.get("seed"), data.get("input")))
    ctx2 = vlib.Ctx("C24", data.get("tier", "quick"), data.get("seed", 0))
    run(ctx2)
    keys = [v["key"] for v in ctx2.violations]
    print("violations now:", keys)
    return 1 if data.get("key") in keys else 0
