"""C03 harness: the real encoder's output is a conformant stream in the requested format.

Correspondence (tie C): Model/EncoderSeq.frag_split vs the fragment headers produced by the real
make_picture_data_units, for a grid of (slices_x, slices_y, fragment_slice_count).
Oracle: encoder -> autofill+serialise -> validator over a random configuration space
(profiles, lossless/lossy, all wavelet pairs, symmetric/asymmetric depths, slice counts,
fragment sizes, subsampling, field/frame coding, base video formats, custom/default matrices,
signal ranges/bit depths, picture contents and numbering)."""
import random
import traceback

import common
from vlib import cz, clist


def frag_headers(args):
    sx, sy, fsc = args
    from vc2_conformance.encoder import make_picture_data_units
    cf = common.make_codec_features(slices_x=sx, slices_y=sy, fragment_slice_count=fsc, frame_width=8, frame_height=4,
                                    lossless=True, dwt_depth=1)
    rng = random.Random(sx * 1000 + sy * 100 + fsc)
    dus = make_picture_data_units(cf, common.random_picture(cf, rng, "noise", pic_num=7))
    out = []
    for du in dus:
        fh = du["fragment_parse"]["fragment_header"]
        out.append((fh["fragment_slice_count"], fh.get("fragment_x_offset", -1), fh.get("fragment_y_offset", -1),
                    fh.get("picture_number")))
    return out


def one_config(job):
    """Runs one configuration end to end on the implementation. Returns a dict."""
    seed, idx = job
    rng = random.Random((seed << 20) + idx)
    from vc2_conformance import encoder
    from vc2_data_tables import BaseVideoFormats
    kw = common.random_small_config(rng)
    kw["base_video_format"] = rng.choice(list(BaseVideoFormats))
    desc = common.describe_config(kw)
    desc["base_video_format"] = int(kw["base_video_format"])
    res = {"idx": idx, "config": desc, "status": None}
    try:
        cf = common.make_codec_features(**kw)
        common.randomise_video_parameters(cf["video_parameters"], rng)
        desc["video_parameters"] = {k: (int(v) if not isinstance(v, bool) else v) for k, v in cf["video_parameters"].items()}
        fields = kw["fields"]
        n = rng.choice([0, 1, 2, 3, 4])
        if fields and n % 2:
            n += 1
        nums = common.legal_picture_numbers(rng, n, fields)
        pics = [common.random_picture(cf, rng, pic_num=(nums[i] if nums else None)) for i in range(n)]
        res["n_pictures"] = n
        res["numbers"] = nums
        res["kinds"] = "fields" if fields else "frames"
        try:
            seq = encoder.make_sequence(cf, pics)
        except encoder.UnsatisfiableCodecFeaturesError as e:
            res["status"] = "unsatisfiable:" + type(e).__name__
            return res
        except Exception as e:
            res["status"] = "encoder-exception:" + type(e).__name__
            res["detail"] = traceback.format_exc()[-800:]
            return res
        try:
            data = common.serialise([seq])
        except Exception as e:
            # the encoder accepted the configuration but its sequence cannot be serialised: the property fails
            res["status"] = "rejected"
            res["verdict"] = "serialise-exception:" + type(e).__name__
            res["detail"] = "autofill_and_serialise_stream raised %s: %s" % (type(e).__name__, str(e)[:300])
            return res
        res["stream_bytes"] = len(data)
        verdict, exc, out, state = common.validate(data)
        res["verdict"] = verdict
        if verdict != "accept":
            res["status"] = "rejected"
            try:
                res["detail"] = exc.explain()[:600] if hasattr(exc, "explain") else repr(exc)
            except Exception:
                res["detail"] = repr(exc)
            res["stream_hex"] = data.hex() if len(data) < 4000 else None
            return res
        problems = []
        if len(out) != n:
            problems.append("decoded %d pictures for %d inputs" % (len(out), n))
        expect = nums if nums else list(range(n))
        for i, (pic, vp, pcm) in enumerate(out[:n]):
            if dict(vp) != dict(cf["video_parameters"]):
                problems.append("picture %d: video parameters differ" % i)
            if pcm != cf["picture_coding_mode"]:
                problems.append("picture %d: picture coding mode differs" % i)
            if pic["pic_num"] != expect[i]:
                problems.append("picture %d: number %r expected %r" % (i, pic["pic_num"], expect[i]))
            if kw["lossless"] and not common.pictures_equal(pic, pics[i]):
                problems.append("picture %d: lossless content differs" % i)
        res["status"] = "ok" if not problems else "bad-output"
        res["detail"] = "; ".join(problems)
        res["units"] = [du["parse_info"]["parse_code"].name for du in seq["data_units"]]
        return res
    except Exception as e:
        res["status"] = "harness-exception:" + type(e).__name__
        res["detail"] = traceback.format_exc()[-800:]
        return res


def seeded_config(args):
    """End-to-end oracle on a specific (slices_x, slices_y, fragment_slice_count): used to turn a
    correspondence mismatch into a concrete failing input of the property, if there is one."""
    sx, sy, fsc = args
    from vc2_conformance import encoder
    out = []
    for profile, lossless in (("hq", True), ("ld", False)):
        kw = dict(slices_x=sx, slices_y=sy, fragment_slice_count=fsc, frame_width=8, frame_height=4, lossless=lossless,
                  profile=profile, dwt_depth=1, picture_bytes=None if lossless else sx * sy * 8)
        cf = common.make_codec_features(**kw)
        rng = random.Random(sx * 1000 + sy * 100 + fsc)
        pics = [common.random_picture(cf, rng, "noise") for _ in range(2)]
        try:
            data = common.serialise([encoder.make_sequence(cf, pics)])
        except Exception as e:
            out.append((kw, "encode-exception:%s" % type(e).__name__, 0))
            continue
        verdict, exc, pictures, _ = common.validate(data)
        out.append((kw, verdict, len(pictures)))
    return out


def lossless_lengths(args):
    """Function-level oracle on the real make_transform_data_hq_lossless with synthetic coefficient
    lists whose coded sizes are exactly the requested byte counts (a coefficient 1 costs 4 bits)."""
    sizes, minimum = args
    from vc2_conformance.encoder import pictures as ep
    import importlib
    ep = importlib.import_module("vc2_conformance.encoder.pictures")
    def comp(nbytes):
        return ep.ComponentCoeffs(coeff_values=[1] * (2 * nbytes), quant_matrix_values=[0] * (2 * nbytes))
    row = [ep.SliceCoeffs(Y=comp(a), C1=comp(b), C2=comp(c)) for (a, b, c) in sizes]
    try:
        scaler, td = ep.make_transform_data_hq_lossless([row], minimum)
    except Exception as e:
        return ("exception:%s" % type(e).__name__, None, None)
    fields = [(s["slice_y_length"], s["slice_c1_length"], s["slice_c2_length"]) for s in td["hq_slices"]]
    return ("ok", scaler, fields)



# ==========================================================================================
# BRIDGE section (ADDED; integration C03 x C07 x C18 x C19 x C01 -- Props/C03.v C03_structure).
# Real encoder sequences (random configuration, level, header presets, numbering, extra data-unit
# patterns) -> autofill + serialise -> real deserialiser -> abstraction to Model/Stream.v unit
# literals (convention and helpers of tools/harness/C01.py, imported) -> in coqc
# (Model/IntegSeqCorr.v bridge_code):
#   (a) the abstracted real unit list satisfies the decidable hypotheses of C03_structure,
#   (b) it EQUALS Model/IntegSeq.v make_sequence_units on the same inputs (names inserted by
#       make_matching_sequence, fragment split, numbers, offsets, autofilled major_version),
#   and h_pvmin as computed by the bridge from the header's preset fields = the largest preset
#   bound the REAL validator logged; _expected_major_version of the real validator = both
#   formulations of the version rule (C01's and C07's).
# ==========================================================================================
BRIDGE_IMPORTS = ["Base.PyZ", "Model.Regex", "Model.Stream", "Model.IntegSeq", "Model.IntegSeqCorr"]
SYM_NUM = {"auxiliary_data": 1, "end_of_sequence": 2, "high_quality_picture": 3, "high_quality_picture_fragment": 4,
           "low_delay_picture": 5, "low_delay_picture_fragment": 6, "padding_data": 7, "sequence_header": 8}
BRIDGE_EXTRA_PATTERNS = [
    "(. padding_data)* end_of_sequence",
    "sequence_header auxiliary_data .*",
    ".* auxiliary_data end_of_sequence",
    "(sequence_header .)* end_of_sequence",
    ". padding_data padding_data .*",
    "(sequence_header | padding_data | high_quality_picture | low_delay_picture)* end_of_sequence",
    ".* padding_data auxiliary_data padding_data end_of_sequence",
    "sequence_header (. .)* end_of_sequence",
]
BRIDGE_CODES = {1: "pattern does not parse in the model", 2: "pattern violates the `$` hypothesis (eos_ok)",
                3: "hdr_pvmin (bridge, from the preset fields) differs from the largest preset bound the real validator logged",
                4: "model make_sequence returns nothing (search out of fuel / impossible / unknown name)",
                5: "model data units differ from the real ones",
                6: "a decidable hypothesis of C03_structure fails on the real sequence",
                7: "validator model rejects", 8: "C07 val_expected differs from the real _expected_major_version",
                9: "C01 needed version differs from the real _expected_major_version",
                10: "the level's pattern (level <> 0) does not have the shape `<no end_of_sequence / wildcard / $> end_of_sequence`"}


def _tp_fields(tp):
    wi = int(tp["wavelet_index"])
    etp = tp.get("extended_transform_parameters")
    wi_ho = int(etp["wavelet_index_ho"]) if etp is not None and etp.get("asym_transform_index_flag") else wi
    dho = int(etp["dwt_depth_ho"]) if etp is not None and etp.get("asym_transform_flag") else 0
    sp = tp["slice_parameters"]
    return (wi, wi_ho, dho, int(sp["slices_x"]) * 65536 + int(sp["slices_y"]))


def _preset(d, flag):
    from vlib import copt, cbool
    f = "(Some %s)" % cbool(bool(d[flag])) if flag in d else "None"
    i = copt(int(d["index"])) if "index" in d else "None"
    return "(BP %s %s)" % (f, i)


def bridge_case(job):
    """One real encoder sequence -> the pieces of a Coq `bcase` literal (or why there is none)."""
    seed, idx = job
    import C01 as h01
    import C07 as h07
    import C18 as h18
    I = h01.impl()          # permissive level CONSTRAINT table (tiny pictures at any level); patterns untouched
    from vc2_conformance import encoder
    from vc2_conformance.encoder.exceptions import IncompatibleLevelAndDataUnitError
    from vc2_conformance.bitstream import vc2_autofill as af, vc2_fixeddicts as fd
    import importlib
    dsh = importlib.import_module("vc2_conformance.decoder.sequence_header")
    from vc2_data_tables import (Levels, PRESET_FRAME_RATES, PRESET_SIGNAL_RANGES, PresetColorPrimaries,
                                 PresetColorMatrices, PresetTransferFunctions, BaseVideoFormats)
    rng = random.Random((seed << 21) + 7919 * idx + 3)
    res = {"idx": idx, "status": None}
    try:
        kw = common.random_small_config(rng, max_w=12, max_h=8)
        level = rng.choice([0, 0, 0, 0, 1, 3, 7, 64, 65, 66, 64, 66])
        if level in (64, 65, 66) and rng.random() < 0.75:
            kw["profile"] = "hq" if level == 66 else "ld"
            kw["fragment_slice_count"] = 0
            if kw["profile"] == "ld":
                kw["lossless"] = False
                kw["picture_bytes"] = kw["slices_x"] * kw["slices_y"] * rng.randint(2, 60)
            elif not kw["lossless"] and kw.get("picture_bytes") is None:
                kw["picture_bytes"] = kw["slices_x"] * kw["slices_y"] * rng.randint(4, 100)
        kw["level"] = Levels(level)
        kw["base_video_format"] = rng.choice(list(BaseVideoFormats))
        # header presets (frame rate / signal range / colour) so that the preset version bounds vary
        if rng.random() < 0.45:
            sr = PRESET_SIGNAL_RANGES[rng.choice(list(PRESET_SIGNAL_RANGES))]
            kw.update(luma_offset=sr.luma_offset, luma_excursion=sr.luma_excursion,
                      color_diff_offset=sr.color_diff_offset, color_diff_excursion=sr.color_diff_excursion)
        cf = common.make_codec_features(**kw)
        vp = cf["video_parameters"]
        if rng.random() < 0.5:
            fr = PRESET_FRAME_RATES[rng.choice(list(PRESET_FRAME_RATES))]
            vp["frame_rate_numer"], vp["frame_rate_denom"] = fr.numerator, fr.denominator
        if rng.random() < 0.4:
            vp["color_primaries_index"] = rng.choice(list(PresetColorPrimaries))
        if rng.random() < 0.4:
            vp["color_matrix_index"] = rng.choice(list(PresetColorMatrices))
        if rng.random() < 0.4:
            vp["transfer_function_index"] = rng.choice(list(PresetTransferFunctions))
        fields = kw["fields"]
        n = rng.choice([0, 1, 1, 2, 2, 3])
        if fields and n % 2:
            n += 1
        nums = common.legal_picture_numbers(rng, n, fields)
        pics = [common.random_picture(cf, rng, pic_num=(nums[i] if nums else None)) for i in range(n)]
        extra = []
        if rng.random() < 0.35:
            extra = [rng.choice(BRIDGE_EXTRA_PATTERNS)]
        level_regex = I["LSR"][Levels(level)].sequence_restriction_regex
        nm = lambda s: SYM_NUM[s]
        res["level"] = level
        res["extra"] = extra
        res["config"] = common.describe_config(dict((k, v) for k, v in kw.items() if k not in ("level", "base_video_format")))
        res["n_pictures"] = n
        res["numbers"] = nums
        res["lvl_toks"] = h18.coq_tokens(nm, h18.my_tokens(level_regex))
        res["extra_toks"] = "[" + "; ".join(h18.coq_tokens(nm, h18.my_tokens(p)) for p in extra) + "]"
        res["defaults"] = h07.defaults_lit(af, fd).replace("(D ", "(BD ", 1)
        hq = 1 if kw["profile"] == "hq" else 0
        spec = (hq, int(cf["wavelet_index"]), int(cf["wavelet_index_ho"]), int(cf["dwt_depth_ho"]), int(cf["slices_x"]),
                int(cf["slices_y"]), int(cf["fragment_slice_count"]))
        res["specs"] = "[" + "; ".join("(%s)" % ", ".join(cz(x) for x in spec) for _ in range(n)) + "]"
        res["start"] = nums[0] if nums else 0
        res["profile"] = 3 if hq else 0
        res["pcm"] = 1 if fields else 0
        try:
            seq = encoder.make_sequence(cf, pics, *extra)
        except IncompatibleLevelAndDataUnitError:
            res["status"] = "impossible"
            return res
        except (KeyError, IndexError) as e:
            # data_unit_makers has no maker for a name the search inserted (only the FIRST picture's parse code
            # name is registered, nothing when there are no pictures) / pop from an empty list: an internal error,
            # not an UnsatisfiableCodecFeaturesError.  The model says None at exactly these inputs (weave).
            res["status"] = "maker-error:" + type(e).__name__
            res["detail"] = repr(e)
            return res
        except encoder.UnsatisfiableCodecFeaturesError as e:
            res["status"] = "unsatisfiable:" + type(e).__name__
            return res
        data = common.serialise([seq])
        # the real validator, recording what parse_parameters / the preset readers log
        logs = []
        orig = dsh.log_version_lower_bound

        def rec(state, v):
            logs.append(int(v))
            return orig(state, v)
        dsh.log_version_lower_bound = rec
        try:
            verdict, exc, out, state = common.validate(data)
        finally:
            dsh.log_version_lower_bound = orig
        res["verdict"] = verdict
        if verdict != "accept":
            res["status"] = "rejected"
            try:
                res["detail"] = exc.explain()[:600] if hasattr(exc, "explain") else repr(exc)
            except Exception:
                res["detail"] = repr(exc)
            return res
        desc, err = common.deserialise(data)
        if err is not None:
            res["status"] = "harness-exception:deserialise"
            res["detail"] = repr(err)
            return res
        dus = desc["sequences"][0]["data_units"]
        raw = h01.split_units(data)
        assert len(raw) == len(dus)
        n_hdr = sum(1 for du in dus if int(du["parse_info"]["parse_code"]) == 0)
        per_hdr = len(logs) // max(1, n_hdr)
        assert n_hdr >= 1 and per_hdr * n_hdr == len(logs)
        hdr_logs = [logs[i * per_hdr:(i + 1) * per_hdr] for i in range(n_hdr)]
        assert all(l == hdr_logs[0] for l in hdr_logs)
        pvreal = max([1] + hdr_logs[0][1:])      # [0] is the profile's bound
        abstract, sh_lit = [], None
        for du, (code, payload) in zip(dus, raw):
            pi = du["parse_info"]
            assert int(pi["parse_code"]) == code
            tail = (13 + len(payload), int(pi["next_parse_offset"]), int(pi["previous_parse_offset"]))
            if code == 0:
                sh = du["sequence_header"]
                pp, v = sh["parse_parameters"], sh["video_parameters"]
                cs = v.get("color_spec", {})
                abstract.append((0, 1, int(pp["major_version"]), int(pp["profile"]), int(pp["level"]),
                                 int(sh["picture_coding_mode"]), pvreal) + tail)
                lit = "(BH BA None %s %s %s %s %s %s)" % (
                    _preset(v.get("frame_rate", {}), "custom_frame_rate_flag"),
                    _preset(v.get("signal_range", {}), "custom_signal_range_flag"),
                    _preset(cs, "custom_color_spec_flag"),
                    _preset(cs.get("color_primaries", {}), "custom_color_primaries_flag"),
                    _preset(cs.get("color_matrix", {}), "custom_color_matrix_flag"),
                    _preset(cs.get("transfer_function", {}), "custom_transfer_function_flag"))
                assert sh_lit in (None, lit)
                sh_lit = lit
            elif code in (200, 232):
                pic = du["picture_parse"]
                abstract.append((1, 1 if code == 232 else 0, int(pic["picture_header"]["picture_number"]))
                                + _tp_fields(pic["wavelet_transform"]["transform_parameters"]) + tail)
            elif code in (204, 236):
                fp = du["fragment_parse"]
                fh = fp["fragment_header"]
                cnt = int(fh["fragment_slice_count"])
                if cnt == 0:
                    abstract.append((2, 1 if code == 236 else 0, int(fh["picture_number"])) + _tp_fields(fp["transform_parameters"]) + tail)
                else:
                    abstract.append((3, 1 if code == 236 else 0, int(fh["picture_number"]), cnt, int(fh["fragment_x_offset"]),
                                     int(fh["fragment_y_offset"]), 0) + tail)
            else:
                abstract.append(({48: 4, 32: 5, 16: 6}[code], 0, 0, 0, 0, 0, 0) + tail)
        res["units"] = h01.coq_units(abstract)
        res["names"] = [du["parse_info"]["parse_code"].name for du in seq["data_units"]]
        res["sh"] = sh_lit
        res["pvreal"] = pvreal
        res["expected"] = int(state["_expected_major_version"])
        res["major"] = abstract[0][2]
        res["status"] = "ok"
        return res
    except Exception as e:
        res["status"] = "harness-exception:" + type(e).__name__
        res["detail"] = traceback.format_exc()[-900:]
        return res


def bridge_literal(r, fuel=600):
    return "(mkBCase %s %s %s %s %s (%s, %s, %s, %s) %s %s %s %d)" % (
        r.get("units", "[]"), r["lvl_toks"], r["extra_toks"], r["defaults"], r.get("sh", "(BH BA None (BP None None) (BP None None) (BP None None) (BP None None) (BP None None) (BP None None))"),
        cz(r["profile"]), cz(r["level"]), cz(r["pcm"]), cz(r.get("pvreal", 1)), cz(r["start"]), r["specs"], cz(r.get("expected", 0)), fuel)


def run_bridge(ctx):
    n = ctx.pick(200, 1500)
    results = common.pmap(bridge_case, [(ctx.seed, i) for i in range(n)])
    oks = [r for r in results if r["status"] == "ok"]
    imps = [r for r in results if r["status"] == "impossible"]
    for r in results:
        st = r["status"]
        lv = r.get("level")
        cls = "level0" if lv == 0 else ("levels1-7" if lv is not None and lv < 64 else "levels64-66")
        ctx.count(1, key=("bridge", r["idx"]) if st == "ok" and r.get("n_pictures") else None,
                  bucket="bridge-%s-%s%s" % (st.split(":")[0], cls, "-extra-pattern" if r.get("extra") else ""))
        if st == "rejected":
            ctx.violation("encoder-output-rejected:" + r["verdict"], {"bridge": True, "seed": ctx.seed, "idx": r["idx"], "config": r.get("config"),
                          "level": lv, "extra": r.get("extra"), "n_pictures": r.get("n_pictures"), "numbers": r.get("numbers")},
                          "validator rejected the encoder's stream: " + r.get("detail", ""), observed=r["verdict"], expected="accept")
        elif st.startswith("harness-exception"):
            ctx.note("bridge %s on case %d: %s" % (st, r["idx"], r.get("detail", "")[-400:]))
    bad = ctx.coq_check_cases("bridge", BRIDGE_IMPORTS, "fun c => bridge_code c =? 0", [bridge_literal(r) for r in oks], shard=20)
    if bad:
        details = []
        for i in bad[:6]:
            code = ctx.coq_eval("bridge_code_%d" % i, BRIDGE_IMPORTS, "bridge_code %s" % bridge_literal(oks[i]))
            try:
                what = BRIDGE_CODES.get(int(str(code).strip().strip("()")), str(code))
            except ValueError:
                what = str(code)
            details.append("case %d (level %s, extra %r, names %r, major %r): %s" % (
                oks[i]["idx"], oks[i]["level"], oks[i]["extra"], oks[i]["names"], oks[i]["major"], what))
        # the real validator accepted every one of these streams (else status would be `rejected`): the property holds
        # at these inputs, the MODEL of make_sequence / the bridge is what differs
        ctx.obligation("corr:Model/IntegSeq.v make_sequence_units and the version bridge agree with encoder + autofill + validator", False,
                       "corr-shard", "; ".join(details))
    bad2 = ctx.coq_check_cases("bridge_impossible", BRIDGE_IMPORTS, "bridge_impossible", [bridge_literal(r) for r in imps], shard=40)
    if bad2:
        ctx.obligation("corr:IncompatibleLevelAndDataUnitError iff the model's search is Impossible", False, "corr-shard",
                       "differs on %r" % [(imps[i]["idx"], imps[i]["level"], imps[i]["extra"]) for i in bad2[:5]])
    mks = [r for r in results if r["status"].startswith("maker-error")]
    bad3 = ctx.coq_check_cases("bridge_maker_error", BRIDGE_IMPORTS, "bridge_maker_error", [bridge_literal(r) for r in mks], shard=40)
    if bad3:
        ctx.obligation("corr:KeyError/IndexError in data_unit_makers iff the model's makers return nothing", False, "corr-shard",
                       "differs on %r" % [(mks[i]["idx"], mks[i]["level"], mks[i]["extra"]) for i in bad3[:5]])
    if mks:
        ctx.note("bridge: make_sequence raised KeyError/IndexError (not an UnsatisfiableCodecFeaturesError) on %d inputs, e.g. level %s, %d pictures, "
                 "extra patterns %r: %s -- the search inserts a picture name for which data_unit_makers has no maker; outside the property's "
                 "hypothesis (configuration not accepted), the model (weave = None) agrees" % (
                     len(mks), mks[0]["level"], mks[0]["n_pictures"], mks[0]["extra"], mks[0].get("detail")))
    if oks:
        r = oks[len(oks) // 2]
        ctx.sample({"bridge case": r["idx"], "level": r["level"], "extra patterns": r["extra"], "data units": r["names"],
                    "major_version": r["major"], "largest preset bound logged by the validator": r["pvreal"]})
    ctx.note("bridge: %d real sequences compared with Model/IntegSeq.v make_sequence_units (%d with inserted units beyond header/end, "
             "%d with preset bound 3, versions %s), %d refusals compared with the model's Impossible" % (
                 len(oks), sum(1 for r in oks if len(r["names"]) > 2 + sum(1 for x in r["names"] if "picture" in x)),
                 sum(1 for r in oks if r["pvreal"] == 3), sorted(set(r["major"] for r in oks)), len(imps)))
    ctx.trusted.append("C03_structure: hdr_pvmin (what Model/Stream.v's h_pvmin stands for) and the abstraction of real data units to "
                       "Model/Stream.v literals are tied by the bridge run only; eos_only_last (no end_of_sequence before the last data "
                       "unit) is a hypothesis of the theorem, evaluated on every real sequence of the bridge run")
    ctx.extra["rule"] += (" BRIDGE: %d random configurations x level (0, 1-7, 64-66) x header presets x extra data-unit pattern: real "
                          "make_sequence + autofill + serialise + validate + deserialise, abstracted to Model/Stream.v units and compared in coqc "
                          "with Model/IntegSeq.v make_sequence_units (equality) + the decidable hypotheses of C03_structure + the real validator's "
                          "preset / expected-version logs; non-trivial: the encoder produced a sequence with at least one picture." % n)


def run(ctx):
    ctx.extra["rule"] = (
        "correspondence: fragment headers of the real make_picture_data_units vs Model/EncoderSeq.frag_split over a grid of "
        "(slices_x, slices_y, fragment_slice_count); oracle: random small configurations (common.random_small_config + random base "
        "video format, 0-4 pictures, legal explicit or automatic numbering) encoded, serialised, validated; a case is non-trivial "
        "when the encoder accepted the configuration and at least one picture was coded; distinct by configuration digest.")
    # ---- correspondence -----------------------------------------------------------------
    grid = [(sx, sy, fsc) for sx in range(1, ctx.pick(5, 7)) for sy in range(1, ctx.pick(4, 6))
            for fsc in range(1, sx * sy + 3)]
    obs = common.pmap(frag_headers, grid)
    cases, bad_first = [], []
    for (sx, sy, fsc), hs in zip(grid, obs):
        first, rest = hs[0], hs[1:]
        if first[0] != 0 or any(h[3] != 7 for h in hs):
            bad_first.append(((sx, sy, fsc), hs))
        cases.append("(%s, %s, %s, %s)" % (cz(sx), cz(sy), cz(fsc), clist(rest, lambda h: "(%s, %s, %s)" % (cz(h[0]), cz(h[1]), cz(h[2])))))
        ctx.count(1, key=("frag", sx, sy, fsc), bucket="fragment-grid")
    check = ("fun '(sx, sy, fsc, obs) => list_eqb (fun (f : frag) '(c, x, y) => (f_count f =? c) && (f_x f =? x) && (f_y f =? y)) "
             "(frag_split sx sy fsc) obs")
    # list_eqb needs same-typed lists: compare via mapping the model to triples
    check = ("fun '(sx, sy, fsc, obs) => list_eqb (fun '(a, b, c) '(a', b', c') => (a =? a') && (b =? b') && (c =? c')) "
             "(map (fun f => (f_count f, f_x f, f_y f)) (frag_split sx sy fsc)) obs")
    bad = ctx.coq_check_cases("fragsplit", ["Model.EncoderSeq"], check, cases, shard=400)
    for tup, res in zip([grid[i] for i in (bad or [])], common.pmap(seeded_config, [grid[i] for i in (bad or [])])):
        for kw, verdict, npics in res:
            ctx.count(1, bucket="seeded-by-mismatch")
            if verdict != "accept" or npics != 2:
                ctx.violation("encoder-fragments-rejected:" + verdict, {"slices_x": tup[0], "slices_y": tup[1], "fragment_slice_count": tup[2],
                              "profile": kw["profile"]}, "fragmented stream for this slice grid is not accepted / decodes %d pictures" % npics,
                              observed=verdict, expected="accept")
    if bad or bad_first:
        ctx.obligation("corr:frag_split agrees with make_fragment_parse_data_units", False, "corr-shard",
                       "differs on %r %r" % ([grid[i] for i in (bad or [])][:5], bad_first[:2]))
    ctx.sample({"fragment grid case": grid[len(grid) // 2], "headers": obs[len(grid) // 2]})

    # ---- lossless slice_size_scaler: correspondence of Gen/EncLossless + function-level oracle ----
    rng = ctx.rng
    jobs = []
    for L in list(range(0, 40)) + list(range(240, 270)) + list(range(500, 520)) + list(range(760, 770)) + \
            [rng.randrange(0, 70000) for _ in range(ctx.pick(150, 3000))] + [255 * k + d for k in range(1, 60) for d in (0, 1, 2)]:
        others = [(rng.randrange(0, L + 1), rng.randrange(0, L + 1), rng.randrange(0, L + 1)) for _ in range(rng.choice([0, 1, 2]))]
        mine = [L, rng.randrange(0, L + 1), rng.randrange(0, L + 1)]
        rng.shuffle(mine)
        jobs.append((others + [tuple(mine)], rng.choice([1, 1, 1, 2, 3, 7, 300])))
    outs = common.pmap(lossless_lengths, jobs, chunksize=16)
    cases = []
    for (sizes, minimum), (st, scaler, fields) in zip(jobs, outs):
        ctx.count(1, key=("lossless-lengths", max(max(t) for t in sizes), minimum), bucket="lossless-length-fields")
        if st != "ok":
            ctx.violation("lossless-scaler-raises", {"sizes": sizes, "minimum_slice_size_scaler": minimum}, st)
            continue
        flat = [x for t in sizes for x in t]
        ff = [x for t in fields for x in t]
        if any(not (0 <= f <= 255) for f in ff) or any(f * scaler < b for f, b in zip(ff, flat)) or scaler < minimum:
            ctx.violation("lossless-slice-length-field-overflow", {"sizes": sizes, "minimum_slice_size_scaler": minimum},
                          "make_transform_data_hq_lossless: scaler %r fields %r for component byte sizes %r" % (scaler, fields, sizes),
                          observed=fields, expected="all fields in 0..255 and field*scaler >= bytes")
        cases.append("(%s, %s, %s, %s, %s)" % (cz(minimum), cz(max(flat)), clist(flat), cz(scaler), clist(ff)))
    chk = ("fun '(mn, mx, lens, sc, fs) => (hq_lossless_slice_size_scaler mn mx =? sc) && "
           "zlist_eqb (map (fun l => hq_lossless_rescaled_length l sc) lens) fs")
    bad2 = ctx.coq_check_cases("lossless", ["Base.PyZ", "Gen.EncLossless"], chk, cases, shard=400)
    if bad2:
        ctx.obligation("corr:Gen/EncLossless agrees with make_transform_data_hq_lossless", False, "corr-shard",
                       "differs on %r" % [jobs[i] for i in bad2[:4]])

    # ---- oracle -------------------------------------------------------------------------------
    n = ctx.pick(500, 8000)
    results = common.pmap(one_config, [(ctx.seed, i) for i in range(n)])
    for r in results:
        st = r["status"]
        nontrivial = st in ("ok", "rejected", "bad-output") and r.get("n_pictures", 0) > 0
        ctx.count(1, key=("cfg", r["idx"]) if nontrivial else None, bucket=st.split(":")[0])
        prof = "%s/%s/%s" % (r["config"].get("profile"), "lossless" if r["config"].get("lossless") else "lossy",
                             "frag" if r["config"].get("fragment_slice_count") else "pic")
        ctx.distribution[prof] = ctx.distribution.get(prof, 0) + 1
        if st == "rejected":
            ctx.violation("encoder-output-rejected:" + r["verdict"], {"seed": ctx.seed, "idx": r["idx"], "config": r["config"],
                          "n_pictures": r.get("n_pictures"), "numbers": r.get("numbers")},
                          "validator rejected the encoder's stream: " + r.get("detail", ""), observed=r["verdict"], expected="accept")
        elif st == "bad-output":
            ctx.violation("encoder-output-decodes-wrong", {"seed": ctx.seed, "idx": r["idx"], "config": r["config"],
                          "n_pictures": r.get("n_pictures"), "numbers": r.get("numbers")}, r["detail"])
        elif st.startswith("harness-exception") or st.startswith("encoder-exception"):
            # not a clean acceptance nor an UnsatisfiableCodecFeaturesError: outside the property's
            # hypothesis ("configuration the encoder accepts") but worth recording
            ctx.note("%s on config %d: %s" % (st, r["idx"], r.get("detail", "")[-300:]))
    oks = [r for r in results if r["status"] == "ok"]
    for r in oks[:3]:
        ctx.sample({"config": r["config"], "pictures": r["n_pictures"], "numbers": r["numbers"], "units": r["units"]})
    # ---- bridge (added) ------------------------------------------------------------------------
    run_bridge(ctx)
    ctx.trusted.append("C03 theorems cover the fragment split and (via C19/C07/C01) the unit structure; field validity inside data "
                       "units end to end is covered only by the differential run (encoder -> validator)")


def replay(ctx, data):
    inp = data["input"]
    if "sizes" in inp:
        r = lossless_lengths(([tuple(t) for t in inp["sizes"]], inp["minimum_slice_size_scaler"]))
        print(r)
        st, scaler, fields = r
        flat = [x for t in inp["sizes"] for x in t]
        ff = [x for t in (fields or []) for x in t]
        return 1 if st != "ok" or any(not (0 <= f <= 255) for f in ff) or any(f * scaler < b for f, b in zip(ff, flat)) else 0
    if "slices_x" in inp:
        res = seeded_config((inp["slices_x"], inp["slices_y"], inp["fragment_slice_count"]))
        print(res)
        return 1 if any(v != "accept" or n != 2 for (_, v, n) in res) else 0
    if inp.get("bridge"):
        r = bridge_case((inp["seed"], inp["idx"]))
        print(r["status"], r.get("verdict"), r.get("detail"))
        return 1 if r["status"] == "rejected" else 0
    r = one_config((inp["seed"], inp["idx"]))
    print(r["status"], r.get("verdict"), r.get("detail"))
    return 1 if r["status"] in ("rejected", "bad-output") else 0
