"""C03 harness: the real encoder's output is a conformant stream in the requested format.

Correspondence (tie C): Model/EncoderSeq.frag_split vs the fragment headers produced by the real
make_picture_data_units, for a grid of (slices_x, slices_y, fragment_slice_count).
Oracle: encoder -> autofill+serialise -> validator over a random configuration space
(profiles, lossless/lossy, all wavelet pairs, symmetric/asymmetric depths, slice counts,
fragment sizes, subsampling, field/frame coding, base video formats, custom/default matrices,
signal ranges/bit depths, picture contents and numbering)."""
import random
import traceback

import common
from vlib import cz, clist


def frag_headers(args):
    sx, sy, fsc = args
    from vc2_conformance.encoder import make_picture_data_units
    cf = common.make_codec_features(slices_x=sx, slices_y=sy, fragment_slice_count=fsc, frame_width=8, frame_height=4,
                                    lossless=True, dwt_depth=1)
    rng = random.Random(sx * 1000 + sy * 100 + fsc)
    dus = make_picture_data_units(cf, common.random_picture(cf, rng, "noise", pic_num=7))
    out = []
    for du in dus:
        fh = du["fragment_parse"]["fragment_header"]
        out.append((fh["fragment_slice_count"], fh.get("fragment_x_offset", -1), fh.get("fragment_y_offset", -1),
                    fh.get("picture_number")))
    return out


def one_config(job):
    """Runs one configuration end to end on the implementation. Returns a dict."""
    seed, idx = job
    rng = random.Random((seed << 20) + idx)
    from vc2_conformance import encoder
    from vc2_data_tables import BaseVideoFormats
    kw = common.random_small_config(rng)
    kw["base_video_format"] = rng.choice(list(BaseVideoFormats))
    desc = common.describe_config(kw)
    desc["base_video_format"] = int(kw["base_video_format"])
    res = {"idx": idx, "config": desc, "status": None}
    try:
        cf = common.make_codec_features(**kw)
        fields = kw["fields"]
        n = rng.choice([0, 1, 2, 3, 4])
        if fields and n % 2:
            n += 1
        nums = common.legal_picture_numbers(rng, n, fields)
        pics = [common.random_picture(cf, rng, pic_num=(nums[i] if nums else None)) for i in range(n)]
        res["n_pictures"] = n
        res["numbers"] = nums
        res["kinds"] = "fields" if fields else "frames"
        try:
            seq = encoder.make_sequence(cf, pics)
        except encoder.UnsatisfiableCodecFeaturesError as e:
            res["status"] = "unsatisfiable:" + type(e).__name__
            return res
        except Exception as e:
            res["status"] = "encoder-exception:" + type(e).__name__
            res["detail"] = traceback.format_exc()[-800:]
            return res
        data = common.serialise([seq])
        res["stream_bytes"] = len(data)
        verdict, exc, out, state = common.validate(data)
        res["verdict"] = verdict
        if verdict != "accept":
            res["status"] = "rejected"
            try:
                res["detail"] = exc.explain()[:600] if hasattr(exc, "explain") else repr(exc)
            except Exception:
                res["detail"] = repr(exc)
            res["stream_hex"] = data.hex() if len(data) < 4000 else None
            return res
        problems = []
        if len(out) != n:
            problems.append("decoded %d pictures for %d inputs" % (len(out), n))
        expect = nums if nums else list(range(n))
        for i, (pic, vp, pcm) in enumerate(out[:n]):
            if dict(vp) != dict(cf["video_parameters"]):
                problems.append("picture %d: video parameters differ" % i)
            if pcm != cf["picture_coding_mode"]:
                problems.append("picture %d: picture coding mode differs" % i)
            if pic["pic_num"] != expect[i]:
                problems.append("picture %d: number %r expected %r" % (i, pic["pic_num"], expect[i]))
            if kw["lossless"] and not common.pictures_equal(pic, pics[i]):
                problems.append("picture %d: lossless content differs" % i)
        res["status"] = "ok" if not problems else "bad-output"
        res["detail"] = "; ".join(problems)
        res["units"] = [du["parse_info"]["parse_code"].name for du in seq["data_units"]]
        return res
    except Exception as e:
        res["status"] = "harness-exception:" + type(e).__name__
        res["detail"] = traceback.format_exc()[-800:]
        return res


def seeded_config(args):
    """End-to-end oracle on a specific (slices_x, slices_y, fragment_slice_count): used to turn a
    correspondence mismatch into a concrete failing input of the property, if there is one."""
    sx, sy, fsc = args
    from vc2_conformance import encoder
    out = []
    for profile, lossless in (("hq", True), ("ld", False)):
        kw = dict(slices_x=sx, slices_y=sy, fragment_slice_count=fsc, frame_width=8, frame_height=4, lossless=lossless,
                  profile=profile, dwt_depth=1, picture_bytes=None if lossless else sx * sy * 8)
        cf = common.make_codec_features(**kw)
        rng = random.Random(sx * 1000 + sy * 100 + fsc)
        pics = [common.random_picture(cf, rng, "noise") for _ in range(2)]
        try:
            data = common.serialise([encoder.make_sequence(cf, pics)])
        except Exception as e:
            out.append((kw, "encode-exception:%s" % type(e).__name__, 0))
            continue
        verdict, exc, pictures, _ = common.validate(data)
        out.append((kw, verdict, len(pictures)))
    return out


def lossless_lengths(args):
    """Function-level oracle on the real make_transform_data_hq_lossless with synthetic coefficient
    lists whose coded sizes are exactly the requested byte counts (a coefficient 1 costs 4 bits)."""
    sizes, minimum = args
    from vc2_conformance.encoder import pictures as ep
    import importlib
    ep = importlib.import_module("vc2_conformance.encoder.pictures")
    def comp(nbytes):
        return ep.ComponentCoeffs(coeff_values=[1] * (2 * nbytes), quant_matrix_values=[0] * (2 * nbytes))
    row = [ep.SliceCoeffs(Y=comp(a), C1=comp(b), C2=comp(c)) for (a, b, c) in sizes]
    try:
        scaler, td = ep.make_transform_data_hq_lossless([row], minimum)
    except Exception as e:
        return ("exception:%s" % type(e).__name__, None, None)
    fields = [(s["slice_y_length"], s["slice_c1_length"], s["slice_c2_length"]) for s in td["hq_slices"]]
    return ("ok", scaler, fields)


def run(ctx):
    ctx.extra["rule"] = (
        "correspondence: fragment headers of the real make_picture_data_units vs Model/EncoderSeq.frag_split over a grid of "
        "(slices_x, slices_y, fragment_slice_count); oracle: random small configurations (common.random_small_config + random base "
        "video format, 0-4 pictures, legal explicit or automatic numbering) encoded, serialised, validated; a case is non-trivial "
        "when the encoder accepted the configuration and at least one picture was coded; distinct by configuration digest.")
    # ---- correspondence -----------------------------------------------------------------
    grid = [(sx, sy, fsc) for sx in range(1, ctx.pick(5, 7)) for sy in range(1, ctx.pick(4, 6))
            for fsc in range(1, sx * sy + 3)]
    obs = common.pmap(frag_headers, grid)
    cases, bad_first = [], []
    for (sx, sy, fsc), hs in zip(grid, obs):
        first, rest = hs[0], hs[1:]
        if first[0] != 0 or any(h[3] != 7 for h in hs):
            bad_first.append(((sx, sy, fsc), hs))
        cases.append("(%s, %s, %s, %s)" % (cz(sx), cz(sy), cz(fsc), clist(rest, lambda h: "(%s, %s, %s)" % (cz(h[0]), cz(h[1]), cz(h[2])))))
        ctx.count(1, key=("frag", sx, sy, fsc), bucket="fragment-grid")
    check = ("fun '(sx, sy, fsc, obs) => list_eqb (fun (f : frag) '(c, x, y) => (f_count f =? c) && (f_x f =? x) && (f_y f =? y)) "
             "(frag_split sx sy fsc) obs")
    # list_eqb needs same-typed lists: compare via mapping the model to triples
    check = ("fun '(sx, sy, fsc, obs) => list_eqb (fun '(a, b, c) '(a', b', c') => (a =? a') && (b =? b') && (c =? c')) "
             "(map (fun f => (f_count f, f_x f, f_y f)) (frag_split sx sy fsc)) obs")
    bad = ctx.coq_check_cases("fragsplit", ["Model.EncoderSeq"], check, cases, shard=400)
    for tup, res in zip([grid[i] for i in (bad or [])], common.pmap(seeded_config, [grid[i] for i in (bad or [])])):
        for kw, verdict, npics in res:
            ctx.count(1, bucket="seeded-by-mismatch")
            if verdict != "accept" or npics != 2:
                ctx.violation("encoder-fragments-rejected:" + verdict, {"slices_x": tup[0], "slices_y": tup[1], "fragment_slice_count": tup[2],
                              "profile": kw["profile"]}, "fragmented stream for this slice grid is not accepted / decodes %d pictures" % npics,
                              observed=verdict, expected="accept")
    if bad or bad_first:
        ctx.obligation("corr:frag_split agrees with make_fragment_parse_data_units", False, "corr-shard",
                       "differs on %r %r" % ([grid[i] for i in (bad or [])][:5], bad_first[:2]))
    ctx.sample({"fragment grid case": grid[len(grid) // 2], "headers": obs[len(grid) // 2]})

    # ---- lossless slice_size_scaler: correspondence of Gen/EncLossless + function-level oracle ----
    rng = ctx.rng
    jobs = []
    for L in list(range(0, 40)) + list(range(240, 270)) + list(range(500, 520)) + list(range(760, 770)) + \
            [rng.randrange(0, 70000) for _ in range(ctx.pick(150, 3000))] + [255 * k + d for k in range(1, 60) for d in (0, 1, 2)]:
        others = [(rng.randrange(0, L + 1), rng.randrange(0, L + 1), rng.randrange(0, L + 1)) for _ in range(rng.choice([0, 1, 2]))]
        mine = [L, rng.randrange(0, L + 1), rng.randrange(0, L + 1)]
        rng.shuffle(mine)
        jobs.append((others + [tuple(mine)], rng.choice([1, 1, 1, 2, 3, 7, 300])))
    outs = common.pmap(lossless_lengths, jobs, chunksize=16)
    cases = []
    for (sizes, minimum), (st, scaler, fields) in zip(jobs, outs):
        ctx.count(1, key=("lossless-lengths", max(max(t) for t in sizes), minimum), bucket="lossless-length-fields")
        if st != "ok":
            ctx.violation("lossless-scaler-raises", {"sizes": sizes, "minimum_slice_size_scaler": minimum}, st)
            continue
        flat = [x for t in sizes for x in t]
        ff = [x for t in fields for x in t]
        if any(not (0 <= f <= 255) for f in ff) or any(f * scaler < b for f, b in zip(ff, flat)) or scaler < minimum:
            ctx.violation("lossless-slice-length-field-overflow", {"sizes": sizes, "minimum_slice_size_scaler": minimum},
                          "make_transform_data_hq_lossless: scaler %r fields %r for component byte sizes %r" % (scaler, fields, sizes),
                          observed=fields, expected="all fields in 0..255 and field*scaler >= bytes")
        cases.append("(%s, %s, %s, %s, %s)" % (cz(minimum), cz(max(flat)), clist(flat), cz(scaler), clist(ff)))
    chk = ("fun '(mn, mx, lens, sc, fs) => (hq_lossless_slice_size_scaler mn mx =? sc) && "
           "zlist_eqb (map (fun l => hq_lossless_rescaled_length l sc) lens) fs")
    bad2 = ctx.coq_check_cases("lossless", ["Base.PyZ", "Gen.EncLossless"], chk, cases, shard=400)
    if bad2:
        ctx.obligation("corr:Gen/EncLossless agrees with make_transform_data_hq_lossless", False, "corr-shard",
                       "differs on %r" % [jobs[i] for i in bad2[:4]])

    # ---- oracle -------------------------------------------------------------------------------
    n = ctx.pick(500, 8000)
    results = common.pmap(one_config, [(ctx.seed, i) for i in range(n)])
    for r in results:
        st = r["status"]
        nontrivial = st in ("ok", "rejected", "bad-output") and r.get("n_pictures", 0) > 0
        ctx.count(1, key=("cfg", r["idx"]) if nontrivial else None, bucket=st.split(":")[0])
        prof = "%s/%s/%s" % (r["config"].get("profile"), "lossless" if r["config"].get("lossless") else "lossy",
                             "frag" if r["config"].get("fragment_slice_count") else "pic")
        ctx.distribution[prof] = ctx.distribution.get(prof, 0) + 1
        if st == "rejected":
            ctx.violation("encoder-output-rejected:" + r["verdict"], {"seed": ctx.seed, "idx": r["idx"], "config": r["config"],
                          "n_pictures": r.get("n_pictures"), "numbers": r.get("numbers")},
                          "validator rejected the encoder's stream: " + r.get("detail", ""), observed=r["verdict"], expected="accept")
        elif st == "bad-output":
            ctx.violation("encoder-output-decodes-wrong", {"seed": ctx.seed, "idx": r["idx"], "config": r["config"],
                          "n_pictures": r.get("n_pictures"), "numbers": r.get("numbers")}, r["detail"])
        elif st.startswith("harness-exception") or st.startswith("encoder-exception"):
            # not a clean acceptance nor an UnsatisfiableCodecFeaturesError: outside the property's
            # hypothesis ("configuration the encoder accepts") but worth recording
            ctx.note("%s on config %d: %s" % (st, r["idx"], r.get("detail", "")[-300:]))
    oks = [r for r in results if r["status"] == "ok"]
    for r in oks[:3]:
        ctx.sample({"config": r["config"], "pictures": r["n_pictures"], "numbers": r["numbers"], "units": r["units"]})
    ctx.trusted.append("C03 theorems cover the fragment split and (via C19/C07/C01) the unit structure; field validity inside data "
                       "units end to end is covered only by the differential run (encoder -> validator)")


def replay(ctx, data):
    inp = data["input"]
    if "sizes" in inp:
        r = lossless_lengths(([tuple(t) for t in inp["sizes"]], inp["minimum_slice_size_scaler"]))
        print(r)
        st, scaler, fields = r
        flat = [x for t in inp["sizes"] for x in t]
        ff = [x for t in (fields or []) for x in t]
        return 1 if st != "ok" or any(not (0 <= f <= 255) for f in ff) or any(f * scaler < b for f, b in zip(ff, flat)) else 0
    if "slices_x" in inp:
        res = seeded_config((inp["slices_x"], inp["slices_y"], inp["fragment_slice_count"]))
        print(res)
        return 1 if any(v != "accept" or n != 2 for (_, v, n) in res) else 0
    r = one_config((inp["seed"], inp["idx"]))
    print(r["status"], r.get("verdict"), r.get("detail"))
    return 1 if r["status"] in ("rejected", "bad-output") else 0
