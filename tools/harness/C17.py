"""C17 harness: constraint_table.py (ValueSet / AnyValue / table queries / CSV reader) and
decoder.assertions.assert_level_constraint against Model/ValueSet.v + Model/ConstraintTable.v
(tie C), and the property oracle (set semantics by brute force over a small integer universe)
on the implementation."""
import io
import os
from collections import OrderedDict

from vlib import cz, cbool, clist, copt, REPO

N = 14                      # range end points / values are drawn from 0..N
U = list(range(-3, N + 4))  # the universe every query/brute-force set is taken over


def impl():
    import vc2_conformance.constraint_table as ct
    import vc2_conformance.decoder.assertions as asr
    from vc2_conformance.decoder.exceptions import ValueNotAllowedInLevel
    return ct, asr, ValueNotAllowedInLevel


# ---------------------------------------------------------------- literals -----------
def cpair(p):
    return "(%s, %s)" % (cz(p[0]), cz(p[1]))


def vs_state(ct, vs):
    """(is_any, values, ranges) in the order Python iterates the two sets; bools as ints."""
    if isinstance(vs, ct.AnyValue):
        return None
    return ([int(v) for v in vs._values], [(int(a), int(b)) for (a, b) in vs._ranges])


def c_vset(st):
    if st is None:
        return "Any"
    return "(VS (mkVS %s %s))" % (clist(st[0]), clist(st[1], cpair))


def c_expr(e):
    t = e[0]
    if t == "empty":
        return "EEmpty"
    if t == "any":
        return "EAny"
    if t == "addv":
        return "(EAddV %s %s)" % (c_expr(e[1]), cz(int(e[2])))
    if t == "addr":
        return "(EAddR %s %s %s)" % (c_expr(e[1]), cz(int(e[2])), cz(int(e[3])))
    if t == "ctor":   # ValueSet(*items) = the same adds in order
        s = "EEmpty"
        for it in e[1]:
            s = "(EAddR %s %s %s)" % (s, cz(int(it[0])), cz(int(it[1]))) if isinstance(it, tuple) else "(EAddV %s %s)" % (s, cz(int(it)))
        return s
    if t == "union":
        return "(EUnion %s %s)" % (c_expr(e[1]), c_expr(e[2]))
    raise ValueError(t)


def c_assign(d):
    return clist(list(d.items()), lambda kv: "(%s, %s)" % (cz(kv[0]), cz(int(kv[1]))))


def c_table(ct, T):
    return clist(T, lambda e: clist(list(e.items()), lambda kv: "(%s, %s)" % (cz(kv[0]), c_vset(vs_state(ct, kv[1])))))


# ---------------------------------------------------------------- generators ----------
def gen_value(rng, bools=True):
    if bools and rng.random() < 0.15:
        return rng.choice([True, False])
    return rng.randrange(0, N + 1)


def gen_range(rng, inverted):
    lo = rng.randrange(0, N + 1)
    hi = lo + rng.choice([0, 0, 1, 1, 2, 3, rng.randrange(0, N)])
    hi = min(hi, N)
    if rng.random() < 0.05:
        lo, hi = bool(lo & 1), True       # bool end points
        if lo > hi:
            lo, hi = hi, lo
    if inverted and rng.random() < 0.3 and lo != hi:
        lo, hi = hi, lo
    return lo, hi


def gen_items(rng, n, inverted):
    """values and ranges, biased to chains of overlapping / adjacent ranges and duplicates"""
    items = []
    for _ in range(n):
        r = rng.random()
        if items and r < 0.15:
            items.append(rng.choice(items))                       # duplicate
        elif r < 0.45:
            items.append(gen_value(rng))
        elif r < 0.6 and any(isinstance(i, tuple) for i in items):
            a, b = rng.choice([i for i in items if isinstance(i, tuple)])
            a, b = int(min(a, b)), int(max(a, b))
            k = rng.randrange(4)                                  # overlap / adjacent / bridge
            lo, hi = [(b, b + 2), (b + 1, b + 3), (max(a - 2, 0), a), (max(a - 3, 0), max(a - 1, 0))][k]
            lo = min(lo, N)
            items.append((lo, max(lo, min(hi, N))))
        else:
            items.append(gen_range(rng, inverted))
    return items


def gen_expr(rng, depth, inverted=False, any_p=0.06):
    r = rng.random()
    if depth <= 0 or r < 0.25:
        if rng.random() < any_p:
            return ("any",)
        return ("ctor", gen_items(rng, rng.choice([0, 1, 2, 3, 4, 6, 9]), inverted))
    if r < 0.45:
        return ("union", gen_expr(rng, depth - 1, inverted, any_p), gen_expr(rng, depth - 1, inverted, any_p))
    e = gen_expr(rng, depth - 1, inverted, any_p)
    for it in gen_items(rng, rng.randrange(1, 5), inverted):
        e = ("addr", e, it[0], it[1]) if isinstance(it, tuple) else ("addv", e, it)
    return e


def evaluate(ct, e, steps=None):
    """Run the real code; optionally record (state before, op, state after) of single operations."""
    t = e[0]
    if t == "empty":
        return ct.ValueSet()
    if t == "any":
        return ct.AnyValue()
    if t == "ctor":
        return ct.ValueSet(*e[1])
    if t == "union":
        a, b = evaluate(ct, e[1], steps), evaluate(ct, e[2], steps)
        r = a + b
        if steps is not None:
            steps.append((vs_state(ct, a), "(OpUnion %s)" % c_vset(vs_state(ct, b)), vs_state(ct, r)))
        return r
    a = evaluate(ct, e[1], steps)
    before = vs_state(ct, a)
    if t == "addv":
        a.add_value(e[2])
        op = "(OpAddV %s)" % cz(int(e[2]))
    else:
        a.add_range(e[2], e[3])
        op = "(OpAddR %s %s)" % (cz(int(e[2])), cz(int(e[3])))
    if steps is not None:
        steps.append((before, op, vs_state(ct, a)))
    return a


def denotation(e):
    """What was added, as a subset of U (None = everything): the specification side."""
    t = e[0]
    if t == "empty":
        return set()
    if t == "any":
        return None
    if t == "ctor":
        s = set()
        for it in e[1]:
            s |= set(v for v in U if it[0] <= v <= it[1]) if isinstance(it, tuple) else {int(it)}
        return s
    if t == "union":
        a, b = denotation(e[1]), denotation(e[2])
        return None if a is None or b is None else a | b
    a = denotation(e[1])
    if a is None:
        return None
    return a | ({int(e[2])} if t == "addv" else set(v for v in U if e[2] <= v <= e[3]))


def expr_wf(e):
    t = e[0]
    if t in ("empty", "any"):
        return True
    if t == "ctor":
        return all(it[0] <= it[1] for it in e[1] if isinstance(it, tuple))
    if t == "union":
        return expr_wf(e[1]) and expr_wf(e[2])
    return expr_wf(e[1]) and (t == "addv" or e[2] <= e[3])


def observe(ct, vs):
    st = vs_state(ct, vs)
    cont = [(q in vs) for q in U]
    if st is None:
        itv = None
        try:
            list(vs.iter_values())
            itv = "no-raise"
        except AttributeError:
            pass
    else:
        itv = sorted(int(v) for v in vs.iter_values())
        it = list(vs)
        # __iter__ = the values then the ranges (checked here, the model's st_iter is the same listing)
        assert [int(x) for x in it if not isinstance(x, tuple)] == st[0] and [(int(a), int(b)) for (a, b) in [x for x in it if isinstance(x, tuple)]] == st[1]
    return st, cont, itv


def c_obs(o):
    st, cont, itv = o
    return "(%s, %s, %s)" % (c_vset(st), clist(cont, cbool), "None" if itv is None else "(Some %s)" % clist([] if itv == "no-raise" else itv))


# ---------------------------------------------------------------- part A: value sets -----
def part_valuesets(ctx, ct, jobs):
    rng = ctx.rng
    n = ctx.pick(700, 10000)
    cases, exprs, steps = [], [], []
    corpus = load_corpus("expr")
    for i in range(n):
        if i < len(corpus):
            e = corpus[i]
        else:
            inverted = (i % 8 == 7)            # the malformed stream: inverted ranges
            e = gen_expr(rng, rng.choice([0, 1, 2, 3]), inverted)
        st = [] if i % 3 == 0 else None
        vs = evaluate(ct, e, st)
        if st:
            steps.extend(st[:12])
        o = observe(ct, vs)
        wf = expr_wf(e)
        cases.append("(%s, %s, %s, %s)" % (c_expr(e), clist(U), cbool(wf), c_obs(o)))
        exprs.append(e)
        nr = 0 if o[0] is None else len(o[0][1])
        ctx.count(1, key=("vs", repr(e)) if (o[0] is not None and (nr or o[0][0])) else None,
                  bucket="valueset:any" if o[0] is None else ("valueset:inverted-range" if not wf else "valueset:%d-ranges" % min(nr, 4)))
        # ---- oracle: containment = union of what was added (inverted ranges denote nothing)
        den = denotation(e)
        for q, c in zip(U, o[1]):
            exp = True if den is None else (q in den)
            if c != exp:
                ctx.violation("ValueSet.__contains__:not-union-of-added", {"kind": "expr", "expr": e, "query": q},
                              "%d in set = %r, but the listed values/ranges say %r" % (q, c, exp), observed=c, expected=exp)
                break
        if (1 in vs) != (True in vs) or (0 in vs) != (False in vs):
            ctx.violation("ValueSet.__contains__:bool-int", {"kind": "expr", "expr": e, "query": 1}, "True/1 or False/0 disagree")
        if o[0] is not None and den is not None and sorted(set(o[2])) != sorted(den):     # as a SET (multiplicity is not the property's business)
            ctx.violation("ValueSet.iter_values:not-the-members", {"kind": "expr", "expr": e, "query": None},
                          "iter_values() lists %r, members are %r" % (o[2], sorted(den)))
    ctx.sample({"valueset_expr": exprs[len(corpus)] if len(exprs) > len(corpus) else exprs[0]})
    def bad_expr(i):
        ctx.obligation("corr:ValueSet state/contains/iter_values agree with model", False, "corr-shard", "expr = %r" % (exprs[i],))
        save_corpus("expr", exprs[i])
    jobs.append(("vs_expr", "check_expr", cases, 150, bad_expr))
    scases = ["(%s, %s, %s)" % (c_vset(a), op, c_vset(r)) for (a, op, r) in steps]
    ctx.count(len(scases), bucket="valueset:single-step-from-actual-state")
    jobs.append(("vs_step", "check_step", scases, 150, lambda i: ctx.obligation(
        "corr:single add/union step from the actual state agrees with model", False, "corr-shard", scases[i])))

    # ---- is_disjoint on pairs
    m = ctx.pick(500, 8000)
    dcases, dmeta = [], []
    inverted_wrong = 0
    for i in range(m):
        inverted = (i % 10 == 9)
        a = gen_expr(rng, rng.choice([0, 1, 2]), inverted, any_p=0.1)
        b = gen_expr(rng, rng.choice([0, 1, 2]), inverted, any_p=0.1)
        if rng.random() < 0.1:
            b = ("ctor", [])
        va, vb = evaluate(ct, a), evaluate(ct, b)
        ab, ba = va.is_disjoint(vb), vb.is_disjoint(va)
        wf = expr_wf(a) and expr_wf(b)
        dcases.append("(%s, %s, %s, %s, %s, %s, %s)" % (c_expr(a), c_expr(b), c_vset(vs_state(ct, va)), c_vset(vs_state(ct, vb)), cbool(wf), cbool(ab), cbool(ba)))
        dmeta.append((a, b))
        da, db = denotation(a), denotation(b)
        sa, sb = (set(U) if da is None else da), (set(U) if db is None else db)
        exp = not (sa & sb)
        ctx.count(1, key=("dj", repr(a), repr(b)) if (sa and sb) else None,
                  bucket="is_disjoint:" + ("inverted-range" if not wf else ("disjoint" if exp else "overlapping")))
        if wf:
            if ab != exp or ba != exp:
                ctx.violation("ValueSet.is_disjoint:wrong-answer", {"kind": "disjoint", "a": a, "b": b},
                              "is_disjoint = %r/%r but common members = %r" % (ab, ba, sorted(sa & sb)), observed=[ab, ba], expected=exp)
        elif ab != exp or ba != exp:
            inverted_wrong += 1     # outside the property ("inclusive ranges" have lo <= hi): recorded only
    if inverted_wrong:
        ctx.note("is_disjoint answered wrongly on %d generated pairs involving an inverted range (lo > hi); such ranges are outside "
                 "the property, the model reproduces the behaviour (theorem C17_disjoint_inverted_refuted)" % inverted_wrong)
    jobs.append(("vs_disjoint", "check_disjoint", dcases, 120, lambda i: ctx.obligation(
        "corr:is_disjoint agrees with model", False, "corr-shard", "a, b = %r" % (dmeta[i],))))


# ---------------------------------------------------------------- aliasing ---------------
# ValueSet is MUTABLE (add_value / add_range work in place; encoder/pictures.py does
# allowed_values_for(...).add_value(False)).  "After any sequence of additions and unions" therefore
# includes additions made to the RESULT of a union / allowed_values_for / a CSV read: they must not
# change the operands, the table or another cell.  The Coq model is functional (operands are values),
# so the model's value of every operand after such additions is simply its value before.
MARKS = [N + 1, N + 2, N + 3]      # inside U, never generated as a member: adding one always changes a plain set


def gen_adds(rng):
    return [rng.choice(MARKS)] + gen_items(rng, rng.choice([0, 0, 1, 2]), False)


def apply_adds(vs, adds):
    for it in adds:
        if isinstance(it, (tuple, list)):
            vs.add_range(it[0], it[1])
        else:
            vs.add_value(it)


def wrap_adds(e, adds):
    for it in adds:
        e = ("addr", e, it[0], it[1]) if isinstance(it, (tuple, list)) else ("addv", e, it)
    return e


def members_ok(ct, vs, den):
    return all((q in vs) == (True if den is None else q in den) for q in U)


def run_alias_chain(ct, ops, adds_list):
    """acc = ops[0] + ops[1]; additions to acc in place; acc = acc + ops[2]; additions; ...
    After every step EVERY object seen so far (operands, earlier results) is re-observed.
    Returns (tracked [(label, expression, object)], problems [text])."""
    objs = [evaluate(ct, e) for e in ops]
    tracked = [("operand %d" % j, ops[j], objs[j]) for j in range(len(ops))]
    problems = []
    acc, acc_e = objs[0], ops[0]
    for j in range(1, len(ops)):
        r = acc + objs[j]
        if not isinstance(acc, ct.AnyValue) and not isinstance(objs[j], ct.AnyValue) and (r is acc or r is objs[j]):
            problems.append("union %d returned the %s operand object itself" % (j, "left" if r is acc else "right"))
        apply_adds(r, adds_list[j - 1])
        e = wrap_adds(("union", acc_e, ops[j]), adds_list[j - 1])
        tracked.append(("result %d" % j, e, r))
        acc, acc_e = r, e
        for lab, te, to in tracked:
            if not members_ok(ct, to, denotation(te)):
                problems.append("after adding %r to the result of union %d, %s = %s no longer holds what was added to IT" % (adds_list[j - 1], j, lab, to))
    return tracked, problems


def part_aliasing(ctx, ct, jobs):
    rng = ctx.rng
    n = ctx.pick(160, 3000)
    cases, meta = [], []
    fixed = [[("ctor", []), ("ctor", [3])], [("ctor", [3]), ("ctor", [])], [("ctor", []), ("ctor", [])],
             [("ctor", []), ("ctor", [(2, 5)]), ("ctor", [7])], [("ctor", []), ("any",)], [("any",), ("ctor", [])],
             [("ctor", []), ("ctor", []), ("ctor", [1, (4, 6)])]]
    for i in range(n):
        if i < len(fixed):
            ops = fixed[i]
        else:
            ops = []
            for _ in range(rng.choice([2, 2, 3, 4])):
                r = rng.random()
                ops.append(("ctor", []) if r < 0.3 else (("any",) if r < 0.38 else gen_expr(rng, rng.choice([0, 0, 1]), False)))
        adds_list = [gen_adds(rng) for _ in ops[1:]]
        tracked, problems = run_alias_chain(ct, ops, adds_list)
        nempty = sum(1 for e in ops if e == ("ctor", []))
        ctx.count(1, key=("alias", repr(ops), repr(adds_list)), bucket="alias:union-chain:%s" % ("with-empty-operand" if nempty else "no-empty-operand"))
        if problems:
            ctx.violation("ValueSet.__add__:result-shares-state-with-operand", {"kind": "alias", "ops": ops, "adds": adds_list},
                          problems[0], observed=problems[:4], expected="operands unchanged by additions to the result")
        # model side: the (functional) model's value of every tracked expression against its FINAL observation
        for lab, te, to in tracked:
            cases.append("(%s, %s, %s, %s)" % (c_expr(te), clist(U), cbool(True), c_obs(observe(ct, to))))
            meta.append((ops, adds_list, lab))
    ctx.sample({"alias_chain": {"ops": fixed[3], "adds": [[N + 1], [N + 2]]}})
    jobs.append(("vs_alias", "check_expr", cases, 250, lambda i: ctx.obligation(
        "corr:operands/results after in-place additions to union results agree with the (functional) model", False, "corr-shard", repr(meta[i]))))


# ---------------------------------------------------------------- part B: tables ---------
NKEYS = 5


def gen_cell(rng):
    """(real ValueSet-building expr)"""
    r = rng.random()
    if r < 0.15:
        return ("any",)
    return ("ctor", gen_items(rng, rng.choice([0, 1, 1, 2, 3, 4]), False))


def gen_table(rng, catch_all_p):
    T = []
    for _ in range(rng.choice([0, 1, 2, 3, 3, 4, 5, 6])):
        if rng.random() < catch_all_p:
            T.append(OrderedDict())
            continue
        keys = [k for k in range(NKEYS) if rng.random() < 0.75] or [rng.randrange(NKEYS)]
        rng.shuffle(keys)
        T.append(OrderedDict((k, gen_cell(rng)) for k in keys))
    return T


def gen_assignment(rng, T, keys=None):
    """partial assignment; mostly values some column allows, so that filters are non-trivial"""
    d = OrderedDict()
    col = rng.choice(T) if T else {}
    if keys is None:
        keys = [k for k in range(NKEYS) if rng.random() < 0.4]
    elif keys == "column":        # mostly the keys the chosen column has (so that sequences are often accepted)
        keys = [k for k in range(NKEYS) if rng.random() < (0.75 if k in col else 0.08)]
    rng.shuffle(keys)
    for k in keys:
        den = denotation(col[k]) if k in col else set()
        if den and rng.random() < 0.92:
            d[k] = rng.choice(sorted(den))
        elif den is None and rng.random() < 0.92:
            d[k] = rng.randrange(0, N + 1)
        else:
            d[k] = gen_value(rng)
        if d[k] in (0, 1) and rng.random() < 0.2:
            d[k] = bool(d[k])
    return d


def spec_matches(col_den, vals):
    """column allows vals: every key present, value a member (brute-force sets)"""
    return all(k in col_den and (col_den[k] is None or int(v) in col_den[k]) for k, v in vals.items())


def run_level_check(ct, asr, VNA, T, kvs):
    saved = asr.LEVEL_CONSTRAINTS
    asr.LEVEL_CONSTRAINTS = T
    state = {}
    n = 0
    try:
        for k, v in kvs:
            asr.assert_level_constraint(state, k, v)
            n += 1
        return list(state.get("_level_constrained_values", {}).items()), n
    except VNA:
        return None, n
    finally:
        asr.LEVEL_CONSTRAINTS = saved


def table_alias_run(ct, T, Tden, vals, k, k2, adds, adds2, lit):
    """Mutate, in place, what allowed_values_for / filter_constraint_table returned; returns a description of
    the damage to the table (None = table unchanged)."""
    cells = [v for col in T for v in col.values()]
    before = (ct.is_allowed_combination(T, vals), [[q in ct.allowed_values_for(T, kk, vals) for q in U] for kk in range(NKEYS)])
    why = None
    for kk, vv, ad in ((k, vals, adds), (k2, {}, adds2)):
        r = ct.allowed_values_for(T, kk, vv)
        if not isinstance(r, ct.AnyValue) and any(r is c for c in cells):
            why = why or "allowed_values_for(table, %r, %r) returned the table's own cell object" % (kk, dict(vv))
        apply_adds(r, ad)
    f = ct.filter_constraint_table(T, vals)
    f.append(OrderedDict())
    for j, (col, cd) in enumerate(zip(T, Tden)):
        for kk, v in col.items():
            if not members_ok(ct, v, cd[kk]):
                why = why or "after add_value/add_range on the returned sets, table column %d key %r became %s" % (j, kk, v)
    if len(T) != len(Tden) or c_table(ct, T) != lit:
        why = why or "the table changed after in-place additions to returned results"
    after = (ct.is_allowed_combination(T, vals), [[q in ct.allowed_values_for(T, kk, vals) for q in U] for kk in range(NKEYS)])
    if after != before:
        why = why or "is_allowed_combination / allowed_values_for answers changed after in-place additions to an earlier result"
    return why


def part_tables(ctx, ct, asr, VNA, jobs):
    rng = ctx.rng
    n = ctx.pick(500, 8000)
    tcases, lcases, tmeta, lmeta = [], [], [], []
    repeated_stricter = 0
    corpus = load_corpus("table")
    for i in range(n):
        if i < len(corpus):
            Te, vals, k, kvs = corpus[i]
            Te = [OrderedDict((int(a), tuple_expr(b)) for a, b in col) for col in Te]
            vals = OrderedDict((int(a), b) for a, b in vals)
            kvs = [tuple(x) for x in kvs]
        else:
            Te = gen_table(rng, 0.25 if i % 5 == 4 else 0.0)
            vals = gen_assignment(rng, Te)
            k = rng.randrange(NKEYS)
            kvs = None
        T = [OrderedDict((kk, evaluate(ct, ce)) for kk, ce in col.items()) for col in Te]
        Tden = [dict((kk, denotation(ce)) for kk, ce in col.items()) for col in Te]
        catch_all = any(len(col) == 0 for col in T)
        av = evaluate(ct, ("ctor", gen_items(rng, 2, False)))
        # ---- results handed out earlier are modified IN PLACE (as encoder/pictures.py does): the table must not change.
        # The literal given to Coq is taken BEFORE, every observation below AFTER these modifications.
        lit = c_table(ct, T)
        cells = [v for col in T for v in col.values()]
        k2 = rng.randrange(NKEYS)
        adds, adds2 = gen_adds(rng), gen_adds(rng)
        ainp = {"kind": "table-alias", "table": [list(c.items()) for c in Te], "values": list(vals.items()), "key": k, "key2": k2, "adds": adds, "adds2": adds2}
        why = table_alias_run(ct, T, Tden, vals, k, k2, adds, adds2, lit)
        if why:
            ctx.violation("allowed_values_for:result-shares-state-with-table", ainp, why, expected="table unchanged by additions to a returned ValueSet")
        # ---- observations
        flt = ct.filter_constraint_table(T, vals)
        idx = [j for j, col in enumerate(T) if any(col is f for f in flt)]
        allowed = ct.is_allowed_combination(T, vals)
        avf = ct.allowed_values_for(T, k, vals)
        avf2 = ct.allowed_values_for(T, k, vals, av)
        tcases.append("(%s, %s, %s, %s, %s, %s, %s, %s)" % (
            lit, c_assign(vals), cz(k), c_vset(vs_state(ct, av)), clist(idx), cbool(allowed),
            c_vset(vs_state(ct, avf)), c_vset(vs_state(ct, avf2))))
        tmeta.append((Te, vals, k))
        ctx.count(1, key=("tbl", repr(Te), repr(vals), k) if (0 < len(idx) < len(T)) else None,
                  bucket="table:" + ("catch-all" if catch_all else "plain") + (":allowed" if allowed else ":not-allowed"))
        if why:
            continue     # the table was damaged (reported above, visible to Coq in this case): the remaining oracles need an intact table
        inp = {"kind": "table", "table": [list(c.items()) for c in Te], "values": list(vals.items()), "key": k}
        # ---- oracle 1: filter = the columns whose sets hold all the values (or the empty column)
        exp_idx = [j for j, cd in enumerate(Tden) if spec_matches(cd, vals) or len(cd) == 0]
        if len(flt) != len(idx) or idx != exp_idx:
            ctx.violation("filter_constraint_table:wrong-columns", inp, "kept columns %r, set semantics says %r" % (idx, exp_idx), observed=idx, expected=exp_idx)
        if allowed != (len(exp_idx) > 0):
            ctx.violation("is_allowed_combination:wrong-answer", inp, "is_allowed_combination = %r" % allowed, observed=allowed, expected=len(exp_idx) > 0)
        # ---- oracle 2: allowed_iff (tables without catch-all column, key not yet chosen)
        if not catch_all and k not in vals:
            for v in U:
                vv = dict(vals)
                vv[k] = v
                a, b = (v in avf), ct.is_allowed_combination(T, vv)
                if a != b:
                    ctx.violation("allowed_values_for:differs-from-is_allowed_combination", dict(inp, value=v),
                                  "%d in allowed_values_for = %r but adding it gives is_allowed_combination = %r" % (v, a, b), observed=a, expected=b)
                    break
        # ---- the validator's one-at-a-time check
        if kvs is None:
            seq = gen_assignment(rng, Te, "column" if rng.random() < 0.8 else [kk for kk in range(NKEYS) if rng.random() < 0.7])
            kvs = list(seq.items())
            if i % 3 == 2 and kvs:          # repeated keys, as on a second sequence header / picture
                extra = gen_assignment(rng, Te, [kk for kk, _ in kvs if rng.random() < 0.6])
                kvs = kvs + [(kk, (v if rng.random() < 0.5 else extra[kk])) for kk, v in kvs if kk in extra]
        final, ncalls = run_level_check(ct, asr, VNA, T, kvs)
        lcases.append("(%s, %s, %s, %s)" % (
            c_table(ct, T), clist(kvs, lambda kv: "(%s, %s)" % (cz(kv[0]), cz(int(kv[1])))),
            "None" if final is None else "(Some %s)" % clist(final, lambda kv: "(%s, %s)" % (cz(kv[0]), cz(int(kv[1])))), cz(ncalls)))
        lmeta.append((Te, kvs))
        distinct = len(set(kk for kk, _ in kvs)) == len(kvs)
        ctx.count(1, key=("lvl", repr(Te), repr(kvs)) if kvs else None,
                  bucket="level-check:" + ("distinct-keys" if distinct else "repeated-keys") + (":accept" if final is not None else ":reject"))
        linp = {"kind": "level", "table": [list(c.items()) for c in Te], "kvs": kvs}
        prefixes_ok = all(ct.is_allowed_combination(T, OrderedDict(kvs[:j])) for j in range(1, len(kvs) + 1))
        if not catch_all and distinct:
            # ---- oracle 3: incremental_iff
            if (final is not None) != prefixes_ok:
                ctx.violation("assert_level_constraint:incremental-differs-from-prefix-check", linp,
                              "one-at-a-time accepted = %r, every prefix allowed = %r" % (final is not None, prefixes_ok),
                              observed=final is not None, expected=prefixes_ok)
            whole = (not kvs) or ct.is_allowed_combination(T, OrderedDict(kvs))
            if (final is not None) != whole:
                ctx.violation("assert_level_constraint:incremental-differs-from-whole-dict-check", linp,
                              "one-at-a-time accepted = %r, whole dictionary allowed = %r" % (final is not None, whole))
            if final is not None and final != [(kk, v) for kk, v in kvs]:
                ctx.violation("assert_level_constraint:recorded-values-wrong", linp, "recorded %r" % (final,))
        elif not catch_all:
            # repeated keys: one column must allow the old and the new dictionary (model theorem
            # C17_level_step_iff); strictly stronger than "every prefix dictionary is allowed"
            cv, ok = OrderedDict(), True
            for kk, v in kvs:
                new = OrderedDict(cv)
                new[kk] = v
                if not any(spec_matches(cd, cv) and spec_matches(cd, new) for cd in Tden):
                    ok = False
                    break
                cv = new
            if ok != (final is not None):
                ctx.violation("assert_level_constraint:repeated-key-rule", linp, "accepted = %r, one-column rule says %r" % (final is not None, ok))
            if prefixes_ok and final is None:
                repeated_stricter += 1
    if repeated_stricter:
        ctx.note("%d generated sequences with a REPEATED key were rejected by the one-at-a-time check although every prefix dictionary is an allowed "
                 "combination (the old and the new value must be allowed by one and the same column: theorem C17_level_step_iff, witness "
                 "C17_incremental_repeated_key_refuted); the property speaks of sequences of distinct keys, so this is recorded, not alarmed on" % repeated_stricter)
    ctx.sample({"table": [list(c.items()) for c in tmeta[-1][0]], "values": list(tmeta[-1][1].items()), "key": tmeta[-1][2]})
    def bad_table(i):
        ctx.obligation("corr:filter/is_allowed/allowed_values_for agree with model", False, "corr-shard", repr(tmeta[i]))
        save_corpus("table", [[list(c.items()) for c in tmeta[i][0]], list(tmeta[i][1].items()), tmeta[i][2], []])

    def bad_level(i):
        ctx.obligation("corr:assert_level_constraint sequence agrees with model", False, "corr-shard", repr(lmeta[i]))
        save_corpus("table", [[list(c.items()) for c in lmeta[i][0]], [], 0, lmeta[i][1]])
    jobs.append(("tables", "check_table", tcases, 100, bad_table))
    jobs.append(("level", "check_level", lcases, 100, bad_level))


def tuple_expr(b):
    """JSON round trip turns tuples into lists: restore ('ctor', [v | (lo, hi)]) / ('any',)"""
    if b[0] == "any":
        return ("any",)
    return ("ctor", [tuple(x) if isinstance(x, list) else x for x in b[1]])


def fix_expr(e):
    if e[0] in ("empty", "any"):
        return (e[0],)
    if e[0] == "ctor":
        return tuple_expr(e)
    if e[0] == "union":
        return ("union", fix_expr(e[1]), fix_expr(e[2]))
    return tuple([e[0], fix_expr(e[1])] + list(e[2:]))


# ---------------------------------------------------------------- part C: CSV -------------
DITTOS = ['"', '"', '"', ' " ', "“", "”", "''", "`"]


def gen_rows(rng):
    ncols = rng.choice([1, 2, 3, 4, 5, 6])
    nkeys = rng.choice([1, 2, 3, 4, 5])
    rows = []
    for r in range(rng.choice([1, 2, 3, 4, 5, 6, 7])):
        k = rng.randrange(nkeys)           # a key may come twice: the later row overwrites
        width = ncols if rng.random() < 0.7 else rng.randrange(0, ncols + 1)
        cells = []
        for c in range(width):
            x = rng.random()
            if x < 0.25:
                cells.append(("ditto",))
            elif x < 0.4:
                cells.append(("any",))
            else:
                items = []
                for it in gen_items(rng, rng.choice([0, 1, 1, 2, 3]), False):
                    if isinstance(it, tuple):
                        items.append(("range", int(it[0]), int(it[1])))
                    elif isinstance(it, bool):
                        items.append(("bool", it))
                    else:
                        items.append(("val", it))
                cells.append(("items", items))
        rows.append((k, cells))
    return rows


def print_csv(rng, rows):
    """abstract rows -> CSV text, with the lexical freedom the reader documents"""
    def sp():
        return rng.choice(["", "", "", " "])

    def item(it):
        if it[0] == "val":
            return sp() + str(it[1]) + sp()
        if it[0] == "bool":
            return sp() + rng.choice([["FALSE", "false", "False"], ["TRUE", "true", "True"]][it[1]]) + sp()
        return sp() + str(it[1]) + sp() + "-" + sp() + str(it[2]) + sp()

    def field(s):
        if any(ch in s for ch in ',"\n') or rng.random() < 0.1:
            return '"' + s.replace('"', '""') + '"'
        return s
    out = []
    for k, cells in rows:
        r = rng.random()
        if r < 0.15:
            out.append(rng.choice(["", ",,,", "# a comment,# another,", " , ,", "#only"]))
        fields = ["k%d" % k]
        for c in cells:
            if c[0] == "ditto":
                fields.append(rng.choice(DITTOS))
            elif c[0] == "any":
                fields.append(sp() + rng.choice(["any", "ANY", "Any"]) + sp())
            else:
                fields.append(",".join(item(it) for it in c[1]))    # an empty cell must be EMPTY: int(" ") raises
        out.append(",".join(field(f) for f in fields))
    return "\r\n".join(out) + rng.choice(["", "\n"])


def c_rows(rows):
    def c_item(it):
        if it[0] == "val":
            return "IVal %s" % cz(it[1])
        if it[0] == "bool":
            return "IBool %s" % cbool(it[1])
        return "IRange %s %s" % (cz(it[1]), cz(it[2]))

    def c_cell(c):
        return "Ditto" if c[0] == "ditto" else ("CAny" if c[0] == "any" else "(Items %s)" % clist(c[1], c_item))
    return clist(rows, lambda r: "(%s, %s)" % (cz(r[0]), clist(r[1], c_cell)))


def item_den(it):
    if it[0] == "val":
        return {it[1]}
    if it[0] == "bool":
        return {int(it[1])}
    return set(range(it[1], it[2] + 1))


def spec_csv(rows):
    """Specification side: per column {key: None (any) | set}, dittos resolved leftwards,
    a later row for the same key overwrites, a short row leaves later columns untouched."""
    ncols = max([len(c) for _, c in rows] or [0])
    cols = [OrderedDict() for _ in range(ncols)]
    for k, cells in rows:
        last = set()
        for i, c in enumerate(cells):
            if c[0] == "ditto":
                cur = last
            elif c[0] == "any":
                cur = None
            else:
                cur = set()
                for it in c[1]:
                    cur |= item_den(it)
            cols[i][k] = cur
            last = cur
    return cols


def parse_real_csv(path):
    """Independent tokeniser for the shipped level CSVs -> abstract rows + key names."""
    import csv
    from vc2_data_tables.csv_readers import QUOTE_CHARS
    names, rows = [], []
    with io.open(path, encoding="utf-8") as f:
        for rec in csv.reader(f):
            if all((not c.strip()) or c.strip().startswith("#") for c in rec):
                continue
            if rec[0] not in names:
                names.append(rec[0])
            cells = []
            for c in rec[1:]:
                stripped = c
                for q in QUOTE_CHARS:
                    stripped = stripped.replace(q, "")
                if stripped != c and not stripped.strip():
                    cells.append(("ditto",))
                elif c.strip().lower() == "any":
                    cells.append(("any",))
                else:
                    items = []
                    for tok in c.split(","):
                        tok = tok.strip()
                        if not tok:
                            continue
                        if tok.lower() in ("true", "false"):
                            items.append(("bool", tok.lower() == "true"))
                        elif "-" in tok:
                            a, b = tok.split("-")
                            items.append(("range", int(a), int(b)))
                        else:
                            items.append(("val", int(tok)))
                    cells.append(("items", items))
            rows.append((names.index(rec[0]), cells))
    return names, rows


def check_csv_case(ctx, ct, rows, names, table, inp, universe):
    """oracle: what the real reader returned against the cells written in the file"""
    spec = spec_csv(rows)
    if len(table) != len(spec):
        ctx.violation("read_constraints_from_csv:column-count", inp, "%d columns read, %d written" % (len(table), len(spec)))
        return
    for i, (col, scol) in enumerate(zip(table, spec)):
        if list(col.keys()) != [names[k] for k in scol.keys()]:
            ctx.violation("read_constraints_from_csv:keys", inp, "column %d has keys %r, file says %r" % (i, list(col.keys()), [names[k] for k in scol]))
            return
        for k, den in scol.items():
            vs = col[names[k]]
            if (den is None) != isinstance(vs, ct.AnyValue):
                ctx.violation("read_constraints_from_csv:any-cell", inp, "column %d key %s: 'any' written = %r, AnyValue read = %r" % (i, names[k], den is None, isinstance(vs, ct.AnyValue)))
                return
            if den is not None:
                got = set(v for v in universe if v in vs)
                if got != set(v for v in universe if v in den) or set(vs.iter_values()) != den:
                    ctx.violation("read_constraints_from_csv:cell-contents", inp, "column %d key %s: read %s, file says %r" % (i, names[k], vs, sorted(den)))
                    return


def csv_alias_run(ct, obs, ci, kk, adds, pre):
    """add to cell (column ci, key kk) in place; (damage description | None, table literal afterwards with that one cell as read)"""
    why = None
    plain = [v for col in obs for v in col.values() if not isinstance(v, ct.AnyValue)]
    if len(set(id(v) for v in plain)) != len(plain):
        why = "two cells of the table read are the same ValueSet object"
    snap = vs_state(ct, obs[ci][kk])
    apply_adds(obs[ci][kk], adds)
    # the modified cell itself is put back as read (by position), all others are observed after the modification
    post = clist(list(enumerate(obs)), lambda ie: clist(list(ie[1].items()), lambda kv: "(%s, %s)" % (
        cz(kv[0]), c_vset(snap if (ie[0] == ci and kv[0] == kk) else vs_state(ct, kv[1])))))
    if post != pre:
        why = why or "after adding %r to column %d key %r, another cell of the table changed too" % (adds, ci, kk)
    return why, post


def part_csv(ctx, ct, jobs):
    rng = ctx.rng
    n = ctx.pick(250, 4000)
    cases, meta = [], []
    path = os.path.join(ctx.workdir, "table.csv")
    corpus = load_corpus("csv")
    for i in range(n):
        if i < len(corpus):
            rows = [(r[0], [tuple([c[0]] + ([[tuple(it) for it in c[1]]] if c[0] == "items" else [])) for c in r[1]]) for r in corpus[i]]
        else:
            rows = gen_rows(rng)
        text = print_csv(rng, rows)
        with io.open(path, "w", encoding="utf-8", newline="") as f:
            f.write(text)
        table = ct.read_constraints_from_csv(path)
        names = ["k%d" % k for k in range(8)]
        obs = [OrderedDict((int(kk[1:]), v) for kk, v in col.items()) for col in table]
        cases.append("(%s, %s)" % (c_rows(rows), c_table(ct, obs)))
        meta.append(rows)
        ndit = sum(1 for _, cs in rows for c in cs if c[0] == "ditto")
        ctx.count(1, key=("csv", repr(rows)) if any(cs for _, cs in rows) else None,
                  bucket="csv:random:" + ("with-ditto" if ndit else "no-ditto"))
        check_csv_case(ctx, ct, rows, names, table, {"kind": "csv", "text": text, "rows": rows}, U)
        # ---- a cell is modified in place: every OTHER cell (in particular the one a ditto copied) must stay as read
        pre = c_table(ct, obs)
        where = [(ci, kk) for ci, col in enumerate(obs) for kk in col]
        if where:
            ci, kk = rng.choice(where)
            adds = gen_adds(rng)
            why, post = csv_alias_run(ct, obs, ci, kk, adds, pre)
            if why:
                ctx.violation("read_constraints_from_csv:cells-share-state", {"kind": "csv-alias", "text": text, "cell": [ci, kk], "adds": adds}, why,
                              expected="other cells unchanged by additions to one cell")
                cases.append("(%s, %s)" % (c_rows(rows), post))      # model side: the other cells after the modification
                meta.append(rows)
            ctx.count(1, bucket="alias:csv-cell")
    ctx.sample({"csv_text": text})
    # the level tables shipped with the code (and the test suite's alternative one)
    for rel in ("vc2_conformance/level_constraints.csv", "tests/alternative_level_constraints.csv", "tests/sample_constraint_table.csv"):
        p = os.path.join(REPO, rel)
        if not os.path.exists(p):
            ctx.note("shipped CSV %s not found" % rel)
            continue
        names, rows = parse_real_csv(p)
        table = ct.read_constraints_from_csv(p)
        obs = [OrderedDict((names.index(kk), v) for kk, v in col.items()) for col in table]
        cases.append("(%s, %s)" % (c_rows(rows), c_table(ct, obs)))
        meta.append(rel)
        ctx.count(1, key=("csv", rel), bucket="csv:shipped")
        big = sorted(set(x for _, cs in rows for c in cs if c[0] == "items" for it in c[1] if it[0] != "bool" for y in it[1:] for x in (y - 1, y, y + 1)) | set(U))
        # ranges in the shipped tables can be huge: membership only (no enumeration) -> restrict dens to `big`
        check_csv_real(ctx, ct, rows, names, table, rel, big)
    def bad_csv(i):
        ctx.obligation("corr:read_constraints_from_csv agrees with model", False, "corr-shard", repr(meta[i])[:2000])
        if not isinstance(meta[i], str):
            save_corpus("csv", meta[i])
    jobs.append(("csv", "check_csv", cases, 60, bad_csv))


def check_csv_real(ctx, ct, rows, names, table, rel, universe):
    inp = {"kind": "csvfile", "file": rel}
    ncols = max([len(c) for _, c in rows] or [0])
    if len(table) != ncols:
        ctx.violation("read_constraints_from_csv:column-count", inp, "%d columns read, %d written" % (len(table), ncols))
        return
    cur = [OrderedDict() for _ in range(ncols)]
    for k, cells in rows:
        last = ("set", [])
        for i, c in enumerate(cells):
            if c[0] == "ditto":
                v = last
            elif c[0] == "any":
                v = ("any",)
            else:
                v = ("set", c[1])
            cur[i][k] = v
            last = v
    for i, col in enumerate(cur):
        if list(table[i].keys()) != [names[k] for k in col]:
            ctx.violation("read_constraints_from_csv:keys", inp, "column %d keys differ" % i)
            return
        for k, v in col.items():
            vs = table[i][names[k]]
            if (v[0] == "any") != isinstance(vs, ct.AnyValue):
                ctx.violation("read_constraints_from_csv:any-cell", inp, "column %d key %s" % (i, names[k]))
                return
            if v[0] == "set":
                for q in universe:
                    exp = any((it[0] == "val" and q == it[1]) or (it[0] == "bool" and q == int(it[1])) or (it[0] == "range" and it[1] <= q <= it[2]) for it in v[1])
                    if (q in vs) != exp:
                        ctx.violation("read_constraints_from_csv:cell-contents", inp, "column %d key %s value %d: read %r, file says %r" % (i, names[k], q, q in vs, exp))
                        return


# ---------------------------------------------------------------- corpus ------------------
def corpus_path(kind):
    from vlib import VERIF
    return os.path.join(VERIF, "corpus", "C17", kind + ".jsonl")


def load_corpus(kind):
    import json
    p = corpus_path(kind)
    if not os.path.exists(p):
        return []
    out = []
    for line in open(p):
        line = line.strip()
        if line:
            x = json.loads(line)
            out.append(fix_expr(x) if kind == "expr" else x)
    return out


def save_corpus(kind, obj):
    import json
    p = corpus_path(kind)
    os.makedirs(os.path.dirname(p), exist_ok=True)
    line = json.dumps(obj)
    if os.path.exists(p) and line in open(p).read().split("\n"):
        return
    if os.path.exists(p) and sum(1 for _ in open(p)) >= 40:
        return
    with open(p, "a") as f:
        f.write(line + "\n")


# ---------------------------------------------------------------- exhaustive small box -----
def part_exhaustive(ctx, ct):
    """Oracle only (implementation): EVERY ValueSet(*items) with up to 4 (thorough: 5) items over values 0..4 / ranges
    0 <= lo <= hi <= 4: containment = union of the items; every PAIR of the <=2-item sets: is_disjoint both ways."""
    import itertools
    top = 4
    items = list(range(top + 1)) + [(lo, hi) for lo in range(top + 1) for hi in range(lo, top + 1)]
    uni = list(range(-1, top + 2))

    def den(seq):
        d = set()
        for it in seq:
            d |= set(range(it[0], it[1] + 1)) if isinstance(it, tuple) else {it}
        return d
    small = []
    for n in range(0, ctx.pick(4, 5) + 1):
        for seq in itertools.product(items, repeat=n):
            vs = ct.ValueSet(*seq)
            d = den(seq)
            got = set(q for q in uni if q in vs)
            ctx.count(1, bucket="exhaustive:ctor-len-%d" % n)
            if got != d or set(vs.iter_values()) != d:
                ctx.violation("ValueSet.__contains__:not-union-of-added", {"kind": "expr", "expr": ("ctor", list(seq)), "query": None},
                              "members %r, listed %r" % (sorted(got), sorted(d)), observed=sorted(got), expected=sorted(d))
                return
            if n <= 2:
                small.append((seq, vs, d))
    small.append(((), ct.AnyValue(), set(uni)))
    nbad = 0
    for (sa, va, da) in small:
        for (sb, vb, db) in small:
            exp = not (da & db)
            if va.is_disjoint(vb) != exp:
                nbad += 1
                if nbad <= 3:
                    ea = ("any",) if isinstance(va, ct.AnyValue) else ("ctor", list(sa))
                    eb = ("any",) if isinstance(vb, ct.AnyValue) else ("ctor", list(sb))
                    ctx.violation("ValueSet.is_disjoint:wrong-answer", {"kind": "disjoint", "a": ea, "b": eb},
                                  "is_disjoint = %r but common members = %r" % (not exp, sorted(da & db)), observed=not exp, expected=exp)
    ctx.count(len(small) ** 2, bucket="exhaustive:is_disjoint-pairs")
    ctx.exhaustive = True


# ---------------------------------------------------------------- recorded witnesses ------
def part_witnesses(ctx, ct, asr, VNA):
    """The `_refuted` / `needs_` witnesses of Props/C17.v, run on the real code: the model's
    account of behaviour OUTSIDE the property must be what the code does (else: mismatch)."""
    VS, AV = ct.ValueSet, ct.AnyValue
    a, b = VS((5, 3)), VS(5)
    got = (any(q in a for q in U), a.is_disjoint(b), b.is_disjoint(a), a.is_disjoint(AV()))
    ctx.obligation("corr:witness C17_disjoint_inverted_refuted on the real code", got == (False, False, False, False), "corr-shard", repr(got))
    ctx.note("inverted range (outside the property): ValueSet((5, 3)) holds no value, but is_disjoint(ValueSet(5)) = %r, is_disjoint(AnyValue()) = %r "
             "(end points are inspected); containment/union semantics are unaffected by inverted ranges (C17_vs_sem needs no lo <= hi), "
             "the internal _ranges set then depends on set iteration order" % (got[1], got[3]))
    T = [{0: VS(1), 1: VS(5)}, {0: VS(2), 1: VS(5)}]
    kvs = [(0, 1), (1, 5), (0, 2)]
    final, n = run_level_check(ct, asr, VNA, T, kvs)
    pre = [ct.is_allowed_combination(T, OrderedDict(kvs[:j])) for j in range(1, 4)]
    ctx.obligation("corr:witness C17_incremental_repeated_key_refuted on the real code", final is None and n == 2 and all(pre), "corr-shard", repr((final, n, pre)))
    T2 = [{}, {0: VS(1)}]
    got2 = (5 in ct.allowed_values_for(T2, 0, {}), ct.is_allowed_combination(T2, {0: 5}))
    ctx.obligation("corr:witness C17_allowed_iff_needs_no_catch_all on the real code", got2 == (False, True), "corr-shard", repr(got2))
    T3 = [{0: VS(1)}, {0: VS(2)}]
    got3 = (2 in ct.allowed_values_for(T3, 0, {0: 1}), ct.is_allowed_combination(T3, {0: 2}))
    ctx.obligation("corr:witness C17_allowed_iff_needs_fresh_key on the real code", got3 == (False, True), "corr-shard", repr(got3))
    ctx.count(4, bucket="witness")


# ---------------------------------------------------------------- entry points ------------
CASE_TYPES = {   # explicit types: a shard must type-check whatever the observations are (e.g. only `Some []`)
    "check_expr": "vexpr * list Z * bool * obs_vset",
    "check_step": "vset * step_op * vset",
    "check_disjoint": "vexpr * vexpr * vset * vset * bool * bool * bool",
    "check_table": "table * assignment * key * vset * list Z * bool * vset * vset",
    "check_level": "table * list (key * Z) * option assignment * Z",
    "check_csv": "list row * table",
}


def cap_violations(ctx, per_key=3):
    """report at most `per_key` failing inputs per failure class"""
    orig, seen = ctx.violation, {}

    def violation(key, inp, desc, observed=None, expected=None):
        seen[key] = seen.get(key, 0) + 1
        if seen[key] <= per_key:
            orig(key, inp, desc, observed=observed, expected=expected)
    ctx.violation = violation


def run(ctx):
    ct, asr, VNA = impl()
    cap_violations(ctx)
    ctx.extra["rule"] = (
        "A: random operation trees (ValueSet(*items), add_value, add_range, +, AnyValue) over values 0..%d with chains of overlapping/adjacent "
        "ranges, duplicates, bools, every 8th tree with inverted ranges; observed: internal sets, `q in s` for q in %d..%d, iter_values, "
        "single steps from the actual state, is_disjoint both ways. B: random tables (<=6 columns, 5 keys, AnyValue cells, every 5th with "
        "empty 'catch-all' columns), partial assignments, filter/is_allowed/allowed_values_for(+any_value), assert_level_constraint on "
        "sequences with distinct and repeated keys. C: random abstract CSV tables printed to text (ditto marks, any, ranges, bools, blank/"
        "comment rows, short rows, repeated keys) + the CSVs shipped in the repository. Oracle: brute-force sets over the universe. "
        "Aliasing: chains of unions (empty left/right operands, AnyValue) whose results get in-place additions, then every operand and earlier result "
        "re-observed; in-place additions to allowed_values_for results / filter lists, then table and answers re-observed (table literal for Coq taken before, "
        "observations after); in-place additions to one CSV cell, other cells re-observed; identity: a plain union is never an operand object. "
        "Exhaustive (implementation only): every ValueSet(*items) with <= 4 items (thorough 5) over 0..4, containment; every pair of the <= 2-item sets and AnyValue, is_disjoint. "
        "Non-trivial: a set with members / a filter keeping some but not all columns / a non-empty sequence / a CSV with cells." % (N, U[0], U[-1]))
    jobs = []
    part_valuesets(ctx, ct, jobs)
    part_aliasing(ctx, ct, jobs)
    part_tables(ctx, ct, asr, VNA, jobs)
    part_witnesses(ctx, ct, asr, VNA)
    part_exhaustive(ctx, ct)
    part_csv(ctx, ct, jobs)
    # all correspondence shards of all parts are evaluated by Coq concurrently
    import concurrent.futures
    imports = ["Model.ValueSet", "Model.ConstraintTable", "Corr.C17"]
    with concurrent.futures.ThreadPoolExecutor(max_workers=len(jobs)) as ex:
        futs = [(j, ex.submit(ctx.coq_check_cases, j[0], imports, j[1], j[2], CASE_TYPES[j[1]], j[3])) for j in jobs]
        for j, f in futs:
            for i in (f.result() or [])[:5]:
                j[4](i)
    ctx.trusted.append("C17: values are Python ints/bools (bool modelled as its integer: True == 1 and hash(True) == hash(1)); keys are compared by equality only "
                       "(the harness numbers key strings); Python set iteration order is arbitrary and the theorems hold for every order")
    ctx.trusted.append("C17: CSV text tokenisation (csv.reader, strip/lower, int(), partition('-'), is_ditto, blank/'#' row skipping) is outside the model; "
                       "covered by printing random abstract tables to text and by the shipped CSV files")


def replay(ctx, data):
    ct, asr, VNA = impl()
    inp = data["input"]
    print("replaying", data.get("key"), inp.get("kind"))
    kind = inp.get("kind")
    bad = False
    if kind == "expr":
        e = fix_expr(inp["expr"])
        vs = evaluate(ct, e)
        den = denotation(e)
        print("set:", vs)
        for q in U:
            exp = True if den is None else q in den
            if (q in vs) != exp:
                print("%d in set = %r, listed values/ranges say %r" % (q, q in vs, exp))
                bad = True
        if not isinstance(vs, ct.AnyValue) and den is not None and sorted(set(int(v) for v in vs.iter_values())) != sorted(den):
            print("iter_values differs")
            bad = True
    elif kind == "disjoint":
        a, b = fix_expr(inp["a"]), fix_expr(inp["b"])
        va, vb = evaluate(ct, a), evaluate(ct, b)
        da, db = denotation(a), denotation(b)
        sa, sb = (set(U) if da is None else da), (set(U) if db is None else db)
        print(va, vb, "is_disjoint:", va.is_disjoint(vb), vb.is_disjoint(va), "common members:", sorted(sa & sb))
        bad = expr_wf(a) and expr_wf(b) and (va.is_disjoint(vb) != (not (sa & sb)) or vb.is_disjoint(va) != (not (sa & sb)))
    elif kind in ("table", "level"):
        Te = [OrderedDict((int(a), tuple_expr(b)) for a, b in col) for col in inp["table"]]
        T = [OrderedDict((kk, evaluate(ct, ce)) for kk, ce in col.items()) for col in Te]
        Tden = [dict((kk, denotation(ce)) for kk, ce in col.items()) for col in Te]
        print("table:", T)
        if kind == "table":
            vals = OrderedDict((int(a), b) for a, b in inp["values"])
            k = inp["key"]
            flt = ct.filter_constraint_table(T, vals)
            idx = [j for j, col in enumerate(T) if any(col is f for f in flt)]
            exp_idx = [j for j, cd in enumerate(Tden) if spec_matches(cd, vals) or len(cd) == 0]
            print("values", dict(vals), "kept columns", idx, "expected", exp_idx)
            bad = idx != exp_idx
            if all(len(c) for c in T) and k not in vals:
                avf = ct.allowed_values_for(T, k, vals)
                for v in U:
                    vv = dict(vals)
                    vv[k] = v
                    if (v in avf) != ct.is_allowed_combination(T, vv):
                        print("value", v, "in allowed_values_for:", v in avf, "is_allowed_combination:", ct.is_allowed_combination(T, vv))
                        bad = True
        else:
            kvs = [tuple(x) for x in inp["kvs"]]
            final, n = run_level_check(ct, asr, VNA, T, kvs)
            pre = [ct.is_allowed_combination(T, OrderedDict(kvs[:j])) for j in range(1, len(kvs) + 1)]
            print("sequence", kvs, "accepted:", final is not None, "after", n, "calls; prefixes allowed:", pre)
            if len(set(k for k, _ in kvs)) == len(kvs) and all(len(c) for c in T):
                bad = (final is not None) != all(pre)
    elif kind == "csv":
        rows = [(r[0], [tuple([c[0]] + ([[tuple(it) for it in c[1]]] if c[0] == "items" else [])) for c in r[1]]) for r in inp["rows"]]
        path = os.path.join(ctx.workdir, "replay.csv")
        with io.open(path, "w", encoding="utf-8", newline="") as f:
            f.write(inp["text"])
        table = ct.read_constraints_from_csv(path)
        print(inp["text"])
        print("read:", table)
        before = len(ctx.violations)
        check_csv_case(ctx, ct, rows, ["k%d" % k for k in range(8)], table, inp, U)
        bad = len(ctx.violations) > before
    elif kind == "alias":
        ops = [fix_expr(e) for e in inp["ops"]]
        adds = [[tuple(x) if isinstance(x, list) else x for x in ad] for ad in inp["adds"]]
        tracked, problems = run_alias_chain(ct, ops, adds)
        for lab, te, to in tracked:
            print(lab, "=", to, "| added to it:", sorted(denotation(te)) if denotation(te) is not None else "everything")
        for pr in problems:
            print("PROBLEM:", pr)
        bad = bool(problems)
    elif kind == "table-alias":
        Te = [OrderedDict((int(a), tuple_expr(b)) for a, b in col) for col in inp["table"]]
        T = [OrderedDict((kk, evaluate(ct, ce)) for kk, ce in col.items()) for col in Te]
        Tden = [dict((kk, denotation(ce)) for kk, ce in col.items()) for col in Te]
        vals = OrderedDict((int(a), b) for a, b in inp["values"])
        fixa = lambda ad: [tuple(x) if isinstance(x, list) else x for x in ad]
        print("table before:", T)
        why = table_alias_run(ct, T, Tden, vals, inp["key"], inp["key2"], fixa(inp["adds"]), fixa(inp["adds2"]), c_table(ct, T))
        print("table after in-place additions to the sets returned by allowed_values_for:", T)
        print("PROBLEM:" if why else "table unchanged", why or "")
        bad = bool(why)
    elif kind == "csv-alias":
        path = os.path.join(ctx.workdir, "replay.csv")
        with io.open(path, "w", encoding="utf-8", newline="") as f:
            f.write(inp["text"])
        table = ct.read_constraints_from_csv(path)
        obs = [OrderedDict((int(kk[1:]), v) for kk, v in col.items()) for col in table]
        print(inp["text"])
        print("read:", table)
        ci, kk = inp["cell"]
        why, _ = csv_alias_run(ct, obs, ci, kk, [tuple(x) if isinstance(x, list) else x for x in inp["adds"]], c_table(ct, obs))
        print("after adding", inp["adds"], "to column", ci, "key", kk, ":", table)
        print("PROBLEM:" if why else "other cells unchanged", why or "")
        bad = bool(why)
    elif kind == "csvfile":
        p = os.path.join(REPO, inp["file"])
        names, rows = parse_real_csv(p)
        before = len(ctx.violations)
        check_csv_real(ctx, ct, rows, names, ct.read_constraints_from_csv(p), inp["file"], U)
        bad = len(ctx.violations) > before
    print("property violated on this input:", bad)
    return 1 if bad else 0
