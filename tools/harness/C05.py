"""C05 harness: decoder test cases are conformant and decode to their intended pictures.

Oracle on the implementation: for random small configurations, run EVERY registered decoder test
case generator (natural pictures replaced by the test suite's small ones), serialise each test
case with automatic field filling, validate, and compare decoded pictures with the intended ones."""
import os
import random
import traceback

import common

MID_GRAY_CASES = {"absent_next_parse_offset", "concatenated_sequences", "padding_data", "picture_numbers",
                  "slice_padding_data", "slice_prefix_bytes", "slice_size_scaler", "static_gray"}
SPRITE_CASES = {"source_parameters_encodings": 1, "repeated_sequence_headers": 2, "extended_transform_parameters": 1}
PICTURE_NUMBERS = {
    "start_at_zero": [0, 1, 2, 3, 4, 5, 6, 7],
    "non_zero_start": [1000, 1001, 1002, 1003, 1004, 1005, 1006, 1007],
    "wrap_around": [4294967292, 4294967293, 4294967294, 4294967295, 0, 1, 2, 3],
    "odd_first_picture": [7, 8, 9, 10, 11, 12, 13, 14],
}


def small_real_pictures():
    from vc2_conformance_data import NATURAL_PICTURES_FILENAMES
    d = os.path.join(os.environ.get("VERIF_REPO", "/repo"), "tests", "test_images")
    paths = [os.path.join(d, f) for f in ("square.raw", "wide.raw", "tall.raw")]
    del NATURAL_PICTURES_FILENAMES[:]
    NATURAL_PICTURES_FILENAMES.extend(paths)


def decode(stream):
    import io
    from vc2_conformance import bitstream as bs
    f = io.BytesIO()
    bs.autofill_and_serialise_stream(f, stream)
    data = f.getvalue()
    verdict, exc, out, state = common.validate(data)
    return data, verdict, exc, out


SLOW_GENERATORS = {"real_pictures", "signal_range", "static_ramps", "static_noise", "lossless_quantization",
                   "interlace_mode_and_pixel_aspect_ratio", "source_parameters_encodings", "custom_quantization_matrix"}


LARGE_SLICE_GENERATORS = {"lossless_quantization", "custom_quantization_matrix", "slice_size_scaler", "slice_padding_data",
                          "dangling_bounded_block_data", "static_gray", "slice_prefix_bytes"}


def one_config(job):
    seed, idx = job[0], job[1]
    focus = len(job) > 2 and job[2]     # focused sweep: only the cheap, slice/stream-structure generators
    large = focus == "large"            # large-slice sweep: few slices of many coefficients (length fields, scalers)
    rng = random.Random((seed << 20) + idx + 77 + (5000000 if focus else 0) + (3000000 if focus == "large" else 0))
    res = {"idx": idx, "focus": (job[2] if len(job) > 2 else False), "problems": [], "cases": 0, "names": [], "notes": [], "by_case": {}}
    import time
    t0 = time.time()
    try:
        small_real_pictures()
        from vc2_conformance import encoder, picture_generators
        from vc2_conformance.bitstream import Stream
        from vc2_conformance.test_cases import DECODER_TEST_CASE_GENERATOR_REGISTRY as REG
        import vc2_conformance.test_cases.decoder  # noqa: registers generators
        from vc2_conformance.picture_generators import mid_gray, static_sprite, repeat_pictures
        kw = common.random_small_config(rng, max_w=16, max_h=8)
        if large:
            kw["frame_width"], kw["frame_height"] = rng.choice([(32, 16), (32, 32), (48, 16), (64, 32), (40, 24)])
            if kw["fields"] or kw["interlaced"]:
                kw["frame_height"] = (kw["frame_height"] // 4) * 4
            kw["slices_x"], kw["slices_y"] = rng.choice([(1, 1), (1, 1), (2, 1), (1, 2), (2, 2)])
            kw["fragment_slice_count"] = 0 if rng.random() < 0.7 else rng.randint(1, kw["slices_x"] * kw["slices_y"])
            kw["dwt_depth"], kw["dwt_depth_ho"] = rng.choice([(1, 0), (2, 0), (1, 1), (0, 0)])
            kw["quantization_matrix"] = None
            if not common.has_default_quant_matrix(kw["wavelet_index"], kw["wavelet_index_ho"], kw["dwt_depth"], kw["dwt_depth_ho"]) \
                    or rng.random() < 0.2:
                kw["quantization_matrix"] = common.flat_quant_matrix(kw["dwt_depth"], kw["dwt_depth_ho"], rng, 3)
            if not kw["lossless"]:
                n = kw["slices_x"] * kw["slices_y"]
                kw["picture_bytes"] = n * rng.choice([300, 600, 1100, 2000]) + rng.randrange(0, n)
        elif idx % 3 == 0 or focus:
            # every third configuration: a multi-row, multi-column slice grid (slice-indexed generators)
            kw["slices_x"], kw["slices_y"] = rng.choice([(2, 2), (3, 2), (2, 3), (4, 3), (3, 3)])
            if kw["fragment_slice_count"]:
                kw["fragment_slice_count"] = rng.randint(1, kw["slices_x"] * kw["slices_y"])
            if not kw["lossless"]:
                n = kw["slices_x"] * kw["slices_y"]
                kw["picture_bytes"] = n * rng.randint(8, 64) + rng.randrange(0, n)
        if not kw["lossless"] and rng.random() < 0.6:
            # most test cases want a comfortable byte budget
            n = kw["slices_x"] * kw["slices_y"]
            # not always a multiple of the slice count: low-delay slices then differ in size
            kw["picture_bytes"] = n * rng.randint(8, 64) + (rng.randrange(0, n) if rng.random() < 0.7 else 0)
        if rng.random() < 0.06:
            # custom quantisation matrix entries around the width of the qindex fields (7 / 8 bits)
            qm = common.flat_quant_matrix(kw["dwt_depth"], kw["dwt_depth_ho"], rng, 3)
            lv = rng.choice(sorted(qm))
            o = rng.choice(sorted(qm[lv]))
            qm[lv][o] = rng.choice([120, 121, 127, 128, 247, 248, 249, 250, 255, 256, 300])
            kw["quantization_matrix"] = qm
        if not kw["lossless"] and not large and rng.random() < 0.12:
            # the bottom of the allowed range: slices of 1..4 bytes (low delay: 0..3-bit length fields; high quality:
            # barely room for the length bytes), evenly and unevenly divided
            n = kw["slices_x"] * kw["slices_y"]
            if kw["profile"] == "ld":
                kw["picture_bytes"] = n * rng.choice([1, 1, 2, 3, 4]) + rng.choice([0, 0, rng.randrange(0, n)])
            else:
                kw["picture_bytes"] = 4 * n + rng.choice([0, 1, n - 1, n, 2 * n + 1])
        cf = common.make_codec_features(**kw)
        res["config"] = common.describe_config(kw)
        vp, pcm = cf["video_parameters"], cf["picture_coding_mode"]
        gray = {c: 1 << (d - 1) for c, (w, h, d) in common.dims(cf).items()}
        # the encoder must accept the configuration at all (hypothesis: valid configuration)
        try:
            encoder.make_sequence(cf, list(mid_gray(vp, pcm)))
        except encoder.UnsatisfiableCodecFeaturesError as e:
            res["status"] = "invalid-config:" + type(e).__name__
            return res
        plain_cache = {}

        def plain_sprite(repeats):
            if repeats not in plain_cache:
                seq = encoder.make_sequence(cf, repeat_pictures(static_sprite(vp, pcm), repeats))
                plain_cache[repeats] = decode(Stream(sequences=[seq]))[3]
            return plain_cache[repeats]

        names = []
        for gen in REG.iter_independent_generators(cf):
            if large and gen.args[0].__name__ not in LARGE_SLICE_GENERATORS:
                continue
            if focus and not large and gen.args[0].__name__ in SLOW_GENERATORS:
                continue
            try:
                cases = list(gen())
            except encoder.UnsatisfiableCodecFeaturesError as e:
                res["notes"].append("generator raised %s" % type(e).__name__)
                continue
            except Exception as e:
                from vc2_conformance.bitstream import exceptions as bsx
                from vc2_conformance import decoder as _dec
                if isinstance(e, (bsx.OutOfRangeError, _dec.ConformanceError)) or type(e).__module__.endswith("bitstream.exceptions"):
                    # the generator built a test case that it could not itself serialise / validate
                    res["problems"].append({"case": gen.args[0].__name__, "key": "generator-cannot-serialise-its-test-case",
                                            "detail": "%s: %s" % (type(e).__name__, str(e)[:200])})
                    continue
                # a generator that fails otherwise produces no test case: outside the property's statement, recorded
                res["notes"].append("generator exception %s: %s @ %s" % (type(e).__name__, str(e)[:80],
                                    traceback.format_exc().strip().split("\n")[-3].strip()[:120]))
                continue
            for tc in cases:
                res["cases"] += 1
                names.append(tc.name)
                res["by_case"][tc.case_name] = res["by_case"].get(tc.case_name, 0) + 1
                where = {"case": tc.name}
                try:
                    data, verdict, exc, out = decode(tc.value)
                except Exception as e:
                    res["problems"].append(dict(where, key="test-case-does-not-serialise", detail="%s: %s" % (type(e).__name__, e)))
                    continue
                if verdict != "accept":
                    try:
                        expl = exc.explain()[:300]
                    except Exception:
                        expl = repr(exc)
                    res["problems"].append(dict(where, key="test-case-rejected", detail=verdict + " " + expl))
                    continue
                for (pic, dvp, dpcm) in out:
                    if dict(dvp) != dict(vp) or dpcm != pcm:
                        res["problems"].append(dict(where, key="test-case-wrong-video-parameters", detail="decoded parameters differ"))
                        break
                cn = tc.case_name
                if cn in MID_GRAY_CASES:
                    if not out:
                        res["problems"].append(dict(where, key="test-case-no-pictures", detail="no pictures decoded"))
                    for (pic, _, _) in out:
                        if any(any(v != gray[c] for row in pic[c] for v in row) for c in ("Y", "C1", "C2")):
                            res["problems"].append(dict(where, key="mid-gray-test-case-not-mid-gray", detail="decoded picture is not exact mid-grey"))
                            break
                if cn in SPRITE_CASES:
                    ref = plain_sprite(SPRITE_CASES[cn])
                    if len(ref) != len(out) or any(not common.pictures_equal(a[0], b[0]) or a[0]["pic_num"] != b[0]["pic_num"]
                                                   for a, b in zip(ref, out)):
                        res["problems"].append(dict(where, key="encoding-variant-changes-pictures",
                                                    detail="decoded pictures differ from the plain encoding of the same source"))
                if cn == "picture_numbers":
                    want = PICTURE_NUMBERS.get(tc.subcase_name)
                    got = [p[0]["pic_num"] for p in out]
                    if want is None or got != want:
                        res["problems"].append(dict(where, key="picture-numbers-not-as-documented", detail="%r vs %r" % (got, want)))
                if cn == "concatenated_sequences":
                    per = 2 if kw["fields"] else 1
                    if [p[0]["pic_num"] for p in out] != list(range(per)) * 2:
                        res["problems"].append(dict(where, key="concatenated-sequences-wrong-pictures",
                                                    detail="%r" % [p[0]["pic_num"] for p in out]))
        if len(set(names)) != len(names):
            dup = sorted(set(n for n in names if names.count(n) > 1))
            res["problems"].append({"case": dup[0], "key": "test-case-names-not-unique", "detail": repr(dup[:5])})
        res["names"] = names[:5]
        res["status"] = "ok" if not res["problems"] else "problems"
        res["secs"] = round(time.time() - t0, 1)
        return res
    except Exception as e:
        res["status"] = "harness-exception:" + type(e).__name__
        res["detail"] = traceback.format_exc()[-1500:]
        return res


def run(ctx):
    ctx.extra["rule"] = (
        "oracle: random small configurations (common.random_small_config), every registered decoder test case generator (plus a focused "
        "sweep of 5x more configurations with multi-row/column slice grids and uneven low-delay slice sizes over the cheap generators), "
        "each test case serialised with autofill and validated; mid-grey cases compared with exact mid-grey, encoding-variant "
        "cases with the decode of the plain encoding of the same source, picture-number cases with the documented numbers; "
        "evaluations = test cases; distinct non-trivial = (configuration, test case name) pairs that validated and decoded >= 1 picture")
    n = ctx.pick(14, 160)
    nf = ctx.pick(70, 1200)
    nl = ctx.pick(14, 200)
    results = common.pmap(one_config, [(ctx.seed, i) for i in range(n)] + [(ctx.seed, i, True) for i in range(nf)]
                          + [(ctx.seed, i, "large") for i in range(nl)], chunksize=1)
    for r in results:
        st = r.get("status", "?")
        ctx.distribution[st.split(":")[0]] = ctx.distribution.get(st.split(":")[0], 0) + 1
        for k, v in r.get("by_case", {}).items():
            ctx.distribution["case:" + k] = ctx.distribution.get("case:" + k, 0) + v
        ctx.evaluations += r["cases"]
        bad_cases = set(p["case"] for p in r["problems"])
        for nme in range(r["cases"] - len(bad_cases)):
            ctx.nontrivial.add("%s%d/%d" % (str(r.get("focus") or ""), r["idx"], nme))
        if st.startswith("harness-exception"):
            ctx.obligation("harness:C05 config %d" % r["idx"], False, "harness", r.get("detail", ""))
        for p in r["problems"]:
            ctx.violation(p["key"] + ":" + p["case"].split("[")[0], {"seed": ctx.seed, "idx": r["idx"], "focus": r.get("focus"), "config": r.get("config"), "case": p["case"]},
                          p["detail"])
        for nt in r["notes"]:
            ctx.note("config %d: %s" % (r["idx"], nt))
    for r in results[:3]:
        ctx.sample({"config": r.get("config"), "test_cases": r["cases"], "first_names": r["names"], "status": r.get("status")})
    ctx.extra["seconds_per_config"] = [r.get("secs") for r in results]


def replay(ctx, data):
    inp = data["input"]
    r = one_config((inp["seed"], inp["idx"], inp.get("focus") or False))
    hits = [p for p in r["problems"] if p["case"] == inp.get("case")] or r["problems"]
    print(r.get("status"), hits[:3])
    return 1 if hits else 0
