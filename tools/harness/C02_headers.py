"""C02 stage 2 -- inside a data unit, over actual bits: Model/Headers.v against the REAL decoder functions.

Called from tools/harness/C02.py (run_headers / replay_headers).  For every case the real function
  kind 0  vc2_conformance.decoder.sequence_header.sequence_header
  kind 1  byte_align; picture_syntax.picture_header; byte_align; picture_syntax.transform_parameters; byte_align
          (= picture_parse up to the start of transform_data)
  kind 2  fragment_syntax.fragment_header (+ transform_parameters and initialize_fragment_state for a first fragment)
          (= fragment_parse up to the slices)
  kind 3  stream.parse_info
is run on a State prepared by the harness with init_io on a BytesIO, and the model is evaluated by coqc
(vm_compute) on the same bits, the same initial state entries, the dumped live vc2_data_tables objects and C17's
model of the level-constraint lookup on the dumped live LEVEL_CONSTRAINTS.  Compared: Ok -> every integer entry
of `state` (presence and value), the twenty video parameters, _level_constrained_values (order included), the
quantisation matrix, the bit position; otherwise the ConformanceError CLASS / end of stream.
Any non-ConformanceError exception of the real code from a context that satisfies the theorem's precondition
is a violation of C02."""
from __future__ import print_function

import copy
import importlib
import io
import os
import re

import vlib
from vlib import cz, cbool, clist, copt

IMPORTS = ["Model.ValueSet", "Model.ConstraintTable", "Model.Headers", "Corr.C02"]

KIND_NAMES = {0: "sequence_header", 1: "picture_parse_header", 2: "fragment_parse_header", 3: "parse_info"}


class TooBig(BaseException):
    """declared transform depth / size above the modest bounds: the case is out of scope"""


_M = {}


def mods():
    if _M:
        return _M
    # NB: importlib.import_module: the packages re-export same-named FUNCTIONS
    _M["dsh"] = importlib.import_module("vc2_conformance.decoder.sequence_header")
    _M["dps"] = importlib.import_module("vc2_conformance.decoder.picture_syntax")
    _M["dfs"] = importlib.import_module("vc2_conformance.decoder.fragment_syntax")
    _M["dst"] = importlib.import_module("vc2_conformance.decoder.stream")
    _M["dio"] = importlib.import_module("vc2_conformance.decoder.io")
    _M["das"] = importlib.import_module("vc2_conformance.decoder.assertions")
    _M["dex"] = importlib.import_module("vc2_conformance.decoder.exceptions")
    _M["lc"] = importlib.import_module("vc2_conformance.level_constraints")
    _M["ct"] = importlib.import_module("vc2_conformance.constraint_table")
    _M["state"] = importlib.import_module("vc2_conformance.pseudocode.state")
    _M["sre"] = importlib.import_module("vc2_conformance.symbol_re")
    _M["tables"] = importlib.import_module("vc2_data_tables")
    return _M


# ------------------------------------------------------------------------------------------------
# key numbering: read from the model file, so that the two sides cannot drift apart
# ------------------------------------------------------------------------------------------------
def model_keys():
    text = open(os.path.join(vlib.COQ, "Model", "Headers.v")).read()
    out = {"S": {}, "V": {}, "K": {}, "O": {}}
    for m in re.finditer(r"Definition\s+([SVKO])_(\w+)\s*:=\s*(\d+)\.", text):
        out[m.group(1)][m.group(2)] = int(m.group(3))
    return out


UNDERSCORED = {"expected_major_version", "level_sequence_matcher", "last_picture_number", "num_pictures_in_sequence",
               "fragment_slices_remaining", "picture_initial_fragment_offset", "last_parse_info_offset",
               "generic_sequence_matcher"}


def pykey(name):
    return "_" + name if name in UNDERSCORED else name


def canon(v):
    """a state entry as the integer the model stores"""
    if isinstance(v, tuple):          # tell() = (byte, bit)
        return v[0] * 8 + (7 - v[1])
    if isinstance(v, (bool, int)):
        return int(v)
    return 1                          # a Matcher object: presence only


def state_ints(state, K):
    n = max(K["S"].values()) + 1
    out = [-1] * n
    for name, i in K["S"].items():
        k = pykey(name)
        if k in state:
            out[i] = canon(state[k])
    return out


def state_init_list(state, K):
    return [(i, v) for i, v in enumerate(state_ints(state, K)) if v != -1]


ORIENT = None


def qm_flat(qm, K):
    o = K["O"]
    out = []
    for level in sorted(qm):
        for orient in sorted(qm[level], key=lambda x: o[x]):
            out.append(((int(level), o[orient]), int(qm[level][orient])))
    return out


def lcv_list(state, K):
    d = state.get("_level_constrained_values")
    if d is None:
        return None
    return [(K["K"][k], int(v)) for k, v in d.items()]


# ------------------------------------------------------------------------------------------------
# Coq literals
# ------------------------------------------------------------------------------------------------
def cpair(p):
    return "(%s, %s)" % (cz(p[0]), cz(p[1]))


def coq_tables():
    t = mods()["tables"]
    lc = mods()["lc"]
    Matcher = mods()["sre"].Matcher
    en = lambda e: clist([int(x) for x in e])
    base = []
    for k, b in t.BASE_VIDEO_FORMAT_PARAMETERS.items():
        base.append("(%s, mkBase %s)" % (cz(int(k)), " ".join(cz(int(x)) for x in (
            b.frame_width, b.frame_height, b.color_diff_format_index, b.source_sampling, b.top_field_first,
            b.frame_rate_index, b.pixel_aspect_ratio_index, b.clean_width, b.clean_height, b.left_offset,
            b.top_offset, b.signal_range_index, b.color_spec_index))))
    fr = ["(%s, (%s, %s))" % (cz(int(k)), cz(v.numerator), cz(v.denominator)) for k, v in t.PRESET_FRAME_RATES.items()]
    par = ["(%s, (%s, %s))" % (cz(int(k)), cz(v.numerator), cz(v.denominator)) for k, v in t.PRESET_PIXEL_ASPECT_RATIOS.items()]
    sr = ["(%s, (%s, %s, %s, %s))" % (cz(int(k)), cz(v.luma_offset), cz(v.luma_excursion), cz(v.color_diff_offset),
                                     cz(v.color_diff_excursion)) for k, v in t.PRESET_SIGNAL_RANGES.items()]
    cs = ["(%s, (%s, %s, %s))" % (cz(int(k)), cz(int(v.color_primaries_index)), cz(int(v.color_matrix_index)),
                                  cz(int(v.transfer_function_index))) for k, v in t.PRESET_COLOR_SPECS.items()]
    prof = ["(%s, %s)" % (cz(int(k)), clist([int(c) for c in v.allowed_parse_codes])) for k, v in t.PROFILES.items()]
    lsr = []
    for k, v in lc.LEVEL_SEQUENCE_RESTRICTIONS.items():
        lsr.append("(%s, %s)" % (cz(int(k)), cbool(bool(Matcher(v.sequence_restriction_regex).match_symbol("sequence_header")))))
    K = model_keys()
    qms = []
    for k, v in t.QUANTISATION_MATRICES.items():
        qms.append("((%s, %s, %s, %s), %s)" % (cz(int(k[0])), cz(int(k[1])), cz(int(k[2])), cz(int(k[3])),
                                               clist(qm_flat(v, K), lambda e: "(%s, %s)" % (cpair(e[0]), cz(e[1])))))
    lst = lambda xs: "[" + "; ".join(xs) + "]"
    parts = [
        en(t.BaseVideoFormats), en(t.PictureCodingModes), en(t.Profiles), en(t.Levels),
        en(t.ColorDifferenceSamplingFormats), en(t.SourceSamplingModes), en(t.PresetFrameRates),
        en(t.PresetPixelAspectRatios), en(t.PresetSignalRanges), en(t.PresetColorSpecs), en(t.PresetColorPrimaries),
        en(t.PresetColorMatrices), en(t.PresetTransferFunctions), en(t.WaveletFilters), en(t.ParseCodes),
        lst(base), lst(fr), lst(par), lst(sr), lst(cs), lst(prof), lst(lsr), lst(qms),
        cz(int(t.ColorDifferenceSamplingFormats.color_4_2_2)), cz(int(t.ColorDifferenceSamplingFormats.color_4_2_0)),
        cz(int(t.PictureCodingModes.pictures_are_fields)), cz(int(t.ParseCodes.end_of_sequence)),
        cz(int(t.PARSE_INFO_PREFIX)), cz(int(t.PARSE_INFO_HEADER_BYTES)),
    ]
    return "Definition TT : tables := mkTables\n  " + "\n  ".join("(%s)" % p if not p.startswith("[") else p for p in parts) + "."


def coq_level_table(LT, K):
    """LEVEL_CONSTRAINTS as a Model.ConstraintTable.table (C17's representation)."""
    ct = mods()["ct"]

    def vset(vs):
        if isinstance(vs, ct.AnyValue):
            return "ValueSet.Any"
        vals = sorted(int(v) for v in vs._values)
        rngs = sorted((int(a), int(b)) for (a, b) in vs._ranges)
        return "(ValueSet.VS (ValueSet.mkVS %s %s))" % (clist(vals), clist(rngs, cpair))

    cols = []
    for col in LT:
        ents = []
        for k, vs in col.items():
            if k in K["K"]:
                ents.append("(%s, %s)" % (cz(K["K"][k]), vset(vs)))
            else:
                ents.append("(%s, %s)" % (cz(1000 + (hash(k) % 1000)), vset(vs)))
        cols.append("[" + "; ".join(ents) + "]")
    return "Definition LT : ConstraintTable.table := [\n  " + ";\n  ".join(cols) + "]."


def coq_obs(o):
    out, st, vp, lcv, qm, pos = o
    return "(%s, %s, %s, %s, %s, %s)" % (out, clist(st), clist(vp), clist(lcv, cpair),
                                         clist(qm, lambda e: "(%s, %s)" % (cpair(e[0]), cz(e[1]))), cz(pos))


def coq_case(c):
    return "(%s, %s, %s, %s, %s, %s, %s, %s, %s)" % (
        cz(c["kind"]), clist(c["st"], cpair), copt(c["lcv"], lambda h: clist(h, cpair)),
        copt(c["hdr"], lambda b: clist(b)), clist(list(c["data"])), cz(c["pos"]), clist(c["gacc"]), clist(c["lacc"]),
        coq_obs(c["obs"]))


CASE_TY = "Corr.C02.case"

# ------------------------------------------------------------------------------------------------
# running the real functions
# ------------------------------------------------------------------------------------------------
MAX_DEPTH = 40      # dwt_depth + dwt_depth_ho above this: out of scope (1 << depth is computed)
MAX_FRAG_SAMPLES = 1 << 14


class guards(object):
    """temporary in-process wrappers (restored on exit, so that the other sections of C02 are unaffected)"""

    def __enter__(self):
        dps = mods()["dps"]
        self.orig = dps.slices_have_same_dimensions
        orig = self.orig

        def slices_have_same_dimensions(state):
            if state.get("dwt_depth", 0) + state.get("dwt_depth_ho", 0) > MAX_DEPTH:
                raise TooBig("transform depth")
            return orig(state)

        dps.slices_have_same_dimensions = slices_have_same_dimensions
        return self

    def __exit__(self, *a):
        mods()["dps"].slices_have_same_dimensions = self.orig
        return False


def make_state(entries):
    State = mods()["state"].State
    st = State()
    for k, v in entries.items():
        st[k] = copy.deepcopy(v) if not hasattr(v, "match_symbol") else copy.deepcopy(v)
    return st


PARSE_CODE_NAMES = None


def matcher_accepts(matcher):
    """parse codes the matcher would accept next"""
    t = mods()["tables"]
    out = []
    for pc in t.ParseCodes:
        m = copy.deepcopy(matcher)
        if m.match_symbol(pc.name):
            out.append(int(pc))
    return out


def run_real(kind, entries, data, pos, K):
    """-> (obs, exception or None, where)"""
    M = mods()
    dio = M["dio"]
    state = make_state(entries)
    state.pop("quant_matrix", None)
    f = io.BytesIO(bytes(bytearray(data)))
    dio.init_io(state, f)
    for _ in range(pos):
        dio.read_bit(state)
    vp = None
    try:
        if kind == 0:
            vp = M["dsh"].sequence_header(state)
        elif kind == 1:
            dio.byte_align(state)
            M["dps"].picture_header(state)
            dio.byte_align(state)
            M["dps"].transform_parameters(state)
            dio.byte_align(state)
        elif kind == 2:
            M["dfs"].fragment_header(state)
            if state["fragment_slice_count"] == 0:
                M["dps"].transform_parameters(state)
                small = all(state.get(k, 1 << 30) <= 256 for k in ("luma_width", "luma_height")) and \
                    state["dwt_depth"] + state["dwt_depth_ho"] <= 8
                if small:
                    M["dfs"].initialize_fragment_state(state)
                else:   # what initialize_fragment_state does apart from allocating the arrays
                    state["fragment_slices_received"] = 0
                    state["_fragment_slices_remaining"] = state["slices_x"] * state["slices_y"]
        else:
            M["dst"].parse_info(state)
    except M["dex"].UnexpectedEndOfStream:
        return ("OEof", [], [], [], [], 0), None, None
    except M["dex"].ConformanceError as e:
        name = type(e).__name__
        return ("(ORej E_%s)" % (name if name in CERR_NAMES else "Other"), [], [], [], [], 0), None, name
    except TooBig:
        raise
    except Exception as e:  # noqa -- NOT a conformance error
        import traceback
        tb = traceback.extract_tb(e.__traceback__)
        where = "%s:%s" % (tb[-1].filename.split("/")[-1], tb[-1].name) if tb else "?"
        return ("OCrash", [], [], [], [], 0), e, where
    st = state_ints(state, K)
    vpl = [int(vp[k]) for k in sorted(K["V"], key=lambda k: K["V"][k])] if vp is not None else []
    lcv = lcv_list(state, K) or []
    qm = qm_flat(state["quant_matrix"], K) if "quant_matrix" in state else []
    t = dio.tell(state)
    return ("OOk", st, vpl, lcv, qm, t[0] * 8 + (7 - t[1])), None, None


CERR_NAMES = set()


def load_cerr_names():
    text = open(os.path.join(vlib.COQ, "Model", "Headers.v")).read()
    CERR_NAMES.update(re.findall(r"\bE_(\w+)", text))


def build_case(kind, entries, data, pos, K, reachable=True, label=""):
    """Run the real code; returns the case dict (or None when out of scope)."""
    entries = dict(entries)
    entries.pop("quant_matrix", None)
    st0 = make_state(entries)
    gacc, lacc = [], []
    if kind == 3:
        if "_generic_sequence_matcher" in entries:
            gacc = matcher_accepts(entries["_generic_sequence_matcher"])
        if "_level_sequence_matcher" in entries:
            lacc = matcher_accepts(entries["_level_sequence_matcher"])
    hdr = entries.get("_last_sequence_header_bytes")
    try:
        obs, exc, where = run_real(kind, entries, data, pos, K)
    except TooBig:
        return None
    return {"kind": kind, "st": state_init_list(st0, K), "lcv": lcv_list(st0, K),
            "hdr": list(bytearray(hdr)) if hdr is not None else None,
            "data": list(bytearray(data)), "pos": pos, "gacc": gacc, "lacc": lacc, "obs": obs,
            "exc": (type(exc).__name__, where, str(exc)[:200]) if exc is not None else None,
            "reachable": reachable, "label": label, "reject": where if exc is None else None}


# ------------------------------------------------------------------------------------------------
# tokens: where the real parser reads which field (for field-aware mutation)
# ------------------------------------------------------------------------------------------------
def trace_tokens(kind, entries, data, pos, K):
    """[(start_bit, end_bit, 'uint'|'bool'|'lit')] of the reads the REAL functions make on this input"""
    M = mods()
    dio = M["dio"]
    toks = []
    cur = {}

    def bitpos():
        t = dio.tell(cur["state"])
        return t[0] * 8 + (7 - t[1])

    def wrap(name, ty):
        orig = getattr(dio, name)

        def w(state, *a):
            cur["state"] = state
            s = bitpos()
            r = orig(state, *a)
            toks.append((s, bitpos(), ty))
            return r
        return orig, w

    patched = []
    for name, ty in (("read_uint", "uint"), ("read_bool", "bool"), ("read_uint_lit", "lit")):
        orig, w = wrap(name, ty)
        for m in ("dsh", "dps", "dfs", "dst"):
            if hasattr(M[m], name):
                patched.append((M[m], name, getattr(M[m], name)))
                setattr(M[m], name, w)
    try:
        try:
            run_real(kind, entries, data, pos, K)
        except TooBig:
            pass
    finally:
        for mod, name, orig in patched:
            setattr(mod, name, orig)
    return toks


def bits_of(data):
    return [(b >> (7 - i)) & 1 for b in bytearray(data) for i in range(8)]


def bytes_of(bits):
    bits = list(bits) + [0] * (-len(bits) % 8)
    return bytes(bytearray(int("".join(str(b) for b in bits[i:i + 8]), 2) for i in range(0, len(bits), 8)))


def exp_golomb(v):
    n = v + 1
    out = []
    for ch in bin(n)[3:]:
        out += [0, int(ch)]
    return out + [1]


INTERESTING = [0, 0, 1, 1, 2, 3, 4, 5, 6, 7, 8, 9, 12, 16, 17, 22, 23, 64, 65, 66, 67, 255, 256, 1 << 16, (1 << 32) - 1, 1 << 32, 1 << 70]


def mutate_token(rng, data, toks):
    bits = bits_of(data)
    if not toks:
        return data, "none"
    s, e, ty = rng.choice(toks)
    if ty == "bool":
        new = [1 - bits[s]] if s < len(bits) else [1]
    elif ty == "uint":
        r = rng.random()
        if r < 0.7:
            v = rng.choice(INTERESTING)
        elif r < 0.9:
            v = rng.randrange(0, 40)
        else:
            v = rng.getrandbits(rng.choice([8, 16, 33, 80]))
        new = exp_golomb(v)
    else:
        n = e - s
        r = rng.random()
        if r < 0.3:
            v = 0
        elif r < 0.5:
            v = (1 << n) - 1
        elif r < 0.8:
            old = int("".join(str(b) for b in bits[s:e]) or "0", 2)
            v = (old + rng.choice([1, -1, 2, 256])) % (1 << n) if n else 0
        else:
            v = rng.getrandbits(n) if n else 0
        new = [int(c) for c in bin(v)[2:].zfill(n)] if n else []
    bits[s:e] = new
    return bytes_of(bits), "token-" + ty


def mutate_bits(rng, data):
    bits = bits_of(data)
    kind = rng.choice(["flip", "flip", "flip2", "insert", "delete", "truncate", "tail", "zeros", "ones"])
    n = len(bits)
    if kind == "flip" and n:
        i = rng.randrange(min(n, 160))
        bits[i] ^= 1
    elif kind == "flip2" and n:
        for _ in range(rng.choice([2, 3, 5])):
            bits[rng.randrange(n)] ^= 1
    elif kind == "insert":
        i = rng.randrange(min(n, 160) + 1)
        bits[i:i] = [rng.randrange(2) for _ in range(rng.choice([1, 2, 3, 8]))]
    elif kind == "delete" and n:
        i = rng.randrange(min(n, 160))
        del bits[i:i + rng.choice([1, 2, 3, 8])]
    elif kind == "truncate" and n:
        del bits[rng.randrange(min(n, 200)):]
    elif kind == "tail":
        i = rng.randrange(min(n, 160) + 1)
        bits[i:] = [rng.randrange(2) for _ in range(rng.randrange(0, 120))]
    elif kind == "zeros" and n:
        i = rng.randrange(min(n, 160))
        k = rng.choice([2, 8, 40])
        bits[i:i + k] = [0] * k
    elif kind == "ones" and n:
        i = rng.randrange(min(n, 160))
        k = rng.choice([2, 8, 40])
        bits[i:i + k] = [1] * k
    return bytes_of(bits), "bits-" + kind


# ------------------------------------------------------------------------------------------------
# synthesised headers: every field drawn independently (all branches of the syntax, valid and invalid values)
# ------------------------------------------------------------------------------------------------
def synth_sequence_header(rng):
    b = []
    u = lambda v: b.extend(exp_golomb(v))
    flag = lambda p=0.3: (b.append(1) or True) if rng.random() < p else (b.append(0) or False)
    pick = lambda good, bad, p=0.06: rng.choice(bad) if rng.random() < p else rng.choice(good)
    major = pick([1, 2, 3, 3], [0, 4], 0.03)
    u(major)
    u(pick([0], [1], 0.02))
    u(pick([0] if (major == 1 and rng.random() < 0.9) else [0, 3], [1, 2, 4], 0.03))
    u(pick([0] * 30 + [1, 2, 3, 4, 5, 6, 7, 64, 65, 66], [8, 63, 67], 0.03))
    u(pick(list(range(23)), [23, 40], 0.04))
    dims = None
    if flag(0.45):
        dims = (pick([1, 1, 2, 3, 4, 8, 16, 720, 1920], [0], 0.08), pick([1, 1, 2, 3, 4, 8, 16, 576, 1080], [0], 0.08))
        u(dims[0])
        u(dims[1])
    if flag():
        u(pick([0, 1, 2], [3, 7]))
    if flag():
        u(pick([0, 1], [2, 5]))
    if flag():
        i = pick([0] + list(range(1, 17)), [17, 30])
        u(i)
        if i == 0:
            u(pick([1, 24, 25, 30000], [0], 0.1))
            u(pick([1, 1001], [0], 0.1))
    if flag():
        i = pick([0, 1, 2, 3, 4, 5, 6], [7, 9])
        u(i)
        if i == 0:
            u(pick([1, 4, 16], [0], 0.1))
            u(pick([1, 3, 9], [0], 0.1))
    if dims is not None and rng.random() < 0.8:
        # a clean area inside the custom frame (the base format's clean area would not fit a tiny frame)
        b.append(1)
        cw, ch = rng.randint(0, dims[0]), rng.randint(0, dims[1])
        u(cw)
        u(ch)
        u(rng.randint(0, dims[0] - cw) if rng.random() < 0.9 else dims[0])
        u(rng.randint(0, dims[1] - ch) if rng.random() < 0.9 else dims[1])
    elif flag():
        for _ in range(4):
            u(rng.choice([0, 0, 1, 2, 4, 8, 16, 640, 1920, 4000]))
    if flag():
        i = pick([0, 1, 2, 3, 4, 5, 6, 7, 8], [9, 12])
        u(i)
        if i == 0:
            u(rng.choice([0, 16, 64]))
            u(pick([1, 219, 255, 1023], [0], 0.1))
            u(rng.choice([0, 128, 512]))
            u(pick([1, 224, 255, 1023], [0], 0.1))
    if flag(0.4):
        i = pick([0, 0, 0, 1, 2, 3, 4, 5, 6, 7], [8, 11])
        u(i)
        if i == 0:
            if flag(0.6):
                u(pick([0, 1, 2, 3, 4], [5, 8]))
            if flag(0.6):
                u(pick([0, 1, 2, 3, 4], [5, 8]))
            if flag(0.6):
                u(pick([0, 1, 2, 3, 4, 5], [6, 8]))
    u(pick([0, 1], [2, 3]))
    if rng.random() < 0.05:
        del b[rng.randrange(len(b)):]
    return bytes_of(b)


def synth_transform_parameters(rng, major, hq):
    b = []
    u = lambda v: b.extend(exp_golomb(v))
    flag = lambda p=0.3: (b.append(1) or True) if rng.random() < p else (b.append(0) or False)
    pick = lambda good, bad, p=0.06: rng.choice(bad) if rng.random() < p else rng.choice(good)
    u(pick([0, 1, 2, 3, 4, 5, 6], [7, 9]))
    d = pick([0, 1, 1, 2, 2, 3, 4], [5, 9], 0.04)
    u(d)
    dh = 0
    if major >= 3:
        if flag():
            u(pick([0, 1, 2, 3, 4, 5, 6], [7, 9]))
        if flag():
            dh = pick([0, 1, 2, 3], [5], 0.04)
            u(dh)
    u(pick([1, 1, 2, 3, 4, 8], [0], 0.06))
    u(pick([1, 1, 2, 3, 4], [0], 0.06))
    if hq:
        u(rng.choice([0, 0, 1, 2, 7]))
        u(pick([1, 1, 2, 4], [0], 0.08))
    else:
        n = rng.choice([1, 2, 7, 64, 100])
        u(n)
        u(pick([1, 2, 3, 7], [0, n + 1], 0.12))
    if flag(0.45):
        count = (1 + dh + 3 * d)
        if rng.random() < 0.1:
            count = max(0, count - rng.choice([1, 2]))
        for _ in range(count):
            u(rng.choice([0, 0, 1, 2, 3, 8, 127, 128, 300]))
    b += [rng.randrange(2) for _ in range(rng.choice([0, 3, 16]))]
    return bytes_of(b)


# ------------------------------------------------------------------------------------------------
# seeds: data units of conformant streams from the real encoder
# ------------------------------------------------------------------------------------------------
def split_units(data):
    out = []
    pos = 0
    while pos + 13 <= len(data) and data[pos:pos + 4] == b"BBCD":
        pc = data[pos + 4]
        npo = int.from_bytes(data[pos + 5:pos + 9], "big")
        end = pos + npo if npo else len(data)
        out.append((pc, data[pos:pos + 13], data[pos + 13:end]))
        if not npo:
            break
        pos = end
    return out


def seeds(rng, n):
    """[(seq header payload, [(parse code, parse_info bytes, payload)], description)]"""
    import common
    out = []
    while len(out) < n:
        ov = {}
        r = rng.random()
        if r < 0.35:
            ov["fragment_slice_count"] = rng.choice([1, 2, 3])
        desc, data, _pics = common.encoder_stream(rng, n_pictures=rng.choice([1, 2]), **ov)
        units = split_units(data)
        if not units or units[0][0] != 0:
            continue
        out.append((units[0][2], units, desc))
    return out


def more_sequence_headers(rng, n):
    """other encodings of sequence headers (other base video formats, custom flags, presets) from the
    real encoder's enumeration, serialised by the real serialiser"""
    import common
    from vc2_conformance import bitstream as bs
    from vc2_conformance.encoder.sequence_header import iter_sequence_headers
    from vc2_conformance.pseudocode.state import State
    out = []
    tries = 0
    while len(out) < n and tries < 20 * n:
        tries += 1
        kw = common.random_small_config(rng, max_w=12, max_h=8)
        if rng.random() < 0.5:
            t = mods()["tables"]
            kw["base_video_format"] = rng.choice(list(t.BaseVideoFormats))
        cf = common.make_codec_features(**kw)
        if rng.random() < 0.5:
            # a format close to a base video format: few custom fields, presets in use
            t = mods()["tables"]
            from vc2_conformance.pseudocode.video_parameters import set_source_defaults
            cf["video_parameters"] = set_source_defaults(rng.choice(list(t.BaseVideoFormats)))
        it = iter_sequence_headers(cf)
        hs = []
        try:
            for _ in range(rng.choice([1, 2, 6])):
                hs.append(next(it))
        except StopIteration:
            pass
        for h in hs[-2:]:
            f = io.BytesIO()
            w = bs.BitstreamWriter(f)
            try:
                with bs.Serialiser(w, h, bs.vc2_default_values) as ser:
                    bs.sequence_header(ser, State())
                w.flush()
            except Exception:
                continue
            data = f.getvalue()
            # autofill is not run here: major_version is the default; set it to 3 so that everything is allowed
            out.append(data)
    return out


def after_sequence_header(payload, K):
    """the State entries the real sequence_header leaves behind (None when it rejects the payload)"""
    M = mods()
    state = M["state"].State()
    M["dio"].init_io(state, io.BytesIO(payload))
    try:
        vp = M["dsh"].sequence_header(state)
    except Exception:
        return None
    ent = {k: state[k] for k in state if k not in ("_file", "current_byte", "next_bit", "_recorded_bytes")}
    return ent


def sequence_start_entries():
    """what parse_sequence sets before the first parse_info"""
    Matcher = mods()["sre"].Matcher
    return {"_generic_sequence_matcher": Matcher("sequence_header .* end_of_sequence"),
            "_num_pictures_in_sequence": 0, "_fragment_slices_remaining": 0}


# ------------------------------------------------------------------------------------------------
# the run
# ------------------------------------------------------------------------------------------------
def gen_cases(ctx, K, n_target):
    rng = ctx.rng
    cases = []
    sds = seeds(rng, ctx.pick(24, 120))
    extra_hdrs = more_sequence_headers(rng, ctx.pick(30, 200))
    quota = {0: int(n_target * 0.40), 1: int(n_target * 0.30), 2: int(n_target * 0.18), 3: int(n_target * 0.12)}

    def add(kind, entries, data, pos, label, reachable=True):
        c = build_case(kind, entries, data, pos, K, reachable, label)
        if c is not None:
            cases.append(c)
            return c
        ctx.count(1, bucket="hdr-out-of-scope")
        return None

    def variants(kind, entries, data, pos, label):
        """the valid input, then field-aware / bit-level mutations of it"""
        add(kind, entries, data, pos, label + ":valid")
        toks = trace_tokens(kind, entries, data, pos, K)
        for _ in range(rng.choice([3, 5, 8])):
            r = rng.random()
            d = data
            labs = []
            for _ in range(rng.choice([1, 1, 2])):
                if r < 0.6:
                    d, lab = mutate_token(rng, d, toks)
                else:
                    d, lab = mutate_bits(rng, d)
                labs.append(lab)
            add(kind, entries, d, pos, label + ":" + "+".join(labs))

    # ---- kind 0: sequence headers ------------------------------------------------------------
    hdr_payloads = [s[0] for s in sds] + extra_hdrs
    n0 = 0
    while n0 < quota[0]:
        payload = rng.choice(hdr_payloads)
        before = len(cases)
        r = rng.random()
        if rng.random() < 0.4:
            sh = synth_sequence_header(rng)
            if rng.random() < 0.8:
                add(0, {}, sh, 0, "seqhdr-synth")
            else:
                ent = after_sequence_header(sh, K)
                if ent is not None:
                    sh2 = sh if rng.random() < 0.5 else mutate_bits(rng, sh)[0]
                    add(0, ent, sh2, 0, "seqhdr-synth-repeat")
        elif r < 0.6:
            variants(0, {}, payload, 0, "seqhdr-first")
        elif r < 0.85:
            # a repeated sequence header: state as left by the first one (matcher, recorded bytes, level values)
            ent = after_sequence_header(payload, K)
            if ent is None:
                continue
            variants(0, ent, payload, 0, "seqhdr-repeat")
        else:
            nb = rng.randrange(0, 40)
            data = bytes(bytearray(rng.getrandbits(8) for _ in range(nb)))
            if rng.random() < 0.5 and nb:
                # bias: a plausible parse_parameters prefix (version 1..3, minor 0, profile, level)
                pre = exp_golomb(rng.choice([1, 2, 3])) + exp_golomb(0) + exp_golomb(rng.choice([0, 3])) + \
                    exp_golomb(rng.choice([0, 0, 1, 3, 64])) + exp_golomb(rng.randrange(0, 24))
                data = bytes_of(pre + bits_of(data))
            add(0, {}, data, 0, "seqhdr-random")
        n0 += len(cases) - before
    # ---- kinds 1, 2: picture / fragment headers --------------------------------------------------
    n1 = n2 = 0
    guard = 0
    while (n1 < quota[1] or n2 < quota[2]) and guard < 4000:
        guard += 1
        payload, units, desc = rng.choice(sds)
        ent0 = after_sequence_header(payload, K)
        if ent0 is None:
            continue
        pus = [u for u in units if u[0] in (0xC8, 0xE8, 0xCC, 0xEC)]
        if not pus:
            continue
        pc, _pi, body = rng.choice(pus)
        is_frag = pc in (0xCC, 0xEC)
        ent = dict(ent0)
        ent.update(sequence_start_entries())
        ent["parse_code"] = pc
        # truncate the payload: the headers are at the front, the slices are not parsed here
        body = body[:rng.choice([16, 24, 40, 64])]
        before = len(cases)
        if not is_frag:
            if n1 >= quota[1]:
                continue
            if rng.random() < 0.5:
                pn = int.from_bytes(body[:4], "big")
                ent["_last_picture_number"] = (pn - 1) & 0xFFFFFFFF if rng.random() < 0.8 else rng.getrandbits(32)
                ent["_last_picture_number_offset"] = (0, 7)
                ent["_num_pictures_in_sequence"] = rng.choice([1, 2, 3])
            if rng.random() < 0.3:
                ent["major_version"] = rng.choice([1, 2, 3])
            pos = rng.choice([0, 0, 0, 3, 7]) if rng.random() < 0.3 else 0
            data = body
            if pos:
                data = bytes(bytearray([rng.getrandbits(8)])) + body
            if rng.random() < 0.4:
                from collections import OrderedDict
                mv = rng.choice([1, 2, 3, 3])
                ent["major_version"] = mv
                if rng.random() < 0.5:
                    # a level with real constraints on the transform parameters / matrix values
                    ent["_level_constrained_values"] = OrderedDict([("level", rng.choice([1, 2, 3, 4, 5, 6, 7, 64, 65, 66]))])
                tp = synth_transform_parameters(rng, mv, pc == 0xE8)
                add(1, ent, body[:4] + tp, 0, "picture-synth")
            elif rng.random() < 0.15:
                data = bytes(bytearray(rng.getrandbits(8) for _ in range(rng.randrange(4, 30))))
                add(1, ent, data, 0, "picture-random")
            else:
                variants(1, ent, data, pos, "picture")
            n1 += len(cases) - before
        else:
            if n2 >= quota[2]:
                continue
            count = int.from_bytes(body[6:8], "big")
            pn = int.from_bytes(body[:4], "big")
            if count == 0:
                if rng.random() < 0.4:
                    ent["_last_picture_number"] = (pn - 1) & 0xFFFFFFFF
                    ent["_last_picture_number_offset"] = (0, 7)
                    ent["_num_pictures_in_sequence"] = rng.choice([1, 2])
                if rng.random() < 0.15:
                    # a fragmented picture in progress: restarting is an error
                    ent.update({"_fragment_slices_remaining": rng.choice([1, 2]), "fragment_slices_received": 1,
                                "_picture_initial_fragment_offset": (13, 7), "slices_x": 2, "slices_y": 2})
            else:
                sx, sy = desc["slices_x"], desc["slices_y"]
                x = int.from_bytes(body[8:10], "big")
                y = int.from_bytes(body[10:12], "big")
                received = y * sx + x
                r = rng.random()
                if r < 0.75:
                    ent.update({"_fragment_slices_remaining": sx * sy - received, "fragment_slices_received": received,
                                "_picture_initial_fragment_offset": (13, 7), "slices_x": sx, "slices_y": sy,
                                "_last_picture_number": pn, "_last_picture_number_offset": (17, 7),
                                "_num_pictures_in_sequence": 1})
                elif r < 0.9:
                    # no fragmented picture in progress (nothing received yet in this sequence)
                    pass
                else:
                    ent.update({"_fragment_slices_remaining": 0, "fragment_slices_received": sx * sy,
                                "_picture_initial_fragment_offset": (13, 7), "slices_x": sx, "slices_y": sy,
                                "_last_picture_number": pn, "_last_picture_number_offset": (17, 7),
                                "_num_pictures_in_sequence": 1})
            variants(2, ent, body, 0, "fragment-first" if count == 0 else "fragment-data")
            n2 += len(cases) - before
    # ---- kind 3: parse_info ---------------------------------------------------------------------
    n3 = 0
    Matcher = mods()["sre"].Matcher
    lsr = mods()["lc"].LEVEL_SEQUENCE_RESTRICTIONS
    guard = 0
    while n3 < quota[3] and guard < 4000:
        guard += 1
        payload, units, desc = rng.choice(sds)
        i = rng.randrange(len(units))
        before = len(cases)
        ent = sequence_start_entries()
        offset = 0
        # walk the real parse_info over the preceding units to get a reachable state
        if i > 0:
            ent0 = after_sequence_header(payload, K)
            if ent0 is None:
                continue
            ent.update(ent0)
            names = {0: "sequence_header", 0x10: "end_of_sequence", 0x20: "auxiliary_data", 0x30: "padding_data",
                     0xC8: "low_delay_picture", 0xE8: "high_quality_picture", 0xCC: "low_delay_picture_fragment",
                     0xEC: "high_quality_picture_fragment"}
            ok = True
            for (pc, pi, body) in units[:i]:
                ok = ok and ent["_generic_sequence_matcher"].match_symbol(names[pc])
                ok = ok and ent["_level_sequence_matcher"].match_symbol(names[pc]) if pc != 0 or offset else ok
                offset += len(pi) + len(body)
            if not ok:
                continue
            prev = units[i - 1]
            ent["parse_code"] = prev[0]
            ent["next_parse_offset"] = int.from_bytes(prev[1][5:9], "big")
            ent["previous_parse_offset"] = int.from_bytes(prev[1][9:13], "big")
            ent["_last_parse_info_offset"] = offset - len(prev[1]) - len(prev[2])
            if rng.random() < 0.2:
                ent["next_parse_offset"] = rng.choice([0, ent["next_parse_offset"] + 1])
        pi = units[i][1]
        # the reader is positioned `offset` bytes into the stream; only differences of offsets matter, so the
        # previous parse_info is moved to a small offset and only the previous data unit precedes this one
        if i > 0:
            base = ent["_last_parse_info_offset"] - rng.choice([0, 0, 1, 7])
            offset -= base
            ent["_last_parse_info_offset"] -= base
        if offset > 600:
            continue
        lead = bytes(bytearray(rng.getrandbits(8) for _ in range(offset)))
        pos = 8 * offset
        if rng.random() < 0.2 and offset > 0:
            pos -= rng.choice([1, 5])       # not byte aligned: parse_info aligns first
        data = lead + pi + bytes(bytearray(rng.getrandbits(8) for _ in range(2)))
        add(3, ent, data, pos, "parse_info:valid")
        for _ in range(4):
            b = bytearray(pi)
            r = rng.random()
            if r < 0.3:
                b[4] = rng.choice([0x00, 0x10, 0x20, 0x30, 0xC8, 0xE8, 0xCC, 0xEC, rng.getrandbits(8)])
            elif r < 0.6:
                o = rng.choice([5, 9])
                b[o:o + 4] = rng.choice([0, 1, 12, 13, 14, 0xFFFFFFFF, rng.randrange(0, 300)]).to_bytes(4, "big")
            elif r < 0.8:
                b[rng.randrange(13)] ^= 1 << rng.randrange(8)
            else:
                del b[rng.randrange(13):]
            add(3, ent, lead + bytes(b), pos, "parse_info:mutated")
        n3 += len(cases) - before
    return cases


def unreachable_cases(ctx, K, sds_payloads):
    """contexts that the stream level never produces (missing state entries): the real code fails with a
    KeyError/ZeroDivisionError/...; the model must answer HCrash on the same inputs.  NOT violations."""
    rng = ctx.rng
    cases = []
    for payload in sds_payloads[:8]:
        ent0 = after_sequence_header(payload, K)
        if ent0 is None:
            continue
        full = dict(ent0)
        full.update(sequence_start_entries())
        full["parse_code"] = 0xE8
        body = bytes(bytearray([0, 0, 0, 5])) + bytes_of(exp_golomb(1) + exp_golomb(1) + exp_golomb(2) + exp_golomb(1) +
                                                          exp_golomb(0) + exp_golomb(1) + [0] + [0] * 16)
        for drop in ("picture_coding_mode", "_num_pictures_in_sequence", "major_version", "luma_width", "parse_code"):
            e = dict(full)
            e.pop(drop, None)
            c = build_case(1, e, body, 0, K, reachable=False, label="unreachable:no-" + drop)
            if c:
                cases.append(c)
        fb = bytes(bytearray([0, 0, 0, 5, 0, 10, 0, 1, 0, 0, 0, 0]))
        for drop, extra in (("_fragment_slices_remaining", {}),
                            ("none", {"_fragment_slices_remaining": 2}),
                            ("none", {"_fragment_slices_remaining": 2, "fragment_slices_received": 0}),
                            ("none", {"_fragment_slices_remaining": 2, "fragment_slices_received": 0, "slices_x": 0})):
            e = dict(full)
            e["parse_code"] = 0xEC
            e.pop(drop, None)
            e.update(extra)
            c = build_case(2, e, fb, 0, K, reachable=False, label="unreachable:fragment")
            if c:
                cases.append(c)
        # sequence header at a position which is not byte aligned: record_bitstream_start asserts
        c = build_case(0, {}, b"\x00" + payload, 3, K, reachable=False, label="unreachable:unaligned-seqhdr")
        if c:
            cases.append(c)
    return cases


def tables_ok_check(ctx, defs):
    v = ctx.coq_eval("hdr_tables_ok", IMPORTS, "tables_ok TT", defs=defs)
    ok = v is not None and v.strip().startswith("true")
    ctx.obligation("tables:tables_ok(live vc2_data_tables)", ok, "corr-shard",
                   "the hypothesis of C02_headers_total evaluated on the dumped live tables: %r" % v)
    v2 = ctx.coq_eval("hdr_consts_ok", IMPORTS + ["Proofs.HeadersBridge"], "consts_ok TT", defs=defs)
    ok2 = v2 is not None and v2.strip().startswith("true")
    ctx.obligation("tables:consts_ok(live enums = the literals of Gen/VideoParams.v)", ok2, "corr-shard",
                   "the hypothesis of C02_coding_parameters_match_source evaluated on the dumped live tables: %r" % v2)
    return ok and ok2


def judge(ctx, cases, bad, tag):
    """every non-ConformanceError exception from a reachable context is a violation; remaining mismatches are
    correspondence failures"""
    bad = set(bad or [])
    n_viol, n_mis = {}, 0
    for i, c in enumerate(cases):
        key = "%s:%s" % (KIND_NAMES[c["kind"]], c["obs"][0].strip("()").replace("ORej E_", ""))
        ctx.count(1, key=vlib.digest([c["kind"], c["data"], c["st"]]) if c["obs"][0] != "OOk" or ":valid" not in c["label"] else None,
                  bucket="hdr-%s-%s" % (KIND_NAMES[c["kind"]], tag))
        if c["exc"] is not None and c["reachable"]:
            name, where, msg = c["exc"]
            vk = (c["kind"], name, where)
            n_viol[vk] = n_viol.get(vk, 0) + 1
            if n_viol[vk] > 3:
                continue
            ctx.violation("headers:%s:%s@%s" % (KIND_NAMES[c["kind"]], name, where), replay_input(c),
                          "%s raised %s (%s) instead of a ConformanceError" % (KIND_NAMES[c["kind"]], name, msg),
                          observed="%s at %s: %s" % (name, where, msg), expected="Ok, a ConformanceError or end of stream")
        if i in bad:
            n_mis += 1
            if n_mis > 25:
                continue
            ctx.obligation("corr:headers:%s:%s:%s" % (tag, KIND_NAMES[c["kind"]], vlib.digest([c["data"], c["st"]])), False,
                           "corr-shard", "model and implementation differ: label=%s observed=%s input=%r" % (
                               c["label"], c["obs"][0], replay_input(c)))


def replay_input(c):
    return {"headers": True, "kind": c["kind"], "st": c["st"], "lcv": c["lcv"], "hdr": c["hdr"], "data_hex": bytes(bytearray(c["data"])).hex(),
            "pos": c["pos"], "label": c["label"]}


def run_headers(ctx, orig_level_constraints=None):
    """orig_level_constraints: the unmodified LEVEL_CONSTRAINTS (C01.impl() makes the live one permissive)"""
    import time
    t_start = time.time()
    M = mods()
    load_cerr_names()
    K = model_keys()
    LTlive = M["lc"].LEVEL_CONSTRAINTS
    permissive = list(LTlive)
    tdefs = coq_tables()
    tables_ok_check(ctx, tdefs)
    n_total = ctx.pick(1200, 12000)
    outcomes = {}
    batches = [("real-levels", orig_level_constraints, int(n_total * 0.7)), ("permissive-levels", permissive, int(n_total * 0.3))]
    if orig_level_constraints is None:
        batches = [("live-levels", permissive, n_total)]
    first_payloads = []
    all_cases, defs = [], tdefs
    try:
        with guards():
            for bi, (tag, table, n) in enumerate(batches):
                LTlive[:] = list(table)
                defs += "\n" + coq_level_table(LTlive, K).replace("Definition LT ", "Definition LT%d " % bi)
                cases = gen_cases(ctx, K, n)
                if tag != "permissive-levels":
                    first_payloads = [bytes(bytearray(c["data"])) for c in cases if c["label"] == "seqhdr-first:valid"]
                    cases += unreachable_cases(ctx, K, first_payloads)
                for c in cases:
                    c["batch"], c["tag"] = bi, tag
                all_cases += cases
        t_gen = time.time()
        # one coqc run over both batches (the level table is selected per case), small shards for parallelism
        sel = "LT0" if len(batches) == 1 else "(if fst x =? 0 then LT0 else LT1)"
        bad = ctx.coq_check_cases("c02_headers", IMPORTS, "fun x : Z * %s => check TT %s (snd x)" % (CASE_TY, sel),
                                  ["(%d, %s)" % (c["batch"], coq_case(c)) for c in all_cases],
                                  ty="Z * %s" % CASE_TY, shard=ctx.pick(110, 200), defs=defs, timeout=900)
        for tag in sorted(set(c["tag"] for c in all_cases)):
            idx = [i for i, c in enumerate(all_cases) if c["tag"] == tag]
            sub_bad = [k for k, i in enumerate(idx) if bad is not None and i in set(bad)]
            judge(ctx, [all_cases[i] for i in idx], sub_bad, tag)
        for c in all_cases:
            k = "%s:%s" % (KIND_NAMES[c["kind"]], c["obs"][0])
            outcomes[k] = outcomes.get(k, 0) + 1
        for c in all_cases[:2] + all_cases[-2:]:
            ctx.sample({"kind": KIND_NAMES[c["kind"]], "label": c["label"], "bytes": len(c["data"]), "observed": c["obs"][0]})
    finally:
        LTlive[:] = permissive
    ctx.extra["headers_outcomes"] = outcomes
    ctx.extra["headers_rule"] = (
        "stage 2 (Model/Headers.v): data units of conformant streams from the real encoder (common.encoder_stream: profiles, "
        "wavelets, depths, slice counts, fragments, fields, custom matrices) and further sequence-header encodings from the "
        "encoder's own enumeration (other base video formats, presets, custom flags); each valid input is followed by "
        "field-aware mutations (the fields the REAL parser reads are traced; one field is re-coded with an interesting / "
        "random value), bit-level mutations (flips, insertions, deletions, truncation, random tails, runs) and pure random "
        "bits; contexts: first / repeated sequence header, with and without previous pictures, fragmented picture in "
        "progress / finished / never started, versions 1-3, unaligned starts; two level tables (the real LEVEL_CONSTRAINTS "
        "and the permissive one).  Non-trivial = not a plain valid input.")
    ctx.trusted.append("C02 stage 2 harness: transform depths above %d abort a case as out of scope (temporary wrapper around "
                       "slices_have_same_dimensions); initialize_fragment_state is replaced by its two counter assignments "
                       "when the declared picture is larger than 256x256" % MAX_DEPTH)
    ctx.note("header-level correspondence outcomes: %r" % (outcomes,))
    ctx.extra["headers_seconds"] = {"generate+run implementation": round(t_gen - t_start, 1), "total": round(time.time() - t_start, 1)}


def replay_headers(ctx, data):
    inp = data["input"]
    load_cerr_names()
    K = model_keys()
    M = mods()
    # rebuild the entries from the recorded integers (matchers cannot be replayed: parse_info cases use fresh ones)
    inv = {i: n for n, i in K["S"].items()}
    ent = {}
    for i, v in inp["st"]:
        name = inv[i]
        k = pykey(name)
        if name in ("level_sequence_matcher", "generic_sequence_matcher"):
            ent[k] = M["sre"].Matcher(".*")
        elif name == "picture_initial_fragment_offset":
            ent[k] = (v // 8, 7 - v % 8)
        else:
            ent[k] = v
    if inp.get("lcv") is not None:
        from collections import OrderedDict
        invk = {i: n for n, i in K["K"].items()}
        ent["_level_constrained_values"] = OrderedDict((invk[k], v) for k, v in inp["lcv"])
    if inp.get("hdr") is not None:
        ent["_last_sequence_header_bytes"] = bytearray(inp["hdr"])
        ent["_last_sequence_header_offset"] = 0
    if "_last_picture_number" in ent:
        ent["_last_picture_number_offset"] = (0, 7)
    with guards():
        try:
            obs, exc, where = run_real(inp["kind"], ent, bytes(bytearray.fromhex(inp["data_hex"])), inp["pos"], K)
        except TooBig:
            print("out of scope")
            return 0
    print("replaying", data.get("key"), KIND_NAMES[inp["kind"]], inp.get("label"), "->", obs[0], type(exc).__name__ if exc else "", where)
    bad = exc is not None
    print("property violated on this input:", bad)
    return 1 if bad else 0
