"""C08 harness: the bitstream deserialiser and the validator read identical content.

Implementation side (REAL code):
  validator     vc2_conformance.decoder (parse_stream; state captured by wrapping, in-process, the
                decoder.stream module's `picture_decode`, `parse_info` and the transform_data_syntax
                `ld_slice` / `hq_slice` references)
  deserialiser  vc2_conformance.bitstream (Deserialiser + vc2.parse_stream) -> Deserialiser.context

Property oracle (stream level): for every accepted stream the two parsers see the same data-unit sequence, the
same header / parameter values after every parse_info, and the deserialised slice coefficients, dequantised with
max(qindex - matrix, 0) (+ DC prediction where the parse code uses it), equal the validator's transform arrays
just before picture_decode.
Correspondence (tie C): per-slice bit strings cut out of those streams (+ truncated / random / too-long
slice_y_length mutants) through BOTH Coq slice readers of Model/Slices.v vs BOTH real slice parsers, and
Model dc_prediction vs the real one.
"""
import io
import copy
from collections import OrderedDict

from vlib import cz, clist

PARAM_KEYS = [
    "parse_code", "next_parse_offset", "previous_parse_offset", "major_version", "minor_version", "profile", "level",
    "video_parameters", "picture_coding_mode", "luma_width", "luma_height", "color_diff_width", "color_diff_height",
    "luma_depth", "color_diff_depth", "picture_number", "wavelet_index", "wavelet_index_ho", "dwt_depth",
    "dwt_depth_ho", "slices_x", "slices_y", "slice_bytes_numerator", "slice_bytes_denominator", "slice_prefix_bytes",
    "slice_size_scaler", "fragment_data_length", "fragment_slice_count", "fragment_x_offset", "fragment_y_offset",
]
SLICE_KEYS = [
    "parse_code", "luma_width", "luma_height", "color_diff_width", "color_diff_height", "dwt_depth", "dwt_depth_ho",
    "slices_x", "slices_y", "slice_bytes_numerator", "slice_bytes_denominator", "slice_prefix_bytes", "slice_size_scaler",
]
COMPS = ["Y", "C1", "C2"]
ORIENT_CODE = {"LL": 0, "L": 1, "H": 2, "HL": 3, "LH": 4, "HH": 5}
COMP_CODE = {"Y": 0, "C1": 1, "C2": 2}


class Impl(object):
    def __init__(self):
        import common
        from bitarray import bitarray
        from vc2_conformance import encoder, decoder
        from vc2_conformance import bitstream as bs
        from vc2_conformance.bitstream import vc2 as bsvc2
        from vc2_conformance.decoder import stream as dstream
        from vc2_conformance.decoder import transform_data_syntax as tds
        from vc2_conformance.decoder import fragment_syntax as dfrag
        from vc2_conformance.decoder import io as dio
        from vc2_conformance.decoder import exceptions as dexc
        from vc2_conformance.pseudocode.state import State
        from vc2_conformance.pseudocode import slice_sizes as ss
        from vc2_conformance.pseudocode.quantization import inverse_quant
        from vc2_conformance.pseudocode.parse_code_functions import is_ld, is_hq, using_dc_prediction
        from vc2_data_tables import QUANTISATION_MATRICES, ParseCodes
        self.__dict__.update(locals())


_IMPL = None


def impl():
    global _IMPL
    if _IMPL is None:
        _IMPL = Impl()
    return _IMPL


def plain(v):
    """canonical, comparable form of a state value"""
    if isinstance(v, dict):
        return {str(k): plain(x) for k, x in v.items()}
    if isinstance(v, (list, tuple)):
        return [plain(x) for x in v]
    if isinstance(v, bool) or v is None:
        return v
    try:
        return int(v)
    except Exception:
        return repr(v)


def snapshot(state):
    return {k: plain(state[k]) for k in PARAM_KEYS if k in state}


def band_list(dh, d):
    if dh == 0:
        out = [(0, "LL")]
    else:
        out = [(0, "L")] + [(l, "H") for l in range(1, dh + 1)]
    for l in range(dh + 1, dh + d + 1):
        out += [(l, "HL"), (l, "LH"), (l, "HH")]
    return out


# ----------------------------------------------------------------------------- validator, instrumented
def run_validator(data):
    """Real validator on bytes with in-process wrappers.  Returns dict(verdict, exc, units, pictures, slices)."""
    I = impl()
    cap = {"units": [], "pictures": [], "slices": []}
    o_pd, o_pi, o_ld, o_hq = I.dstream.picture_decode, I.dstream.parse_info, I.tds.ld_slice, I.tds.hq_slice

    def w_picture_decode(state):
        cap["pictures"].append({
            "picture_number": state.get("picture_number"),
            "arrays": {c: copy.deepcopy(state[c.lower() + "_transform"]) for c in COMPS},
        })
        return o_pd(state)

    def w_parse_info(state):
        r = o_pi(state)
        cap["units"].append(snapshot(state))
        return r

    def mk_slice_wrapper(orig):
        def w(state, sx, sy):
            start = I.dio.tell(state)
            p = {k: state[k] for k in SLICE_KEYS if k in state}
            p["quant_matrix"] = copy.deepcopy(state["quant_matrix"])
            r = orig(state, sx, sy)
            end = I.dio.tell(state)
            cap["slices"].append({"sx": sx, "sy": sy, "start": start, "end": end, "params": p,
                                  "picture_index": len(cap["pictures"])})
            return r
        return w

    I.dstream.picture_decode, I.dstream.parse_info = w_picture_decode, w_parse_info
    I.tds.ld_slice, I.tds.hq_slice = mk_slice_wrapper(o_ld), mk_slice_wrapper(o_hq)
    state = I.State(_output_picture_callback=lambda *a: None)
    try:
        try:
            with Watchdog(30):
                I.decoder.init_io(state, io.BytesIO(data))
                I.decoder.parse_stream(state)
            verdict, exc = "accept", None
        except I.decoder.ConformanceError as e:
            verdict, exc = "conformance:" + type(e).__name__, e
        except Exception as e:
            verdict, exc = "crash:" + type(e).__name__, e
    finally:
        I.dstream.picture_decode, I.dstream.parse_info = o_pd, o_pi
        I.tds.ld_slice, I.tds.hq_slice = o_ld, o_hq
    cap["verdict"], cap["exc"] = verdict, exc
    return cap


class Watchdog(object):
    """raise TimeoutError inside the block after `seconds` (main thread only; otherwise no limit): a broken parser
    that desynchronises can loop over ~2^32 slices"""
    def __init__(self, seconds):
        self.seconds = seconds

    def __enter__(self):
        import signal
        import threading
        self.active = threading.current_thread() is threading.main_thread()
        if self.active:
            def handler(signum, frame):
                raise TimeoutError("no result after %ss" % self.seconds)
            self.old = signal.signal(signal.SIGALRM, handler)
            signal.setitimer(signal.ITIMER_REAL, self.seconds)
        return self

    def __exit__(self, *a):
        import signal
        if self.active:
            signal.setitimer(signal.ITIMER_REAL, 0)
            signal.signal(signal.SIGALRM, self.old)
        return False


# ----------------------------------------------------------------------------- deserialiser, instrumented
def run_deserialiser(data):
    """Real Deserialiser on bytes.  Returns dict(context, exc, units) (units = state snapshot after each parse_info)."""
    I = impl()
    units = []
    o_pi = I.bsvc2.parse_info

    def w_parse_info(serdes, state):
        r = o_pi(serdes, state)
        units.append(snapshot(state))
        return r

    I.bsvc2.parse_info = w_parse_info
    exc = None
    try:
        r = I.bs.BitstreamReader(io.BytesIO(data))
        with Watchdog(20):
            with I.bs.Deserialiser(r) as des:
                try:
                    I.bsvc2.parse_stream(des, I.State())
                except Exception as e:
                    exc = e
        context = des.context
    except Exception as e:  # context verification at exit
        exc, context = e, None
    finally:
        I.bsvc2.parse_info = o_pi
    return {"context": context, "exc": exc, "units": units}


def deserialised_pictures(context):
    """[(picture_number, state copy, transform_parameters context, [slice contexts])] for every picture data unit
    and every completed fragmented picture, in stream order (from Deserialiser.context only)."""
    out = []
    for seq in context["sequences"]:
        frag = None
        for du in seq["data_units"]:
            if "picture_parse" in du:
                pp = du["picture_parse"]
                wt = pp["wavelet_transform"]
                td = wt["transform_data"]
                out.append((pp["picture_header"]["picture_number"], td["_state"], wt["transform_parameters"],
                            list(td.get("hq_slices", td.get("ld_slices", [])))))
            elif "fragment_parse" in du:
                fp = du["fragment_parse"]
                if "transform_parameters" in fp:
                    frag = {"tp": fp["transform_parameters"], "slices": [], "pn": fp["fragment_header"]["picture_number"]}
                if "fragment_data" in fp and frag is not None:
                    fd = fp["fragment_data"]
                    frag["slices"].extend(fd.get("hq_slices", fd.get("ld_slices", [])))
                    st = fd["_state"]
                    if len(frag["slices"]) == st["slices_x"] * st["slices_y"]:
                        out.append((frag["pn"], st, frag["tp"], frag["slices"]))
                        frag = None
    return out


def quant_matrix_of(st, tp):
    """the matrix in force according to the DESERIALISED transform parameters"""
    I = impl()
    dh, d = st["dwt_depth_ho"], st["dwt_depth"]
    qmc = tp["quant_matrix"]
    if qmc["custom_quant_matrix"]:
        vals = list(qmc["quant_matrix"])
        m = {}
        for (level, orient), v in zip(band_list(dh, d), vals):
            m.setdefault(level, {})[orient] = v
        if len(vals) != len(band_list(dh, d)):
            raise ValueError("quant matrix length")
        return m
    return I.QUANTISATION_MATRICES[(st["wavelet_index"], st["wavelet_index_ho"], d, dh)]


def slice_slots(st, sx, sy, ld):
    """[(comp, level, orient, y, x)] in coefficient order of the slice (concatenated component lists)."""
    I = impl()
    ss = I.ss

    def comp_slots(comp):
        out = []
        for level, orient in band_list(st["dwt_depth_ho"], st["dwt_depth"]):
            for y in range(ss.slice_top(st, sy, comp, level), ss.slice_bottom(st, sy, comp, level)):
                for x in range(ss.slice_left(st, sx, comp, level), ss.slice_right(st, sx, comp, level)):
                    out.append((comp, level, orient, y, x))
        return out

    if ld:
        c = []
        for (_, level, orient, y, x) in comp_slots("C1"):
            c += [("C1", level, orient, y, x), ("C2", level, orient, y, x)]
        return [comp_slots("Y"), c]
    return [comp_slots("Y"), comp_slots("C1"), comp_slots("C2")]


def slice_coeff_lists(sl, ld):
    return [list(sl["y_transform"]), list(sl["c_transform"])] if ld else \
        [list(sl["y_transform"]), list(sl["c1_transform"]), list(sl["c2_transform"])]


def dequantise_slice(st, qm, sx, sy, sl, ld):
    """deserialised slice -> [(comp, level, orient, y, x, value)] or raises ValueError on a count mismatch"""
    I = impl()
    out = []
    for slots, vals in zip(slice_slots(st, sx, sy, ld), slice_coeff_lists(sl, ld)):
        if len(slots) != len(vals):
            raise ValueError("slice (%d,%d): %d coefficients deserialised, %d slots" % (sx, sy, len(vals), len(slots)))
        for (comp, level, orient, y, x), v in zip(slots, vals):
            out.append((comp, level, orient, y, x, I.inverse_quant(v, max(sl["qindex"] - qm[level][orient], 0))))
    return out


def dequantise_picture(st, tp, slices):
    """arrays {comp: {level: {orient: 2D}}} from the deserialised slices (dequantised + DC prediction)"""
    I = impl()
    ld = bool(I.is_ld(st))
    qm = quant_matrix_of(st, tp)
    arrays = {c: I.tds.initialize_wavelet_data(st, c) for c in COMPS}
    for sl in slices:
        for (comp, level, orient, y, x, v) in dequantise_slice(st, qm, sl["_sx"], sl["_sy"], sl, ld):
            arrays[comp][level][orient][y][x] = v
    if I.using_dc_prediction(st):
        o = "LL" if st["dwt_depth_ho"] == 0 else "L"
        for c in COMPS:
            spec_dc_prediction(arrays[c][0][o])
    return arrays


def spec_dc_prediction(band):
    """(13.4) written from the standard, independent of the code base: prediction = rounded mean of the left,
    upper-left and upper neighbours (or the single available neighbour, or 0), raster order, in place."""
    for y in range(len(band)):
        for x in range(len(band[y])):
            if x > 0 and y > 0:
                s3 = band[y][x - 1] + band[y - 1][x - 1] + band[y - 1][x]
                pred = (s3 + 1) // 3
            elif x > 0:
                pred = band[0][x - 1]
            elif y > 0:
                pred = band[y - 1][0]
            else:
                pred = 0
            band[y][x] += pred


def compare_stream(data):
    """The property on one stream.  Returns (status, failures, info): status 'skip:<verdict>' when the validator
    does not accept; failures = [(key, description, observed, expected)]."""
    v = run_validator(data)
    info = {"validator": v}
    if v["verdict"] != "accept":
        return "skip:" + v["verdict"], [], info
    d = run_deserialiser(data)
    info["deserialiser"] = d
    fails = []
    if d["exc"] is not None or d["context"] is None:
        fails.append(("deserialiser-raises", "deserialiser raised %r on an accepted stream" % (d["exc"],), repr(d["exc"]), "no exception"))
        return "checked", fails, info
    # 1. same sequence of data units, same header/parameter values after every parse_info
    if len(v["units"]) != len(d["units"]):
        fails.append(("unit-sequence-length", "number of data units differs", len(d["units"]), len(v["units"])))
    for i, (a, b) in enumerate(zip(v["units"], d["units"])):
        for k in PARAM_KEYS:
            if a.get(k, "<unset>") != b.get(k, "<unset>"):
                fails.append(("param-mismatch:" + k, "data unit %d: %s differs" % (i, k), b.get(k, "<unset>"), a.get(k, "<unset>")))
                break
        if fails:
            break
    # ... and the context's own parse_info values
    ctx_units = [(int(du["parse_info"]["parse_code"]), du["parse_info"]["next_parse_offset"], du["parse_info"]["previous_parse_offset"])
                 for seq in d["context"]["sequences"] for du in seq["data_units"]]
    val_units = [(u["parse_code"], u["next_parse_offset"], u["previous_parse_offset"]) for u in v["units"]]
    if ctx_units != val_units:
        fails.append(("unit-sequence-mismatch", "context parse_info sequence differs from the validator's", ctx_units[:8], val_units[:8]))
    # 2. coefficients
    try:
        dp = deserialised_pictures(d["context"])
    except Exception as e:
        fails.append(("context-malformed", "walking the context failed: %r" % (e,), None, None))
        return "checked", fails, info
    if len(dp) != len(v["pictures"]):
        fails.append(("picture-count", "pictures in context vs picture_decode calls", len(dp), len(v["pictures"])))
    for i, ((pn, st, tp, slices), vp) in enumerate(zip(dp, v["pictures"])):
        if pn != vp["picture_number"]:
            fails.append(("picture-number", "picture %d number differs" % i, pn, vp["picture_number"]))
        try:
            arrays = dequantise_picture(st, tp, slices)
        except Exception as e:
            fails.append(("coeff-count", "picture %d: %s" % (i, e), None, None))
            continue
        if plain_arrays(arrays) != plain_arrays(vp["arrays"]):
            fails.append(("coeff-mismatch", "picture %d: dequantised deserialised coefficients differ from the validator's transform data"
                          % i, first_diff(arrays, vp["arrays"]), None))
    info["pictures"] = len(dp)
    return "checked", fails, info


def plain_arrays(a):
    return {c: {int(l): {str(o): arr for o, arr in lv.items()} for l, lv in a[c].items()} for c in COMPS}


def first_diff(a, b):
    a, b = plain_arrays(a), plain_arrays(b)
    for c in COMPS:
        for l in sorted(set(a[c]) | set(b[c])):
            for o in sorted(set(a[c].get(l, {})) | set(b[c].get(l, {}))):
                x, y = a[c].get(l, {}).get(o), b[c].get(l, {}).get(o)
                if x != y:
                    return {"comp": c, "level": l, "orient": o, "deserialised": repr(x)[:300], "validator": repr(y)[:300]}
    return None


# ----------------------------------------------------------------------------- stream generators
def exp_golomb_bits(v):
    """signed interleaved exp-golomb code of v as a '0'/'1' string (written from the standard, not the codebase)"""
    n = abs(v) + 1
    b = bin(n)[3:]  # bits below the leading one
    s = "".join("0" + x for x in b) + "1"
    if v != 0:
        s += "1" if v < 0 else "0"
    return s


def random_coeff(rng):
    k = rng.randrange(8)
    if k == 0:
        return 0
    if k == 1:
        return rng.choice([1, -1, 2, -2])
    if k == 2:
        return rng.randrange(-40, 41)
    if k == 3:
        if rng.random() < 0.06:     # no bound on coefficient magnitudes in the syntax: hundreds of bits
            return rng.choice([-1, 1]) * ((1 << rng.choice([63, 64, 128, 255, 256, 511, 512, 513, 514, 600, 1024])) - rng.randrange(0, 3))
        return rng.choice([-1, 1]) * ((1 << rng.randrange(1, 40)) - rng.randrange(0, 2))
    if k == 4:
        return rng.randrange(-(1 << 16), 1 << 16)
    return rng.randrange(-6, 7)


def random_block_bits(rng, nbits, nvals):
    """ANY bit string is a legal bounded block; produce interesting ones of exactly nbits bits."""
    mode = rng.randrange(6)
    if mode == 0:
        s = "".join(rng.choice("01") for _ in range(nbits))
    else:
        n = nvals if mode in (1, 2) else rng.randrange(0, nvals + 3)
        s = "".join(exp_golomb_bits(0 if mode == 1 else random_coeff(rng)) for _ in range(n))
        if mode == 5:  # a huge dangling value at the end
            s += "0" * nbits
    if len(s) < nbits:
        fill = rng.choice(["0", "1", "r", "r"])
        s += "".join(rng.choice("01") if fill == "r" else fill for _ in range(nbits - len(s)))
    return s[:nbits]


def bits_to_bytes(s):
    assert len(s) % 8 == 0
    return bytes(int(s[i:i + 8], 2) for i in range(0, len(s), 8))


def repack_in_place(rng, data, slices, qmax=None):
    """Replace every slice's bytes (validator-reported ranges) by a freshly packed slice of the SAME size."""
    I = impl()
    out = bytearray(data)
    for s in slices:
        if s["start"][1] != 7 or s["end"][1] != 7:
            continue
        a, b = s["start"][0], s["end"][0]
        p = s["params"]
        st = I.State(**{k: v for k, v in p.items() if k != "quant_matrix"})
        ld = bool(I.is_ld(st))
        slots = slice_slots(st, s["sx"], s["sy"], ld)
        if rng.random() < 0.15:
            continue  # keep some original slices
        if ld:
            sb = b - a
            lb = I.ss.slice_bytes(st, s["sx"], s["sy"])
            assert lb == sb
            length_bits = (8 * sb - 7 - 1).bit_length()
            sbl = 8 * sb - 7 - length_bits
            if sbl < 0:
                continue
            syl = rng.choice([0, sbl, rng.randint(0, sbl), rng.randint(0, sbl)])
            q = rng.randrange(0, 128) if qmax is None else rng.randrange(0, qmax + 1)
            bits = format(q, "07b") + (format(syl, "0%db" % length_bits) if length_bits else "")
            bits += random_block_bits(rng, syl, len(slots[0])) + random_block_bits(rng, sbl - syl, len(slots[1]))
        else:
            pb, sc = p["slice_prefix_bytes"], p["slice_size_scaler"]
            total = b - a - pb - 4
            if total < 0 or total % sc:
                continue
            total //= sc
            lens = []
            rem = total
            for i in range(2):
                x = rng.choice([0, rem, rng.randint(0, rem)])
                x = min(x, 255)
                if rem - x > 255 * (2 - i):
                    x = rem - 255 * (2 - i)
                lens.append(x)
                rem -= x
            lens.append(rem)
            if max(lens) > 255 or min(lens) < 0:
                continue
            q = rng.randrange(0, 256) if qmax is None else rng.randrange(0, qmax + 1)
            bits = "".join(rng.choice("01") for _ in range(8 * pb)) + format(q, "08b")
            for L, sl in zip(lens, slots):
                bits += format(L, "08b") + random_block_bits(rng, 8 * L * sc, len(sl))
        new = bits_to_bytes(bits)
        assert len(new) == b - a, (len(new), b - a)
        out[a:b] = new
    return bytes(out)


def repack_description(rng, seq, cf):
    """HQ only: rewrite every HQSlice of an encoder-made Sequence by hand (real fixeddicts): random coefficients,
    lengths with slack, random padding bits of the exact unused size, non-zero prefix bytes."""
    I = impl()
    from vc2_conformance.bitstream.exp_golomb import signed_exp_golomb_length
    prefix = rng.choice([0, 0, 1, 3])
    scaler = None
    for du in seq["data_units"]:
        tp = None
        if "picture_parse" in du:
            tp = du["picture_parse"]["wavelet_transform"]["transform_parameters"]
            slices = du["picture_parse"]["wavelet_transform"]["transform_data"]["hq_slices"]
        elif "fragment_parse" in du:
            tp = du["fragment_parse"].get("transform_parameters")
            slices = du["fragment_parse"].get("fragment_data", {}).get("hq_slices", [])
        else:
            continue
        if tp is not None:
            tp["slice_parameters"]["slice_prefix_bytes"] = prefix
            scaler = tp["slice_parameters"]["slice_size_scaler"]
        for sl in slices:
            sl["prefix_bytes"] = bytes(rng.randrange(256) for _ in range(prefix))
            sl["qindex"] = rng.choice([0, rng.randrange(0, 64), rng.randrange(0, 256)])
            for c in ("y", "c1", "c2"):
                n = len(sl[c + "_transform"])
                vals = [random_coeff(rng) for _ in range(n)] if rng.random() < 0.8 else [0] * n
                bits = sum(signed_exp_golomb_length(v) for v in vals)
                length = -(-bits // (8 * scaler)) + rng.choice([0, 0, 1, 2])
                if length > 255:
                    vals = [0] * n
                    bits = n
                    length = min(255, -(-bits // (8 * scaler)))
                    if 8 * length * scaler < bits:  # cannot fit even zeros: leave them dangling (all read as 0)
                        vals = [0] * n
                sl[c + "_transform"] = vals
                sl["slice_%s_length" % c] = length
                unused = max(0, 8 * length * scaler - bits)
                sl[c + "_block_padding"] = I.bitarray([rng.randrange(2) for _ in range(unused)])
    return seq


def corpus_streams():
    """byte streams serialised ONCE from the unmodified tree (corpus/C08/streams.jsonl): they stay fixed when the
    serialiser -- which shares bitstream/vc2.py with the deserialiser under test -- changes"""
    import os
    import json
    import vlib
    path = os.path.join(vlib.VERIF, "corpus", "C08", "streams.jsonl")
    out = []
    if os.path.exists(path):
        for line in open(path):
            line = line.strip()
            if line:
                j = json.loads(line)
                out.append((j["label"], j["config"], bytes.fromhex(j["hex"])))
    return out


def gen_streams(ctx, n, corpus=True):
    """yield (label, config description, bytes): the fixed corpus first, then freshly generated streams"""
    if corpus:
        for item in corpus_streams():
            yield item
    for item in gen_fresh_streams(ctx, n):
        yield item


VIDEO_KEYS = ("profile", "frame_width", "frame_height", "color_diff_format", "fields", "interlaced", "luma_offset",
              "luma_excursion", "color_diff_offset", "color_diff_excursion")


def split_data_units(data):
    """bytes of ONE sequence -> list of bytearrays, one per data unit (parse_info + payload)"""
    units, off = [], 0
    while off < len(data):
        if data[off:off + 4] != b"BBCD":
            raise ValueError("no parse_info prefix at %d" % off)
        nxt = int.from_bytes(data[off + 5:off + 9], "big")
        end = off + nxt if nxt else len(data)
        if nxt == 0 and data[off + 4] != 0x10:
            raise ValueError("zero next_parse_offset before the end of sequence")
        units.append(bytearray(data[off:end]))
        off = end
    return units


def join_data_units(units):
    """concatenate data units, rewriting next/previous_parse_offset"""
    out, prev = bytearray(), 0
    for i, u in enumerate(units):
        u = bytearray(u)
        u[5:9] = (0 if i == len(units) - 1 else len(u)).to_bytes(4, "big")
        u[9:13] = prev.to_bytes(4, "big")
        prev = len(u)
        out += u
    return bytes(out)


def gen_mixed_stream(ctx):
    """ONE sequence whose consecutive pictures (whole / fragmented, any combination) use DIFFERENT transform
    parameters (wavelets, depths, slice counts, slice sizes, fragment sizes, matrices) under the same sequence
    header: the picture / fragment data units of 2-3 separately encoded and serialised sequences sharing the video
    format, spliced at byte level (so the stream does not depend on the serialiser handling parameter changes).
    Returns (label, desc, bytes) or None."""
    I = impl()
    C = I.common
    rng = ctx.rng
    kw0 = C.random_small_config(rng, max_w=16, max_h=12)
    kws = [kw0]
    for _ in range(rng.choice([1, 1, 2])):
        for _try in range(12):
            kr = C.random_small_config(rng, max_w=16, max_h=12)
            if kr["profile"] == kw0["profile"]:
                break
        else:
            return None
        for k in VIDEO_KEYS:
            kr[k] = kw0[k]
        kws.append(kr)
    # the interesting combinations need fragments somewhere and different geometry
    for kw in kws:
        if rng.random() < 0.5:
            kw["fragment_slice_count"] = rng.randint(1, kw["slices_x"] * kw["slices_y"] + 1)
        if not kw["lossless"] and kw.get("picture_bytes") is not None and kw["picture_bytes"] > 5000:
            kw["picture_bytes"] = kw["slices_x"] * kw["slices_y"] * rng.randint(8, 60)
    n = rng.choice([0, 0, 7, (1 << 32) - 2]) if not kw0["fields"] else rng.choice([0, 10])
    segs = []
    for kw in kws:
        cf = C.make_codec_features(**kw)
        npics = 2 if kw["fields"] else rng.choice([1, 1, 2])
        pics = [C.random_picture(cf, rng, pic_num=(n + i) % (1 << 32)) for i in range(npics)]
        n += npics
        kwargs = {}
        if kw["profile"] == "hq" and rng.random() < 0.3:
            kwargs["minimum_slice_size_scaler"] = rng.choice([2, 3])
        seq = I.encoder.make_sequence(cf, pics, **kwargs)
        if kw["profile"] == "hq" and rng.random() < 0.3:
            seq = repack_description(rng, seq, cf)
        segs.append(split_data_units(C.serialise([seq])))
    head = segs[0][0]
    if head[4] != 0x00:
        return None
    for sg in segs[1:]:
        if sg[0][4] != 0x00 or bytes(sg[0][13:]) != bytes(head[13:]):
            return None  # a different sequence header (e.g. another major_version): not spliceable
    units = list(segs[0][:-1])
    for sg in segs[1:]:
        units += [u for u in sg[1:-1] if u[4] != 0x00]
    units.append(segs[0][-1])
    data = join_data_units(units)
    desc = C.describe_config(kw0)
    desc["segments"] = [C.describe_config(kw) for kw in kws]
    label = "%s/mixed/%s" % (kw0["profile"], ">".join("frag" if kw["fragment_slice_count"] else "pic" for kw in kws))
    return label, desc, data


def gen_fresh_streams(ctx, n):
    I = impl()
    C = I.common
    rng = ctx.rng
    patterns = [(), (), ("(. padding_data)+ end_of_sequence",), ("(. auxiliary_data? padding_data?)+ end_of_sequence",),
                ("sequence_header padding_data .*",), ("(sequence_header .)+ end_of_sequence",)]
    made = 0
    attempts = 0
    while made < n and attempts < 4 * n:
        attempts += 1
        if rng.random() < 0.3:
            try:
                m = gen_mixed_stream(ctx)
                if m is None:
                    continue
                label, desc, data = m
                v = run_validator(data)
                if v["verdict"] != "accept":
                    ctx.count(0, bucket="mixed-not-accepted:" + v["verdict"].split(":", 1)[1])
                    ctx.distribution["mixed-not-accepted:" + v["verdict"].split(":", 1)[1]] = \
                        ctx.distribution.get("mixed-not-accepted:" + v["verdict"].split(":", 1)[1], 0) + 1
                    continue
                if rng.random() < 0.4:
                    data = repack_in_place(rng, data, v["slices"], qmax=rng.choice([None, 20, 63]))
                    label += "+inplace"
            except I.encoder.exceptions.UnsatisfiableCodecFeaturesError:
                continue
            except Exception as e:
                ctx.note("mixed generator failed: %s: %s" % (type(e).__name__, e))
                continue
            made += 1
            yield (label, desc, data)
            continue
        kw = C.random_small_config(rng, max_w=16, max_h=12)
        if not kw["lossless"] and kw["picture_bytes"] is not None and kw["picture_bytes"] > 5000:
            kw["picture_bytes"] = kw["slices_x"] * kw["slices_y"] * rng.randint(8, 60)
        desc = C.describe_config(kw)
        try:
            cf = C.make_codec_features(**kw)
            npics = 2 if kw["fields"] else rng.choice([1, 1, 2])
            pics = [C.random_picture(cf, rng) for _ in range(npics)]
            pat = rng.choice(patterns)
            kwargs = {}
            if kw["profile"] == "hq" and rng.random() < 0.4:
                kwargs["minimum_slice_size_scaler"] = rng.choice([2, 3, 5])
            seq = I.encoder.make_sequence(cf, pics, *pat, **kwargs)
            variant = rng.choice(["plain", "inplace", "inplace", "desc", "desc+inplace"]) if kw["profile"] == "hq" else rng.choice(["plain", "inplace", "inplace"])
            if "desc" in variant:
                seq = repack_description(rng, seq, cf)
            seqs = [seq]
            if rng.random() < 0.15:  # two sequences in one stream
                seqs.append(I.encoder.make_sequence(cf, [C.random_picture(cf, rng) for _ in range(npics)]))
            data = C.serialise(seqs)
            if "inplace" in variant:
                v = run_validator(data)
                if v["verdict"] != "accept":
                    ctx.note("encoder output not accepted (%s) for %r" % (v["verdict"], desc))
                    continue
                data = repack_in_place(rng, data, v["slices"], qmax=rng.choice([None, 20, 63]))
        except I.encoder.exceptions.UnsatisfiableCodecFeaturesError:
            continue
        except Exception as e:  # generator problem, not the property
            ctx.note("generator failed: %s: %s" % (type(e).__name__, e))
            continue
        made += 1
        yield ("%s/%s/%s%s" % (kw["profile"], variant, "frag" if kw["fragment_slice_count"] else "pic",
                                "+pad" if pat else ""), desc, data)


# ----------------------------------------------------------------------------- per-slice runs of the real parsers
class RecRow(list):
    """a row of a transform array which logs assignments (to observe the ORDER of the validator's writes)"""
    def set_tag(self, log, tag):
        self._log, self._tag = log, tag
        return self

    def __setitem__(self, x, v):
        self._log.append(self._tag + (x, v))
        list.__setitem__(self, x, v)


def make_state(p):
    I = impl()
    st = I.State(**{k: v for k, v in p.items() if k != "quant_matrix"})
    st["quant_matrix"] = copy.deepcopy(p["quant_matrix"])
    return st


def real_decoder_slice(p, sx, sy, data):
    """REAL decoder ld_slice/hq_slice on the bytes of one slice -> observation tuple
    (status, qindex, lengths, writes, consumed_bits); status 0 ok, 1 EOF, 3 InvalidSliceYLength, 9 other"""
    I = impl()
    st = make_state(p)
    log = []
    for c in COMPS:
        arr = I.tds.initialize_wavelet_data(st, c)
        for level, lv in arr.items():
            for orient in lv:
                lv[orient] = [RecRow(row).set_tag(log, (COMP_CODE[c], level, ORIENT_CODE[orient], y)) for y, row in enumerate(lv[orient])]
        st[c.lower() + "_transform"] = arr
    reads = []
    o_lit, o_nbits = I.tds.read_uint_lit, I.tds.read_nbits
    I.tds.read_uint_lit = lambda s, n: (lambda v: (reads.append(v), v)[1])(o_lit(s, n))
    I.tds.read_nbits = lambda s, n: (lambda v: (reads.append(v), v)[1])(o_nbits(s, n))
    ld = bool(I.is_ld(st))
    try:
        I.decoder.init_io(st, io.BytesIO(data))
        (I.tds.ld_slice if ld else I.tds.hq_slice)(st, sx, sy)
        by, bi = I.dio.tell(st)
        consumed = 8 * by + (7 - bi)
        if ld:
            qindex, lengths = reads[0], reads[1:2]
        else:
            qindex, lengths = reads[1], reads[2:5]
        return (0, qindex, lengths, [list(w) for w in log], consumed)
    except I.dexc.UnexpectedEndOfStream:
        return (1, 0, [], [], 0)
    except I.dexc.InvalidSliceYLength:
        return (3, 0, [], [], 0)
    except Exception as e:
        return (9, 0, [], [], 0, repr(e))
    finally:
        I.tds.read_uint_lit, I.tds.read_nbits = o_lit, o_nbits


def real_serdes_slice(p, sx, sy, data):
    """REAL serdes ld_slice/hq_slice -> (status, prefix bytes, qindex, lengths, coeff lists, padding bit lists, consumed)"""
    I = impl()
    st = make_state(p)
    ld = bool(I.is_ld(st))
    r = I.bs.BitstreamReader(io.BytesIO(data))
    try:
        with I.bs.Deserialiser(r) as des:
            (I.bsvc2.ld_slice if ld else I.bsvc2.hq_slice)(des, st, sx, sy)
        c = des.context
        by, bi = r.tell()
        consumed = 8 * by + (7 - bi)
        if ld:
            return (0, [], c["qindex"], [c["slice_y_length"]], [list(c["y_transform"]), list(c["c_transform"])],
                    [list(c["y_block_padding"]), list(c["c_block_padding"])], consumed, c)
        return (0, list(bytearray(c["prefix_bytes"])), c["qindex"], [c["slice_y_length"], c["slice_c1_length"], c["slice_c2_length"]],
                [list(c["y_transform"]), list(c["c1_transform"]), list(c["c2_transform"])],
                [list(c["y_block_padding"]), list(c["c1_block_padding"]), list(c["c2_block_padding"])], consumed, c)
    except EOFError:
        return (1, [], 0, [], [], [], 0, None)
    except Exception as e:
        return (9, [], 0, [], [], [], 0, repr(e))


def slice_property(p, sx, sy, data, dobs, sobs):
    """C08 at slice level on the implementation: decoder ok -> serdes ok, same bits consumed, same qindex/lengths,
    dequantised serdes coefficients == decoder writes (in order).  Returns None or a description."""
    I = impl()
    if dobs[0] != 0:
        return None
    if sobs[0] != 0:
        return "validator reads the slice, deserialiser fails (status %r)" % (sobs[0],)
    if dobs[4] != sobs[6]:
        return "bits consumed differ: validator %d, deserialiser %d" % (dobs[4], sobs[6])
    if dobs[1] != sobs[2] or dobs[2] != sobs[3]:
        return "qindex/lengths differ: validator %r %r, deserialiser %r %r" % (dobs[1], dobs[2], sobs[2], sobs[3])
    st = make_state(p)
    ld = bool(I.is_ld(st))
    try:
        dq = dequantise_slice(st, p["quant_matrix"], sx, sy, sobs[7], ld)
    except ValueError as e:
        return str(e)
    dq = [[COMP_CODE[c], l, ORIENT_CODE[o], y, x, v] for (c, l, o, y, x, v) in dq]
    if dq != dobs[3]:
        return "dequantised deserialised coefficients differ from the validator's writes"
    return None


def coq_params(p):
    qm = p["quant_matrix"]
    dh, d = p["dwt_depth_ho"], p["dwt_depth"]
    rows = []
    for level in range(0, dh + d + 1):
        if level == 0:
            rows.append([qm[0]["LL" if dh == 0 else "L"]])
        elif level <= dh:
            rows.append([qm[level]["H"]])
        else:
            rows.append([qm[level]["HL"], qm[level]["LH"], qm[level]["HH"]])
    return "(mk_case_params %s %s %s)" % (
        clist([p["luma_width"], p["luma_height"], p["color_diff_width"], p["color_diff_height"], p["dwt_depth"], p["dwt_depth_ho"],
               p["slices_x"], p["slices_y"], p.get("slice_bytes_numerator", 0), p.get("slice_bytes_denominator", 1), int(p["parse_code"])]),
        clist([p.get("slice_prefix_bytes", 0), p.get("slice_size_scaler", 1)]),
        clist(rows, clist))


def coq_slice_case(p, sx, sy, data, dobs, sobs):
    d = "(%s, %s, %s, %s, %s)" % (cz(dobs[0]), cz(dobs[1]), clist(dobs[2]), clist(dobs[3], clist), cz(dobs[4]))
    s = "(%s, %s, %s, %s, %s, %s, %s)" % (cz(sobs[0]), clist(sobs[1]), cz(sobs[2]), clist(sobs[3]), clist(sobs[4], clist),
                                          clist(sobs[5], clist), cz(sobs[6]))
    return "(%s, %s, %s, %s, %s, %s)" % (coq_params(p), cz(sx), cz(sy), clist(list(bytearray(data))), d, s)


def jsonable_params(p):
    q = {str(l): dict(v) for l, v in p["quant_matrix"].items()}
    d = {k: int(v) for k, v in p.items() if k != "quant_matrix"}
    d["quant_matrix"] = q
    return d


def params_from_json(d):
    I = impl()
    p = {k: v for k, v in d.items() if k != "quant_matrix"}
    p["parse_code"] = I.ParseCodes(p["parse_code"])
    p["quant_matrix"] = {int(l): dict(v) for l, v in d["quant_matrix"].items()}
    return p


# ----------------------------------------------------------------------------- run
def run(ctx):
    I = impl()
    rng = ctx.rng
    ctx.extra["rule"] = (
        "oracle: random small codec configurations (profiles, lossless/lossy, all wavelets, asymmetric depths, 4:4:4/4:2:2/4:2:0, fields, "
        "fragments, custom matrices) encoded by the real encoder, optionally with padding/auxiliary units, then either kept, re-packed at "
        "description level (hand-built HQSlice fixeddicts: random/extreme coefficients, slack lengths, random padding bits, prefix bytes) or "
        "re-packed in place at bit level (same slice sizes; random qindex, lengths, random bits / coded values / dangling values / random "
        "padding); only streams the validator accepts count; non-trivial = accepted stream with at least one non-zero coefficient, distinct by "
        "content hash.  correspondence: slices (<= 96 bytes) cut from those streams + truncated/random mutants through both Coq slice readers.")
    import time
    t0 = time.time()
    n_streams = ctx.pick(100, 3000)
    max_corr = ctx.pick(380, 6000)
    slice_cases = []   # (p, sx, sy, bytes)
    seen_slices = set()
    accepted = 0
    import hashlib
    for label, desc, data in gen_streams(ctx, n_streams):
        if len(ctx.violations) >= 6:
            ctx.note("stopped generating streams after 6 violations")
            break
        status, fails, info = compare_stream(data)
        if status != "checked":
            ctx.count(1, bucket="not-accepted:" + status.split(":", 1)[1])
            if status.startswith("skip:crash"):
                ctx.note("validator crashed (%s) on a generated stream %s" % (status, label))
            continue
        accepted += 1
        v = info["validator"]
        nontrivial = any(any(any(any(x != 0 for x in row) for row in arr) for lv in pic["arrays"][c].values() for arr in lv.values())
                         for pic in v["pictures"] for c in COMPS)
        ctx.count(1, key=hashlib.sha1(data).hexdigest()[:16] if nontrivial else None, bucket=label.replace("corpus:", ""))
        if label.startswith("corpus:"):
            ctx.count(0, bucket="(of which fixed corpus streams)")
            ctx.distribution["(of which fixed corpus streams)"] = ctx.distribution.get("(of which fixed corpus streams)", 0) + 1
        if accepted <= 3:
            ctx.sample({"label": label, "config": desc, "bytes": len(data), "pictures": len(v["pictures"]), "slices": len(v["slices"])})
        for key, descr, obs, exp in fails:
            ctx.violation(key, {"kind": "stream", "label": label, "config": desc, "hex": data.hex()}, descr,
                          observed=plain(obs) if not isinstance(obs, dict) else obs, expected=plain(exp))
        # harvest slices for the correspondence
        for s in v["slices"]:
            if s["start"][1] != 7 or s["end"][1] != 7:
                continue
            b = data[s["start"][0]:s["end"][0]]
            if len(b) > 96 or len(slice_cases) >= max_corr:
                continue
            h = (repr(sorted(jsonable_params(s["params"]).items(), key=str)), s["sx"], s["sy"], b)
            if h in seen_slices:
                continue
            seen_slices.add(h)
            slice_cases.append((s["params"], s["sx"], s["sy"], b))
    t_streams = time.time() - t0
    if accepted == 0:
        ctx.obligation("harness:C08 generated no accepted stream", False, "harness", "")
    # mutants of the harvested slices: truncated, random bytes, bit flips (LD: too long slice_y_length arises)
    base = list(slice_cases)
    for (p, sx, sy, b) in base[: ctx.pick(180, 2000)]:
        k = rng.randrange(4)
        if k == 0 and len(b) > 0:
            m = b[: rng.randrange(0, len(b))]
        elif k == 1:
            m = bytes(rng.randrange(256) for _ in range(len(b)))
        elif k == 2:
            m = bytearray(b)
            for _ in range(rng.randint(1, 4)):
                m[rng.randrange(len(m))] ^= 1 << rng.randrange(8)
            m = bytes(m)
        else:
            m = b + bytes(rng.randrange(256) for _ in range(rng.randint(1, 3)))
        slice_cases.append((p, sx, sy, m))
    # corpus of earlier failures first
    corpus = load_corpus(ctx)
    slice_cases = corpus + slice_cases
    cases, metas = [], []
    for (p, sx, sy, b) in slice_cases:
        dobs = real_decoder_slice(p, sx, sy, b)
        sobs = real_serdes_slice(p, sx, sy, b)
        if dobs[0] == 9 or sobs[0] == 9:
            ctx.note("slice parser raised an unexpected exception: %r %r" % (dobs[5:], sobs[7:]))
        why = slice_property(p, sx, sy, b, dobs, sobs)
        if why is not None:
            ctx.violation("slice-readers-disagree", {"kind": "slice", "params": jsonable_params(p), "sx": sx, "sy": sy, "hex": b.hex()}, why,
                          observed=plain(sobs[:7]), expected=plain(dobs[:5]))
        cases.append(coq_slice_case(p, sx, sy, b, dobs, sobs))
        metas.append((p, sx, sy, b, dobs, sobs))
        ctx.count(1, key=("slice", hashlib.sha1(repr((jsonable_params(p), sx, sy)).encode() + b).hexdigest()[:16]) if dobs[0] == 0 and dobs[3] else None,
                  bucket="slice:" + {0: "ok", 1: "eof", 3: "bad-y-length", 9: "other"}[dobs[0]])
    t_slices = time.time() - t0 - t_streams
    bad = ctx.coq_check_cases("slices", ["Base.PyZ", "Gen.StateRec", "Model.Slices", "Corr.C08"], "chk_slice_case", cases, ty="slice_case", shard=ctx.pick(100, 150))
    for i in (bad or []):
        p, sx, sy, b, dobs, sobs = metas[i]
        save_corpus(ctx, p, sx, sy, b)
        ctx.obligation("corr:slice model vs implementation", False, "corr-shard",
                       "model and implementation differ on slice %r sx=%d sy=%d bytes=%s (validator obs %r, deserialiser obs %r)"
                       % (jsonable_params(p), sx, sy, b.hex(), plain(dobs[:5]), plain(sobs[:7])))
    # dc_prediction model vs real
    dc_cases = []
    for _ in range(ctx.pick(120, 1000)):
        h, w = rng.randint(0, 6), rng.randint(1, 7)
        a = [[rng.choice([rng.randrange(-5, 6), rng.randrange(-(1 << 20), 1 << 20)]) for _ in range(w)] for _ in range(h)]
        out = copy.deepcopy(a)
        I.tds.dc_prediction(out)
        dc_cases.append("(%s, %s)" % (clist(a, clist), clist(out, clist)))
        ctx.count(1, bucket="dc_prediction")
    bad = ctx.coq_check_cases("dcpred", ["Model.Slices", "Corr.C08"], "chk_dc_case", dc_cases, ty="list (list Z) * list (list Z)", shard=200)
    if bad:
        ctx.obligation("corr:dc_prediction model vs implementation", False, "corr-shard", "cases %r" % bad[:5])
    ctx.trusted.append("slice geometry, intlog2, inverse_quant, mean come from coq/Gen (regenerated from /repo on this run)")
    ctx.trusted.append("C08_units_agree (same unit sequence / header values) is checked by the differential oracle only, not by a theorem")
    ctx.note("%d accepted streams compared, %d slice cases through both Coq readers; %.0fs streams, %.0fs real slice parsers, %.0fs coq"
             % (accepted, len(cases), t_streams, t_slices, time.time() - t0 - t_streams - t_slices))
    # ---- header part (tools/harness/C08_headers.py): the description programs of Model/SerDesVC2Headers.v against the
    # real vc2.py functions under a real Deserialiser (the proofs about them are Proofs/HeadersAgree2.v)
    try:
        import C08_headers
        C08_headers.run(ctx)
    except Exception:
        import traceback
        ctx.obligation("harness:C08_headers", False, "harness", traceback.format_exc())


# ----------------------------------------------------------------------------- corpus
def corpus_dir(ctx):
    import os
    import vlib
    d = os.path.join(vlib.VERIF, "corpus", "C08")
    return d


def load_corpus(ctx):
    import os
    import json
    out = []
    d = corpus_dir(ctx)
    if os.path.isdir(d):
        for f in sorted(os.listdir(d)):
            if f.endswith(".json"):
                try:
                    j = json.load(open(os.path.join(d, f)))
                    out.append((params_from_json(j["params"]), j["sx"], j["sy"], bytes.fromhex(j["hex"])))
                except Exception:
                    pass
    return out


def save_corpus(ctx, p, sx, sy, b):
    import os
    import json
    import hashlib
    d = corpus_dir(ctx)
    try:
        os.makedirs(d, exist_ok=True)
        j = {"params": jsonable_params(p), "sx": sx, "sy": sy, "hex": b.hex()}
        name = hashlib.sha1(json.dumps(j, sort_keys=True).encode()).hexdigest()[:12] + ".json"
        if len(os.listdir(d)) < 40:
            json.dump(j, open(os.path.join(d, name), "w"))
    except OSError:
        pass


# ----------------------------------------------------------------------------- replay
def replay(ctx, data):
    inp = data["input"]
    print("replaying", data.get("key"), inp.get("kind"))
    if inp.get("kind") == "slice":
        p = params_from_json(inp["params"])
        b = bytes.fromhex(inp["hex"])
        dobs = real_decoder_slice(p, inp["sx"], inp["sy"], b)
        sobs = real_serdes_slice(p, inp["sx"], inp["sy"], b)
        print("validator slice reader :", plain(dobs[:5]))
        print("deserialiser slice reader:", plain(sobs[:7]))
        why = slice_property(p, inp["sx"], inp["sy"], b, dobs, sobs)
        print("property violated on this input:", why)
        return 1 if why else 0
    b = bytes.fromhex(inp["hex"])
    status, fails, info = compare_stream(b)
    print("validator:", info["validator"]["verdict"], "status:", status)
    for f in fails:
        print("FAIL", f[0], f[1], "observed", plain(f[2]) if not isinstance(f[2], dict) else f[2], "expected", plain(f[3]))
    print("property violated on this input:", bool(fails))
    return 1 if fails else 0
