"""Shared helpers for harnesses that drive the real encoder / serialiser / validator.

Everything here runs the REAL implementation from $VERIF_REPO (PYTHONPATH).
"""
import io
import os
import copy
from collections import OrderedDict
from fractions import Fraction

from vc2_data_tables import (
    Levels, Profiles, PictureCodingModes, WaveletFilters, ColorDifferenceSamplingFormats,
    BaseVideoFormats, SourceSamplingModes, PresetColorPrimaries, PresetColorMatrices,
    PresetTransferFunctions, QUANTISATION_MATRICES,
)
from vc2_conformance.codec_features import CodecFeatures
from vc2_conformance.pseudocode.video_parameters import set_source_defaults, VideoParameters
from vc2_conformance.pseudocode.state import State
from vc2_conformance import bitstream as bs
from vc2_conformance import decoder
from vc2_conformance.dimensions_and_depths import compute_dimensions_and_depths

WAVELETS = list(WaveletFilters)


def make_codec_features(
    name="cfg", profile="hq", lossless=False, picture_bytes=None,
    wavelet_index=WaveletFilters.haar_with_shift, wavelet_index_ho=None,
    dwt_depth=1, dwt_depth_ho=0, slices_x=2, slices_y=1, fragment_slice_count=0,
    frame_width=8, frame_height=4, color_diff_format=ColorDifferenceSamplingFormats.color_4_4_4,
    fields=False, interlaced=None, luma_offset=0, luma_excursion=255, color_diff_offset=128,
    color_diff_excursion=255, base_video_format=BaseVideoFormats.hd1080p_50,
    level=Levels.unconstrained, quantization_matrix=None, top_field_first=True,
):
    vp = set_source_defaults(base_video_format)
    vp["frame_width"] = frame_width
    vp["frame_height"] = frame_height
    vp["color_diff_format_index"] = color_diff_format
    if interlaced is None:
        interlaced = False
    vp["source_sampling"] = SourceSamplingModes.interlaced if interlaced else SourceSamplingModes.progressive
    vp["top_field_first"] = top_field_first
    vp["frame_rate_numer"] = 1
    vp["frame_rate_denom"] = 1
    vp["pixel_aspect_ratio_numer"] = 1
    vp["pixel_aspect_ratio_denom"] = 1
    vp["clean_width"] = frame_width
    vp["clean_height"] = frame_height
    vp["left_offset"] = 0
    vp["top_offset"] = 0
    vp["luma_offset"] = luma_offset
    vp["luma_excursion"] = luma_excursion
    vp["color_diff_offset"] = color_diff_offset
    vp["color_diff_excursion"] = color_diff_excursion
    vp["color_primaries_index"] = PresetColorPrimaries.hdtv
    vp["color_matrix_index"] = PresetColorMatrices.hdtv
    vp["transfer_function_index"] = PresetTransferFunctions.tv_gamma
    if wavelet_index_ho is None:
        wavelet_index_ho = wavelet_index
    return CodecFeatures(
        name=name,
        level=level,
        profile=Profiles.high_quality if profile == "hq" else Profiles.low_delay,
        picture_coding_mode=PictureCodingModes.pictures_are_fields if fields else PictureCodingModes.pictures_are_frames,
        video_parameters=vp,
        wavelet_index=wavelet_index,
        wavelet_index_ho=wavelet_index_ho,
        dwt_depth=dwt_depth,
        dwt_depth_ho=dwt_depth_ho,
        slices_x=slices_x,
        slices_y=slices_y,
        fragment_slice_count=fragment_slice_count,
        lossless=lossless,
        picture_bytes=None if lossless else picture_bytes,
        quantization_matrix=quantization_matrix,
    )


def has_default_quant_matrix(wi, wi_ho, d, dh):
    return (wi, wi_ho, d, dh) in QUANTISATION_MATRICES


def flat_quant_matrix(d, dh, rng=None, maxv=0):
    """A custom quantisation matrix of the right shape ({level: {orient: value}})."""
    def v():
        return rng.randrange(0, maxv + 1) if (rng is not None and maxv) else 0
    m = {}
    if dh == 0:
        m[0] = {"LL": v()}
    else:
        m[0] = {"L": v()}
    for level in range(1, dh + 1):
        m[level] = {"H": v()}
    for level in range(dh + 1, dh + d + 1):
        m[level] = {"HL": v(), "LH": v(), "HH": v()}
    return m


def dims(cf):
    """{comp: (width, height, depth_bits)} of a coded picture."""
    dd = compute_dimensions_and_depths(cf["video_parameters"], cf["picture_coding_mode"])
    return OrderedDict((c, (dd[c].width, dd[c].height, dd[c].depth_bits)) for c in ("Y", "C1", "C2"))


def random_picture(cf, rng, kind=None, pic_num=None):
    """An in-range picture for cf.  kind: noise|zeros|max|mid|extremes|ramp|twin (noise with C2 equal to C1)|skew (one noisy component, the others constant)"""
    # noise dominates: only busy content fills lossy slices up to their byte budgets
    kind = kind or rng.choice(["noise", "noise", "noise", "noise", "zeros", "max", "mid", "extremes", "ramp", "twin", "skew"])
    pic = {}
    busy = rng.choice(["Y", "C1", "C2", "C2"])       # kind "skew": one busy component, the others smooth
    for c, (w, h, depth) in dims(cf).items():
        top = (1 << depth) - 1
        if kind == "twin" and c == "C2" and "C1" in pic and len(pic["C1"]) == h and len(pic["C1"][0]) == w:
            a = [list(r) for r in pic["C1"]]      # equal (not identical) colour-difference planes
        elif kind == "skew" and c != busy:
            v = rng.choice([(top + 1) // 2, 0, top, rng.randint(0, top)])
            a = [[v] * w for _ in range(h)]
        elif kind in ("noise", "twin", "skew"):
            a = [[rng.randint(0, top) for _ in range(w)] for _ in range(h)]
        elif kind == "zeros":
            a = [[0] * w for _ in range(h)]
        elif kind == "max":
            a = [[top] * w for _ in range(h)]
        elif kind == "mid":
            a = [[(top + 1) // 2] * w for _ in range(h)]
        elif kind == "extremes":
            a = [[rng.choice([0, top]) for _ in range(w)] for _ in range(h)]
        else:
            a = [[(x * top) // max(1, w - 1) if w > 1 else top for x in range(w)] for _ in range(h)]
        pic[c] = a
    if pic_num is not None:
        pic["pic_num"] = pic_num
    return pic


def serialise(sequences):
    """Autofill + serialise a list of bitstream Sequences; returns bytes."""
    f = io.BytesIO()
    bs.autofill_and_serialise_stream(f, bs.Stream(sequences=list(sequences)))
    return f.getvalue()


def validate(data, level_constraints=None, max_pictures=None):
    """Run the real validator on bytes.  Returns (verdict, exc, pictures) where verdict is
    'accept' | 'conformance:<ClassName>' | 'crash:<ClassName>' and pictures is the list of
    (picture dict, video_parameters, picture_coding_mode) delivered to the output callback."""
    pictures = []

    def cb(picture, video_parameters, picture_coding_mode):
        pictures.append((copy.deepcopy(picture), copy.deepcopy(video_parameters), picture_coding_mode))

    state = State(_output_picture_callback=cb)
    f = io.BytesIO(data)
    try:
        decoder.init_io(state, f)
        decoder.parse_stream(state)
        return "accept", None, pictures, state
    except decoder.ConformanceError as e:
        return "conformance:" + type(e).__name__, e, pictures, state
    except Exception as e:  # anything else is an internal failure of the validator
        return "crash:" + type(e).__name__, e, pictures, state


def deserialise(data):
    """Real bitstream deserialiser; returns (Stream description, exception or None)."""
    f = io.BytesIO(data)
    r = bs.BitstreamReader(f)
    with bs.Deserialiser(r) as des:
        try:
            bs.parse_stream(des, State())
            return des.context, None
        except Exception as e:  # partial context is still available
            return des.context, e


def pictures_equal(a, b):
    return all(a[c] == b[c] for c in ("Y", "C1", "C2"))


def random_small_config(rng, allow_ld=True, allow_fragments=True, allow_fields=True, lossless=None,
                        max_w=16, max_h=12, deep=False):
    """A random SMALL, VALID codec configuration (unconstrained level), as kwargs for make_codec_features.
    The space covers profiles, lossless/lossy, all wavelet pairs, symmetric/asymmetric depths, slice
    counts, fragment sizes, subsampling, field/frame coding, custom/default matrices, signal ranges."""
    profile = rng.choice(["hq", "ld"]) if allow_ld else "hq"
    if lossless is None:
        lossless = profile == "hq" and rng.random() < 0.4
    if lossless:
        profile = "hq"
    wi = rng.choice(WAVELETS)
    dh = rng.choice([0, 0, 0, 1, 2])
    d = rng.choice([0, 1, 1, 2, 3]) if dh else rng.choice([1, 1, 2, 3, 0])
    wi_ho = rng.choice(WAVELETS) if (dh or rng.random() < 0.3) else wi
    cdf = rng.choice(list(ColorDifferenceSamplingFormats))
    fields = allow_fields and rng.random() < 0.3
    interlaced = rng.random() < 0.3
    xmul = 2 if cdf != ColorDifferenceSamplingFormats.color_4_4_4 else 1
    ymul = 2 if cdf == ColorDifferenceSamplingFormats.color_4_2_0 else 1
    if fields or interlaced:
        # regular formats only: interlaced sources / field coding need an even number of (chroma) lines
        ymul *= 2
    w = xmul * rng.randint(1, max(1, max_w // xmul))
    h = ymul * rng.randint(1, max(1, max_h // ymul))
    sx = rng.choice([1, 1, 2, 3, 4])
    sy = rng.choice([1, 1, 2, 2, 3])
    frag = 0
    if allow_fragments and rng.random() < 0.35:
        frag = rng.randint(1, sx * sy + 1)
    bits = rng.choice([1, 2, 8, 8, 10, 12, 16] + ([20, 24, 32] if deep else []))
    luma_exc = (1 << bits) - 1 if rng.random() < 0.7 else rng.randint(1, (1 << bits))
    cbits = rng.choice([bits, bits, 8])
    c_exc = (1 << cbits) - 1 if rng.random() < 0.7 else rng.randint(1, (1 << cbits))
    qm = None
    if not has_default_quant_matrix(wi, wi_ho, d, dh) or rng.random() < 0.2:
        qm = flat_quant_matrix(d, dh, rng, rng.choice([0, 0, 3, 8]))
    kw = dict(
        profile=profile, lossless=lossless, wavelet_index=wi, wavelet_index_ho=wi_ho, dwt_depth=d,
        dwt_depth_ho=dh, slices_x=sx, slices_y=sy, fragment_slice_count=frag, frame_width=w, frame_height=h,
        color_diff_format=cdf, fields=fields, interlaced=interlaced, luma_offset=rng.choice([0, 0, 1, 16]),
        luma_excursion=luma_exc, color_diff_offset=rng.choice([0, 128, (1 << cbits) // 2]),
        color_diff_excursion=c_exc, quantization_matrix=qm,
    )
    if not lossless:
        n = sx * sy
        if profile == "hq":
            kw["picture_bytes"] = rng.choice([4 * n, 4 * n + rng.randint(0, 40), n * rng.randint(4, 300), 100000])
        else:
            # low-delay slice sizes differ by a byte when picture_bytes is not a multiple of the slice count:
            # make that the common case, and keep budgets tight so that slices are filled to the last bits
            kw["picture_bytes"] = rng.choice([n * rng.randint(1, 8), n * rng.randint(1, 8) + rng.randint(1, max(1, n - 1)),
                                              n * rng.randint(4, 60) + rng.randint(1, max(1, n - 1)),
                                              n * rng.randint(1, 200) + rng.randint(0, n), 50000])
    return kw


def describe_config(kw):
    d = dict(kw)
    for k in ("wavelet_index", "wavelet_index_ho", "color_diff_format"):
        d[k] = int(d[k])
    if d.get("quantization_matrix") is not None:
        d["quantization_matrix"] = {str(l): v for l, v in d["quantization_matrix"].items()}
    return d


# ---------------------------------------------------------------------------------------
# parallel map over picklable work items (fork; deterministic order of results)
# ---------------------------------------------------------------------------------------
def pmap(func, items, procs=14, chunksize=4):
    import multiprocessing as mp

    items = list(items)
    if len(items) < 8 or procs <= 1:
        return [func(x) for x in items]
    ctx = mp.get_context("fork")
    with ctx.Pool(min(procs, len(items))) as pool:
        return pool.map(func, items, chunksize)


def legal_picture_numbers(rng, n, fields):
    """None (let autofill number them) or a legal explicit numbering: consecutive mod 2^32,
    even first when pictures are fields; includes wrap-around starts."""
    r = rng.random()
    if r < 0.4:
        return None
    start = rng.choice([0, 2, 10, rng.randrange(0, 1 << 32), (1 << 32) - 2, (1 << 32) - 4, (1 << 32) - 1, (1 << 32) - 3])
    if fields and start % 2:
        start = (start - 1) % (1 << 32)
    return [(start + i) % (1 << 32) for i in range(n)]


# ---------------------------------------------------------------------------------------
# resource guards: "declared picture sizes, transform depths, slice counts and sample depths
# within modest bounds" (properties C02, C25, C26).  A stream that declares more is OUT OF SCOPE:
# the guard raises OutOfScope (a BaseException, so no `except Exception` in the code under test
# can swallow or misreport it) and the harness skips the case.
# ---------------------------------------------------------------------------------------
class OutOfScope(BaseException):
    pass


GUARD_LIMITS = dict(max_samples=1 << 16, max_depth=6, max_slices=1 << 10, max_sample_bits=128, max_dim=1 << 12)
_guards_installed = False


def _check_state(state, video_parameters=None):
    g = GUARD_LIMITS
    for k in ("luma_width", "luma_height", "color_diff_width", "color_diff_height"):
        if state.get(k, 0) > g["max_dim"]:
            raise OutOfScope("%s=%r" % (k, state.get(k)))
    if state.get("luma_width", 0) * state.get("luma_height", 0) > g["max_samples"]:
        raise OutOfScope("picture too large")
    for k in ("luma_depth", "color_diff_depth"):
        if state.get(k, 0) > g["max_sample_bits"]:
            raise OutOfScope("%s=%r" % (k, state.get(k)))
    if state.get("dwt_depth", 0) + state.get("dwt_depth_ho", 0) > g["max_depth"]:
        raise OutOfScope("transform depth")
    if state.get("slices_x", 0) * state.get("slices_y", 0) > g["max_slices"] or max(
            state.get("slices_x", 0), state.get("slices_y", 0)) > g["max_slices"]:
        raise OutOfScope("slice count")
    if state.get("slice_prefix_bytes", 0) > 1 << 12 or state.get("slice_size_scaler", 0) > 1 << 12:
        raise OutOfScope("slice prefix/scaler")
    if state.get("slice_bytes_numerator", 0) > 1 << 24:
        raise OutOfScope("slice bytes")
    if video_parameters is not None:
        if video_parameters.get("frame_width", 0) > g["max_dim"] or video_parameters.get("frame_height", 0) > g["max_dim"]:
            raise OutOfScope("frame size")


def install_size_guards():
    """Monkeypatch (in-process, in both parsers) so that oversized declarations abort as OutOfScope
    BEFORE any size-proportional work is done."""
    global _guards_installed
    if _guards_installed:
        return
    _guards_installed = True
    import importlib
    # NB: `import a.b.c as x` would pick up same-named FUNCTIONS re-exported by the packages
    dsh = importlib.import_module("vc2_conformance.decoder.sequence_header")
    dps = importlib.import_module("vc2_conformance.decoder.picture_syntax")
    vc2 = importlib.import_module("vc2_conformance.bitstream.vc2")

    def wrap_scp(orig):
        def set_coding_parameters(state, video_parameters):
            _check_state({}, video_parameters)
            for k in ("luma_excursion", "color_diff_excursion"):
                if video_parameters.get(k, 0) >> GUARD_LIMITS["max_sample_bits"]:
                    raise OutOfScope(k)
            r = orig(state, video_parameters)
            _check_state(state, video_parameters)
            return r
        return set_coding_parameters

    dsh.set_coding_parameters = wrap_scp(dsh.set_coding_parameters)
    vc2.set_coding_parameters = wrap_scp(vc2.set_coding_parameters)

    orig_same = dps.slices_have_same_dimensions

    def slices_have_same_dimensions(state):
        _check_state(state)
        return orig_same(state)

    dps.slices_have_same_dimensions = slices_have_same_dimensions

    orig_dsp = dps.slice_parameters

    def d_slice_parameters(state):
        _check_state(state)
        r = orig_dsp(state)
        _check_state(state)
        return r

    dps.slice_parameters = d_slice_parameters

    orig_vsp = vc2.slice_parameters

    def v_slice_parameters(serdes, state):
        _check_state(state)
        r = orig_vsp(serdes, state)
        _check_state(state)
        return r

    vc2.slice_parameters = v_slice_parameters


# ---------------------------------------------------------------------------------------
# stream corpora and mutation
# ---------------------------------------------------------------------------------------
def encoder_stream(rng, n_pictures=None, **overrides):
    """(config description, bytes, pictures) of a conformant stream from the real encoder."""
    from vc2_conformance import encoder
    while True:
        kw = random_small_config(rng, max_w=12, max_h=8)
        kw.update(overrides)
        cf = make_codec_features(**kw)
        n = n_pictures if n_pictures is not None else rng.choice([1, 2, 3])
        if kw["fields"] and n % 2:
            n += 1
        pics = [random_picture(cf, rng) for _ in range(n)]
        try:
            seq = encoder.make_sequence(cf, pics)
        except encoder.UnsatisfiableCodecFeaturesError:
            continue
        return describe_config(kw), serialise([seq]), pics


def deep_lossless_stream(rng):
    """(config description, bytes, pictures): a conformant lossless stream with VERY deep samples (33..100 bits,
    chosen around the machine-word boundaries) whose pictures contain the extreme sample values.  Custom signal
    ranges allow any depth; consumers that switch to native integer arrays break at 2^31, 2^32, 2^63, 2^64."""
    from vc2_conformance import encoder
    while True:
        kw = random_small_config(rng, allow_ld=False, lossless=True, max_w=8, max_h=4)
        bits = rng.choice([31, 32, 33, 40, 63, 64, 64, 64, 65, 100])
        cbits = rng.choice([bits, bits, 8, 64])
        kw.update(luma_offset=0, luma_excursion=(1 << bits) - 1, color_diff_offset=1 << (cbits - 1),
                  color_diff_excursion=(1 << cbits) - 1)
        cf = make_codec_features(**kw)
        n = 2 if kw["fields"] else rng.choice([1, 2])
        pics = [random_picture(cf, rng, rng.choice(["extremes", "max", "noise", "extremes"])) for _ in range(n)]
        try:
            seq = encoder.make_sequence(cf, pics)
        except encoder.UnsatisfiableCodecFeaturesError:
            continue
        return describe_config(kw), serialise([seq]), pics


def mutate(data, rng):
    """One random mutation of a byte string; returns (kind, bytes)."""
    data = bytearray(data)
    kind = rng.choice(["bitflip", "bitflip", "byteset", "truncate", "insert", "delete", "parse_code", "offset",
                       "header_byte", "multi", "zeros", "ff"])
    n = len(data)
    if n == 0:
        return "empty", bytes(data)
    # positions of parse_info headers
    pis = [i for i in range(0, max(0, n - 12)) if data[i:i + 4] == b"BBCD"]
    if kind == "bitflip":
        i = rng.randrange(n)
        data[i] ^= 1 << rng.randrange(8)
    elif kind == "byteset":
        data[rng.randrange(n)] = rng.randrange(256)
    elif kind == "truncate":
        del data[rng.randrange(n):]
    elif kind == "insert":
        i = rng.randrange(n + 1)
        data[i:i] = bytes(rng.randrange(256) for _ in range(rng.randint(1, 4)))
    elif kind == "delete":
        i = rng.randrange(n)
        del data[i:i + rng.randint(1, 4)]
    elif kind == "parse_code" and pis:
        i = rng.choice(pis)
        data[i + 4] = rng.choice([0x00, 0x10, 0x20, 0x30, 0xC8, 0xE8, 0xCC, 0xEC, rng.randrange(256)])
    elif kind == "offset" and pis:
        i = rng.choice(pis) + rng.choice([5, 9])
        v = rng.choice([0, 1, 12, 13, 14, rng.randrange(1 << 16), (1 << 32) - 1])
        data[i:i + 4] = v.to_bytes(4, "big")
    elif kind == "header_byte" and pis:
        i = rng.choice(pis) + 13 + rng.randrange(0, 12)
        if i < n:
            data[i] ^= 1 << rng.randrange(8)
    elif kind == "multi":
        for _ in range(rng.randint(2, 6)):
            i = rng.randrange(n)
            data[i] ^= 1 << rng.randrange(8)
    elif kind == "zeros":
        i = rng.randrange(n)
        data[i:i + rng.randint(1, 8)] = b"\x00" * rng.randint(1, 8)
    elif kind == "ff":
        i = rng.randrange(n)
        data[i:i + rng.randint(1, 8)] = b"\xff" * rng.randint(1, 8)
    return kind, bytes(data)


def randomise_video_parameters(vp, rng):
    """Perturb the metadata fields of a VideoParameters dict (colour description, frame rate, pixel
    aspect ratio, clean area) keeping the format valid; frame size / sampling / signal ranges untouched."""
    if rng.random() < 0.7:
        vp["color_primaries_index"] = rng.choice(list(PresetColorPrimaries))
        vp["color_matrix_index"] = rng.choice(list(PresetColorMatrices))
        vp["transfer_function_index"] = rng.choice(list(PresetTransferFunctions))
    if rng.random() < 0.5:
        vp["frame_rate_numer"], vp["frame_rate_denom"] = rng.choice(
            [(24000, 1001), (24, 1), (25, 1), (30000, 1001), (30, 1), (50, 1), (60000, 1001), (60, 1), (15000, 1001), (25, 2),
             (48, 1), (48000, 1001), (96, 1), (100, 1), (120000, 1001), (120, 1), (7, 3), (1, 1), (1000, 1)])
    if rng.random() < 0.5:
        vp["pixel_aspect_ratio_numer"], vp["pixel_aspect_ratio_denom"] = rng.choice(
            [(1, 1), (10, 11), (12, 11), (40, 33), (16, 11), (4, 3), (3, 2), (7, 5)])
    # ratios need not be in lowest terms: the configured pair itself must survive, not an equivalent one
    if rng.random() < 0.2:
        k = rng.choice([2, 2, 3, 10, 1001])
        vp["frame_rate_numer"], vp["frame_rate_denom"] = vp["frame_rate_numer"] * k, vp["frame_rate_denom"] * k
    if rng.random() < 0.2:
        k = rng.choice([2, 2, 3, 11])
        vp["pixel_aspect_ratio_numer"], vp["pixel_aspect_ratio_denom"] = vp["pixel_aspect_ratio_numer"] * k, vp["pixel_aspect_ratio_denom"] * k
    if rng.random() < 0.4:
        w, h = vp["frame_width"], vp["frame_height"]
        cw, ch = rng.randint(1, w), rng.randint(1, h)
        vp["clean_width"], vp["clean_height"] = cw, ch
        vp["left_offset"], vp["top_offset"] = rng.randint(0, w - cw), rng.randint(0, h - ch)
    return vp


# ---------------------------------------------------------------------------------------------------
# hand-packed tiny streams with DEGENERATE (small, zero, inconsistent) coding parameters
# ---------------------------------------------------------------------------------------------------
class BitPacker(object):
    """Independent MSB-first bit packer (not the project's writer)."""
    def __init__(self):
        self.b = []

    def bit(self, v):
        self.b.append(1 if v else 0)

    def nbits(self, n, v):
        for i in range(n - 1, -1, -1):
            self.b.append((v >> i) & 1)

    def uint(self, v):
        v += 1
        for i in range(v.bit_length() - 2, -1, -1):
            self.b.append(0)
            self.b.append((v >> i) & 1)
        self.b.append(1)

    def align(self, fill=0):
        while len(self.b) % 8:
            self.b.append(fill)

    def tobytes(self):
        self.align()
        return bytes(int("".join(map(str, self.b[i:i + 8])), 2) for i in range(0, len(self.b), 8))


def _pi(code, npo, ppo):
    return b"BBCD" + bytes([code]) + (npo & 0xFFFFFFFF).to_bytes(4, "big") + (ppo & 0xFFFFFFFF).to_bytes(4, "big")


def degenerate_stream(rng):
    """(label, bytes): sequence header + one picture or fragment(s) + end of sequence, packed by hand, whose
    transform/slice parameters are small and frequently degenerate: zero slice counts, zero or tiny slice byte
    budgets (LD numerator 0, numerator < denominator, denominator 0), HQ scaler 0, depths 0, payload shorter
    or longer than the parameters imply.  Structurally well-formed (offsets, prefixes) so that the parser
    reaches the picture payload."""
    profile = rng.choice([0, 0, 3])
    major = rng.choice([1, 2, 3, 3]) if profile == 0 else rng.choice([2, 3, 3])
    width, height = rng.choice([1, 2, 4, 8]), rng.choice([1, 2, 4])
    p = BitPacker()
    p.uint(major); p.uint(0); p.uint(profile); p.uint(0)
    p.uint(0)                                    # base_video_format: custom
    p.bit(1); p.uint(width); p.uint(height)
    cdf = rng.choice([None, 0, 1, 2])
    p.bit(cdf is not None)
    if cdf is not None:
        p.uint(cdf)
    for _ in range(6):                           # scan, frame rate, aspect, clean area, signal range, colour: defaults
        p.bit(0)
    p.uint(rng.choice([0, 0, 1]))                # picture_coding_mode
    hdr = p.tobytes()
    fragment = major >= 3 and rng.random() < 0.35
    p = BitPacker()
    p.nbits(32, rng.choice([0, 1, (1 << 32) - 1, rng.randrange(1 << 32)]))
    if fragment:
        p.nbits(16, rng.choice([0, 1, 40])); p.nbits(16, 0)
    else:
        pass
    p.uint(rng.choice([0, 1, 2, 3, 4, 5, 6, 6, 7]))     # wavelet_index (7: invalid)
    depth = rng.choice([0, 0, 1, 1, 2, 3])
    p.uint(depth)
    depth_ho = 0
    if major >= 3:
        a = rng.random() < 0.3
        p.bit(a)
        if a:
            p.uint(rng.randrange(0, 8))
        b = rng.random() < 0.3
        p.bit(b)
        if b:
            depth_ho = rng.choice([0, 1, 2])
            p.uint(depth_ho)
    sx, sy = rng.choice([0, 1, 1, 2, 3]), rng.choice([0, 1, 1, 2])
    p.uint(sx); p.uint(sy)
    if profile == 0:
        num = rng.choice([0, 0, 1, 1, 2, 3, 5, 8, 16])
        den = rng.choice([0, 1, 1, 2, 2, 3])
        p.uint(num); p.uint(den)
        label = "ld %d/%d" % (num, den)
    else:
        prefix, scaler = rng.choice([0, 0, 1, 2]), rng.choice([0, 1, 1, 2])
        p.uint(prefix); p.uint(scaler)
        label = "hq p%d s%d" % (prefix, scaler)
    cqm = rng.random() < 0.25
    p.bit(cqm)
    if cqm:
        n = (1 if depth_ho == 0 else 1 + depth_ho) + 3 * depth if depth or depth_ho else 1
        for _ in range(rng.choice([n, n, max(0, n - 1)])):
            p.uint(rng.choice([0, 1, 4, 127]))
    p.align()
    body = p.tobytes()
    frags = []
    if fragment:
        # slice-carrying fragments follow the parameter-carrying one
        total = max(1, sx * sy)
        left, x, y = total, 0, 0
        for _ in range(rng.choice([1, 1, 2])):
            n = rng.choice([left, 1, max(1, left // 2)])
            q = BitPacker()
            q.nbits(32, 0); q.nbits(16, 0); q.nbits(16, n); q.nbits(16, x); q.nbits(16, y)
            frags.append(q.tobytes() + _payload(rng))
            left -= n
            if sx:
                y, x = (y * sx + x + n) // sx, (y * sx + x + n) % sx
            if left <= 0:
                break
        # fix the picture numbers of the slice fragments to the first one's
        frags = [body[:4] + f[4:] for f in frags]
    else:
        body += _payload(rng)
    code_pic = {(0, False): 0xC8, (3, False): 0xE8, (0, True): 0xCC, (3, True): 0xEC}[(profile, fragment)]
    units = [(0x00, hdr), (code_pic, body)] + [(code_pic, f) for f in frags]
    # padding / auxiliary data units with run-structured payloads, before and/or after the picture
    for pos in (1, len(units)):
        if rng.random() < 0.25:
            units.insert(pos, (rng.choice([0x30, 0x20]), run_payload(rng) if rng.random() < 0.8 else _payload(rng)))
            label += " +pad" if units[pos][0] == 0x30 else " +aux"
    out, prev = b"", 0
    for code, b in units:
        out += _pi(code, 13 + len(b), prev) + b
        prev = 13 + len(b)
    out += _pi(0x10, 0, prev)
    return "degenerate:%s%s v%d %dx%d d%d+%d s%dx%d" % (label, " frag" if fragment else "", major, width, height, depth, depth_ho, sx, sy), out


def run_payload(rng):
    """Bytes whose hex dump has long runs of one digit that start/end at arbitrary NIBBLE positions
    (formatters that abbreviate runs work at digit, not byte, granularity)."""
    digits = ""
    for _ in range(rng.choice([1, 1, 2, 3])):
        digits += "".join(rng.choice("0123456789abcdef") for _ in range(rng.choice([0, 1, 1, 2, 3])))
        digits += rng.choice("0f0f37a") * rng.choice([7, 15, 16, 17, 18, 20, 31, 32, 33, 64, 65])
    digits += "".join(rng.choice("0123456789abcdef") for _ in range(rng.choice([0, 1, 2, 3])))
    if len(digits) % 2:
        digits = digits + rng.choice("0123456789abcdef") if rng.random() < 0.5 else rng.choice("0123456789abcdef") + digits
    return bytes.fromhex(digits)


def _payload(rng):
    if rng.random() < 0.2:
        return run_payload(rng)
    n = rng.choice([0, 0, 1, 2, 3, 5, 12, 40])
    mode = rng.randrange(4)
    if mode == 0:
        return bytes(n)
    if mode == 1:
        return b"\xff" * n
    return bytes(rng.randrange(256) for _ in range(n))


_corpus_cache = None


def corpus_streams():
    """Fixed conformant byte streams (corpus/C08/streams.jsonl, serialised once from the unmodified tree): many
    configurations, re-packed slices, and sequences whose pictures/fragments use DIFFERENT transform parameters,
    slice grids and quantisation matrices (state that must not leak from one picture to the next)."""
    global _corpus_cache
    if _corpus_cache is None:
        import json
        path = os.path.join(os.path.dirname(os.path.dirname(os.path.dirname(os.path.abspath(__file__)))), "corpus", "C08", "streams.jsonl")
        out = []
        try:
            with open(path) as f:
                for line in f:
                    line = line.strip()
                    if line:
                        out.append(bytes.fromhex(json.loads(line)["hex"]))
        except (OSError, ValueError, KeyError):
            out = []
        _corpus_cache = out
    return _corpus_cache
