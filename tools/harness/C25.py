"""C25 harness: the real vc2-bitstream-validator main() vs the in-process decoder."""
import contextlib
import io
import os
import random
import re
import shutil
import traceback

import common

PATTERNS = ["picture_%d.raw", "p%03d.raw", "%d", "x_%d.json", "frame-%i.raw", "out.%d.dat", "%s.raw", "pic%x.raw",
            # directories (created by the harness) with dots, relative paths, no extension on the last component
            "run.2/pic_%d", "./pic_%d", "v1.0/out/%d", "a.b/c.d/%03d.raw", "../SIB.x/p_%d", "dir/.hidden_%d", "dir/%d.tar.gz",
            # characters that are special to *other* template languages than printf
            "{take3}_%d.raw", "clip{}_%d.raw", "a}b_%d.raw", "{0}%d", "$HOME_%d.raw", "pic [%d].raw", "a b %d.raw", "%%_%d.raw",
            "~%d.raw", "*%d?.raw", "é%d.raw"]
BAD_PATTERNS = ["picture.raw", "%d_%d.raw", "%(n)d.raw", "%z.raw", "100%.raw", "%"]


def run_main(argv):
    """Calls the real main(); returns (exit status or 'exception:<Class>', stdout, stderr)."""
    import importlib
    v = importlib.import_module('vc2_conformance.scripts.vc2_bitstream_validator')
    out, err = io.StringIO(), io.StringIO()
    try:
        with contextlib.redirect_stdout(out), contextlib.redirect_stderr(err):
            try:
                rc = v.main(argv)
            except SystemExit as e:
                rc = "SystemExit:%r" % (e.code,)
    except common.OutOfScope:
        return "out-of-scope", out.getvalue(), err.getvalue()
    except BaseException as e:
        return "exception:" + type(e).__name__, out.getvalue(), err.getvalue() + traceback.format_exc()[-600:]
    return rc, out.getvalue(), err.getvalue()


def one_case(job):
    seed, idx, workdir = job
    rng = random.Random((seed << 20) + idx + 2525)
    res = {"idx": idx, "problems": []}
    d = os.path.join(workdir, "case%05d" % idx)
    try:
        common.install_size_guards()
        from vc2_conformance import file_format
        shutil.rmtree(d, ignore_errors=True)
        os.makedirs(d)
        desc, data, pics = common.encoder_stream(rng) if rng.random() < 0.78 else common.deep_lossless_stream(rng)
        kind = "conformant"
        r0 = rng.random()
        if r0 < 0.12:
            # an error located at the very start of the file: wrong (non-zero) next_parse_offset in the first parse_info
            kind = "first-npo-wrong"
            wrong = rng.choice([14, 15, len(data), 13 + rng.randrange(1, 40)])
            data = data[:5] + wrong.to_bytes(4, "big") + data[9:]
        elif r0 < 0.16:
            # empty and tiny files (shorter than one parse_info header)
            kind = "tiny-file"
            data = rng.choice([b"", b"", b"B", b"BBCD", b"BBCD\x10", data[:12], data[:13], b"\x00" * 13, b"BBCD\x10" + b"\x00" * 8])
        elif r0 < 0.25:
            kind, data = common.degenerate_stream(rng)
        elif r0 < 0.6:
            kind, data = common.mutate(data, rng)
        res["kind"] = kind
        res["config"] = desc
        path = os.path.join(d, "stream.vc2")
        with open(path, "wb") as f:
            f.write(data)
        bad_pattern = rng.random() < 0.08
        pattern = rng.choice(BAD_PATTERNS if bad_pattern else PATTERNS)
        res["pattern"] = pattern
        try:
            verdict, exc, out_pics, vstate = common.validate(data)
        except common.OutOfScope:
            res["status"] = "out-of-scope"
            return res
        res["verdict"] = verdict
        # relative patterns are resolved against the case directory (each worker is its own process)
        os.chdir(d)
        pattern = pattern.replace("SIB", "sib%05d" % idx)
        for sub in ("run.2", "v1.0/out", "a.b/c.d", "../sib%05d.x" % idx, "dir"):
            os.makedirs(os.path.join(d, sub), exist_ok=True)
        if not bad_pattern and not pattern.startswith((".", "/")) and rng.random() < 0.5:
            pattern = os.path.join(d, pattern)   # absolute variant
        res["pattern"] = pattern
        # the status line (on by default, written to stderr) is part of the command: run with and without it
        argv = [path] + rng.choice([["--no-status"], ["--quiet"], [], []]) + ["--output", pattern]
        if rng.random() < 0.3:
            argv.append("-v")
        res["argv"] = argv[1:]
        rc, out, err = run_main(argv)
        res["rc"] = rc
        if rc == "out-of-scope":
            res["status"] = "out-of-scope"
            return res
        if bad_pattern:
            # an unusable pattern must be refused cleanly by the argument parser (or be usable)
            if isinstance(rc, str) and rc.startswith("exception:"):
                res["problems"].append(("validator-bad-output-pattern-uncaught", "pattern %r: %s %s" % (pattern, rc, err[-300:])))
            elif rc == 3:
                res["problems"].append(("validator-internal-error-status", "pattern %r: status 3: %s" % (pattern, err[-300:])))
            res["status"] = "bad-pattern"
            return res
        if isinstance(rc, str):
            res["problems"].append(("validator-main-uncaught-exception", "%s: %s" % (rc, err[-400:])))
        elif rc == 3:
            res["problems"].append(("validator-internal-error-status", err[-400:]))
        elif verdict == "accept":
            if rc != 0:
                res["problems"].append(("validator-exit-nonzero-on-conformant-stream", "rc=%r %s" % (rc, err[-300:])))
        elif verdict.startswith("conformance:"):
            if rc != 2:
                res["problems"].append(("validator-exit-not-2-on-nonconformant-stream", "rc=%r verdict=%s" % (rc, verdict)))
            m = re.search(r"Conformance error at bit offset (\d+)", out)
            if not m:
                res["problems"].append(("validator-no-located-explanation", out[:200]))
            elif not (0 <= int(m.group(1)) <= 8 * len(data) + 8):
                res["problems"].append(("validator-offset-outside-file", "offset %s, file %d bytes" % (m.group(1), len(data))))
            else:
                # the location must be the one the decoder reports: the error's own offending offset
                # when it has one (0 is a legitimate offset), else the read position at the failure
                from vc2_conformance.bitstream.io import to_bit_offset
                from vc2_conformance.decoder.io import tell as dtell
                exp = exc.offending_offset()
                if exp is None:
                    exp = to_bit_offset(*dtell(vstate))
                if int(m.group(1)) != exp:
                    res["problems"].append(("validator-reports-wrong-location", "reported bit offset %s, decoder says %d (%s)" % (
                        m.group(1), exp, verdict)))
            if "Details" not in out or "bitstream viewer" not in out:
                res["problems"].append(("validator-explanation-incomplete", out[:200]))
        # files: one pair per decoded picture (also for the pictures decoded before an error), numbered from 0
        if not isinstance(rc, str) and rc in (0, 2):
            for i, (pic, vp, pcm) in enumerate(out_pics):
                fn = os.path.normpath(os.path.join(d, pattern % (i,)))
                mf, pf = file_format.get_metadata_and_picture_filenames(fn)
                if not (os.path.exists(mf) and os.path.exists(pf)):
                    res["problems"].append(("validator-picture-file-missing", "index %d (%s)" % (i, fn)))
                    continue
                rpic, rvp, rpcm = file_format.read(fn)
                if not (common.pictures_equal(rpic, pic) and rpic["pic_num"] == pic["pic_num"] and dict(rvp) == dict(vp) and rpcm == pcm):
                    res["problems"].append(("validator-picture-file-differs-from-decoder-output", "index %d" % i))
            extra = os.path.normpath(os.path.join(d, pattern % (len(out_pics),)))
            mf, pf = file_format.get_metadata_and_picture_filenames(extra)
            if os.path.exists(mf) or os.path.exists(pf):
                res["problems"].append(("validator-extra-picture-file", "index %d exists" % len(out_pics)))
        res["n_pics"] = len(out_pics)
        res["status"] = "checked"
        return res
    except common.OutOfScope:
        res["status"] = "out-of-scope"
        return res
    except Exception as e:
        res["status"] = "harness-exception"
        res["detail"] = traceback.format_exc()[-1200:]
        return res
    finally:
        os.chdir("/")
        shutil.rmtree(d, ignore_errors=True)
        shutil.rmtree(os.path.join(os.path.dirname(d), "sib%05d.x" % idx), ignore_errors=True)


def run(ctx):
    ctx.extra["rule"] = (
        "random small encoder streams (common.encoder_stream), 55% mutated once (bit flip, byte set, truncation, insert/delete, "
        "parse code / offset / header mutation); written to a file; the REAL main() is called in-process with a random output "
        "filename pattern (8% unusable patterns); compared with the in-process decoder: exit status, located explanation, one "
        "file pair per decoded picture numbered from 0 with identical content; non-trivial = case where the decoder produced >= 1 "
        "picture or a conformance error; distinct by case index")
    n = ctx.pick(160, 4000)
    results = common.pmap(one_case, [(ctx.seed, i, ctx.workdir) for i in range(n)])
    for r in results:
        st = r.get("status", "?")
        ctx.count(1, key=r["idx"] if (r.get("n_pics") or str(r.get("verdict", "")).startswith("conformance")) else None,
                  bucket="%s/%s" % (st, str(r.get("verdict", "-")).split(":")[0]))
        ctx.distribution["mutation:" + str(r.get("kind"))] = ctx.distribution.get("mutation:" + str(r.get("kind")), 0) + 1
        if st == "harness-exception":
            ctx.obligation("harness:C25 case %d" % r["idx"], False, "harness", r.get("detail", ""))
        for key, detail in r["problems"]:
            ctx.violation(key, {"seed": ctx.seed, "idx": r["idx"], "kind": r.get("kind"), "pattern": r.get("pattern"), "argv": r.get("argv"),
                                "verdict": r.get("verdict")}, detail, observed=r.get("rc"))
    for r in results[:4]:
        ctx.sample({k: r.get(k) for k in ("idx", "kind", "pattern", "verdict", "rc", "n_pics", "status")})
    ctx.trusted.append("exit-status/numbering logic proved on Model/Cli.v; the real main(), argparse, file I/O and the JSON/raw "
                       "writers are exercised by the differential run only")


def replay(ctx, data):
    inp = data["input"]
    r = one_case((inp["seed"], inp["idx"], ctx.workdir))
    print(r)
    return 1 if r["problems"] else 0
