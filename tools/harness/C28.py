"""C28 harness: codec-features CSV reading either succeeds in-domain or explains.

Correspondence (tie C) of Model/CsvFeatures.v with vc2_conformance.codec_features
(read_codec_features_csv, read_dict_list_csv, spreadsheet_column_names) and the property
oracle on the implementation:

  * every CSV text is fed to the REAL read_codec_features_csv; any exception other than
    InvalidCodecFeaturesError is a violation (key = <innermost codec_features function>:<exception class>);
  * every returned CodecFeatures is checked against an independent statement of `in_domain`
    (live enums, documented minimums, picture_bytes iff lossy, matrix shape, unique names);
  * the same text is run through Python's csv.reader by the harness, every cell is tokenised
    with the text-level primitives (str.strip, int, str.lower, the bool words, str.split -
    re-implemented here, NOT taken from the code under test) and Coq evaluates the model on the
    tokenised rows with the LIVE enum/default tables; outcome, every field of every configuration,
    and for rejections the error class, field and column name must agree.
"""
import csv
import glob
import hashlib
import io
import json
import os
import traceback
from itertools import islice

from vlib import cz, cbool, clist, copt, VERIF

IMPORTS = ["Model.CsvFeatures", "Corr.C28"]

# (enum_id constructor in the model, class name in vc2_data_tables)
ENUMS = [
    ("ELevels", "Levels"), ("EProfiles", "Profiles"), ("EPictureCodingModes", "PictureCodingModes"),
    ("EWaveletFilters", "WaveletFilters"),
    ("EColorDifferenceSamplingFormats", "ColorDifferenceSamplingFormats"),
    ("EBaseVideoFormats", "BaseVideoFormats"), ("ESourceSamplingModes", "SourceSamplingModes"),
    ("EPresetColorPrimaries", "PresetColorPrimaries"), ("EPresetColorMatrices", "PresetColorMatrices"),
    ("EPresetTransferFunctions", "PresetTransferFunctions"),
]

# documented domains (docs/source/user_guide/generating_test_cases.rst, CodecFeatures docstring):
# ("enum", class name) | ("min", minimum) | ("bool",)
BASIC_FIELDS = [
    ("level", ("enum", "Levels")), ("profile", ("enum", "Profiles")),
    ("picture_coding_mode", ("enum", "PictureCodingModes")),
    ("wavelet_index", ("enum", "WaveletFilters")), ("wavelet_index_ho", ("enum", "WaveletFilters")),
    ("dwt_depth", ("min", 0)), ("dwt_depth_ho", ("min", 0)), ("slices_x", ("min", 1)), ("slices_y", ("min", 1)),
    ("fragment_slice_count", ("min", 0)), ("lossless", ("bool",)),
]
VP_FIELDS = [
    ("frame_width", ("min", 1)), ("frame_height", ("min", 1)),
    ("color_diff_format_index", ("enum", "ColorDifferenceSamplingFormats")),
    ("source_sampling", ("enum", "SourceSamplingModes")), ("top_field_first", ("bool",)),
    ("frame_rate_numer", ("min", 1)), ("frame_rate_denom", ("min", 1)),
    ("pixel_aspect_ratio_numer", ("min", 1)), ("pixel_aspect_ratio_denom", ("min", 1)),
    ("clean_width", ("min", 0)), ("clean_height", ("min", 0)), ("left_offset", ("min", 0)), ("top_offset", ("min", 0)),
    ("luma_offset", ("min", 0)), ("luma_excursion", ("min", 1)),
    ("color_diff_offset", ("min", 0)), ("color_diff_excursion", ("min", 1)),
    ("color_primaries_index", ("enum", "PresetColorPrimaries")),
    ("color_matrix_index", ("enum", "PresetColorMatrices")),
    ("transfer_function_index", ("enum", "PresetTransferFunctions")),
]
OTHER_FIELDS = ["name", "base_video_format", "picture_bytes", "quantization_matrix"]
ALL_FIELDS = [f for f, _ in BASIC_FIELDS] + [f for f, _ in VP_FIELDS] + OTHER_FIELDS
FIELD_SPEC = dict(BASIC_FIELDS + VP_FIELDS)
FIELD_SPEC.update({"base_video_format": ("enum", "BaseVideoFormats"), "picture_bytes": ("min", 1),
                   "quantization_matrix": ("matrix",), "name": ("name",)})
CODEC_FEATURES_KEYS = set([f for f, _ in BASIC_FIELDS] + ["name", "video_parameters", "picture_bytes", "quantization_matrix"])
ORIENTS = {"L": "oL", "LL": "oLL", "H": "oH", "HL": "oHL", "LH": "oLH", "HH": "oHH"}


def impl():
    import vc2_data_tables as tables
    import vc2_conformance.codec_features as cf
    from vc2_conformance.pseudocode.video_parameters import set_source_defaults
    return tables, cf, set_source_defaults


# ------------------------------------------------------------------ text-level primitives (oracles)
def py_int(s):
    try:
        return int(s)
    except ValueError:
        return None


def py_bool(s):
    low = s.lower()
    if low in ("1", "true", "t", "y", "yes"):
        return True
    if low in ("0", "false", "f", "n", "no"):
        return False
    return None


MAX_DIGITS = 1500


def too_big_for_coq(rows):
    for r in rows:
        for c in r:
            if len(c) > MAX_DIGITS:
                for w in [c.strip()] + c.split():
                    i = py_int(w) if len(w) > MAX_DIGITS else None
                    if i is not None and abs(i) >= 10 ** MAX_DIGITS:
                        return True
    return False


def tokenise(text):
    s = text.strip()
    return (s, s.lower() == "default", py_int(s), py_bool(s), [py_int(w) for w in s.split()])


# ------------------------------------------------------------------ Coq literals
def enc_bytes(s):
    """Injective (up to SHA-1) short encoding of a text as bytes; keeps emptiness and a leading '#'."""
    b = s.encode("utf-8", "surrogatepass")
    if len(b) > 40 or b[:1] == b"\x01" or b[:2] == b"#\x01":
        b = (b"#" if b[:1] == b"#" else b"") + b"\x01" + hashlib.sha1(b).hexdigest()[:16].encode()
    return b


def cs(s):
    b = enc_bytes(s)
    if all(32 <= x < 127 and x != 34 for x in b):
        return '"%s"' % b.decode()
    return "(bs [%s])" % ";".join(str(x) for x in b)


def cvalue(v):
    return "(VB %s)" % cbool(v) if isinstance(v, bool) else "(VZ %s)" % cz(v)


def cmatrix(m):
    return "[" + "; ".join("(%s, [%s])" % (cz(l), "; ".join("(%s, %s)" % (ORIENTS[o], cz(v)) for o, v in es)) for l, es in m) + "]"


class Interner(object):
    """Per-shard table of shared literals: string literals are the expensive part of elaborating a case
    file (Coq interprets each one by reduction), so every distinct string / cell / row is defined once."""

    def __init__(self):
        self.defs = []
        self.map = {}

    def _get(self, kind, key, ty, lit):
        k = (kind, key)
        if k not in self.map:
            name = "%s%d" % (kind, len(self.map))
            self.defs.append("Definition %s : %s := %s." % (name, ty, lit()))
            self.map[k] = name
        return self.map[k]

    def s(self, text):
        return self._get("s", enc_bytes(text), "string", lambda: cs(text))

    def cell(self, t):
        s, d, i, b, ws = t
        if s == "" and not d and i is None and b is None and ws == []:
            return "E"

        def lit():
            if i is None and b is None and ws == [None]:
                return "%s %s" % ("D" if d else "W", self.s(s))
            if not d and i is not None and b is None and ws == [i]:
                return "K %s %s" % (self.s(s), cz(i))
            return "C %s %s %s %s %s" % (self.s(s), cbool(d), copt(i), copt(b, cbool), clist(ws, copt))
        return self._get("c", repr(t), "cell", lit)

    def row(self, row):
        cells = tuple(self.cell(tokenise(c)) for c in row)
        return self._get("r", cells, "list cell", lambda: "[%s]" % "; ".join(cells))

    def rows(self, rows):
        return "[%s]" % "; ".join(self.row(r) for r in rows)

    def config(self, c):
        return "(mkConfig %s %s %s %s %s %s)" % (
            self.s(c["name"]), " ".join(cz(c[f]) for f, _ in BASIC_FIELDS[:-1]), cbool(c["lossless"]),
            clist(c["vp"], cvalue), copt(c["picture_bytes"]), copt(c["qm"], cmatrix))

    def obs(self, o):
        if o[0] == "ok":
            return "(OOk [%s])" % "; ".join(self.config(x) for x in o[1])
        if o[0] == "invalid":
            return "(OInvalid %s %s %s)" % (o[1], self.s(o[2]), self.s(o[3]))
        return "OInvalidUnknown"

    def text(self):
        return "\n".join(self.defs) + "\n"


def sharded_check(ctx, name, check, ty, items, build, shard, base_defs):
    """ctx.coq_check_cases on shards that each carry their own interned definitions, in parallel.
    Returns the sorted indices (into items) where the check is false, None if a shard failed."""
    import concurrent.futures
    from vlib import NPROC
    jobs = []
    for k in range(0, len(items), shard):
        interner = Interner()
        lits = [build(interner, it) for it in items[k:k + shard]]
        jobs.append((k, "%s%02d" % (name, k // shard), base_defs + interner.text(), lits))
    before = (ctx.corr_cases, ctx.corr_mismatches)
    bad, failed = [], False
    with concurrent.futures.ThreadPoolExecutor(max_workers=NPROC) as ex:
        futs = {ex.submit(ctx.coq_check_cases, j[1], IMPORTS, check, j[3], ty, len(j[3]), 900, j[2]): j for j in jobs}
        for fut in concurrent.futures.as_completed(futs):
            r = fut.result()
            if r is None:
                failed = True
            else:
                bad.extend(futs[fut][0] + i for i in r)
    ctx.corr_cases, ctx.corr_mismatches = before[0] + len(items), before[1] + len(bad)
    return None if failed else sorted(bad)


def dump_tables(tables, set_source_defaults):
    """The live enum member lists and set_source_defaults() rows, as a Coq `tables` literal and as Python data."""
    enums = {}
    arms = []
    for ctor, cls in ENUMS:
        members = [(e.name, int(e)) for e in getattr(tables, cls)]
        enums[cls] = members
        arms.append("| %s => [%s]" % (ctor, "; ".join("(%s, %s)" % (cs(n), cz(v)) for n, v in members)))
    rows = []
    defaults = {}
    for b in tables.BaseVideoFormats:
        try:
            vp = set_source_defaults(b)
        except Exception:
            continue  # the model then has no row: KeyError -> Crash, as in the code
        vals = []
        for f, _ in VP_FIELDS:
            if f not in vp:
                break
            v = vp[f]
            vals.append(bool(v) if isinstance(v, bool) else int(v))
        defaults[int(b)] = vals
        rows.append("(%s, %s)" % (cz(int(b)), clist(vals, cvalue)))
    lit = "(mkTables (fun e => match e with\n  %s\n  end)\n  [%s])" % ("\n  ".join(arms), ";\n   ".join(rows))
    return lit, enums, defaults


# ------------------------------------------------------------------ running the implementation
def feed(text, mode):
    """How the text reaches the reader: 'universal' = a file opened in text mode (newline translation,
    as the vc2-test-case-generator CLI does); 'raw' = io.StringIO(text) (lines end at '\\n' only)."""
    if mode == "universal":
        return io.StringIO(text, newline=None)
    return io.StringIO(text)


def csv_rows(text, mode):
    try:
        return [list(r) for r in csv.reader(feed(text, mode))]
    except csv.Error:
        return None


def site_of(e):
    site = "read_codec_features_csv"
    for fr in traceback.extract_tb(e.__traceback__):
        if fr.filename.endswith("codec_features.py"):
            site = fr.name
    return site


def run_real(cf, text, mode):
    try:
        return ("ok", cf.read_codec_features_csv(feed(text, mode)))
    except cf.InvalidCodecFeaturesError as e:
        return ("invalid", str(e))
    except Exception as e:  # anything else is what the property forbids
        cls = "csv.Error" if isinstance(e, csv.Error) else type(e).__name__
        return ("other", "%s:%s" % (site_of(e), cls), "%s: %s" % (type(e).__name__, str(e)[:200]))


def classify(msg, rows_none, names=None):
    """InvalidCodecFeaturesError message -> (err_kind, field, column name) or None."""
    if rows_none:
        return ("ECsvMalformed", "", "")
    for prefix, kind in (("Missing entry for '", "EMissing"), ("Invalid entry for '", "EInvalid")):
        if msg.startswith(prefix):
            rest = msg[len(prefix):]
            for f in ALL_FIELDS:
                pre = f + "' in '"
                if rest.startswith(pre):
                    rest2 = rest[len(pre):]
                    if kind == "EMissing":
                        if rest2.endswith("' column"):
                            return (kind, f, rest2[: -len("' column")])
                    elif "' column: " in rest2:
                        # a column NAME may itself contain "' column: ": every split position is a candidate;
                        # prefer one that is a name actually present in the file
                        parts = rest2.split("' column: ")
                        cands = ["' column: ".join(parts[:i]) for i in range(1, len(parts))]
                        for c in cands:
                            if c in (names or ()):
                                return (kind, f, c)
                        return (kind, f, cands[0])
            return None
    if msg.startswith("Name '") and msg.endswith("' used more than once"):
        n = msg[len("Name '"): -len("' used more than once")]
        return ("EDupName", n, n)
    pre = "Entry provided for 'picture_bytes' when lossless mode specified for '"
    if msg.startswith(pre) and msg.endswith("' column"):
        return ("ELosslessPictureBytes", "picture_bytes", msg[len(pre): -len("' column")])
    if msg.startswith("Unrecognised row(s): "):
        return ("EUnrecognised", "", "")
    return None


def expected_shape(d, dh):
    want = [(0, ["LL"] if dh == 0 else ["L"])]
    want += [(n, ["H"]) for n in range(1, dh + 1)]
    want += [(n, ["HL", "LH", "HH"]) for n in range(dh + 1, dh + d + 1)]
    return want


def is_int(v):
    return isinstance(v, int) and not isinstance(v, bool)


def in_domain(tables, enums, key, f):
    """Independent statement of the property on one returned CodecFeatures; returns a list of (field, problem)."""
    bad = []
    if set(f.keys()) != CODEC_FEATURES_KEYS:
        bad.append(("keys", "fields present: %r" % sorted(f.keys())))
        return bad
    if f["name"] != key:
        bad.append(("name", "dictionary key %r != name %r" % (key, f["name"])))

    def chk(field, spec, v, strict_enum):
        if spec[0] == "enum":
            if not is_int(v) or int(v) not in [x for _, x in enums[spec[1]]]:
                bad.append((field, "%r is not a member of %s" % (v, spec[1])))
            elif strict_enum and not isinstance(v, getattr(tables, spec[1])):
                bad.append((field, "%r is not an instance of %s" % (v, spec[1])))
        elif spec[0] == "min":
            if not is_int(v) or v < spec[1]:
                bad.append((field, "%r is not an integer >= %d" % (v, spec[1])))
        elif spec[0] == "bool":
            if not isinstance(v, bool):
                bad.append((field, "%r is not a bool" % (v,)))

    for field, spec in BASIC_FIELDS:
        chk(field, spec, f[field], True)
    vp = f["video_parameters"]
    if set(vp.keys()) != set(n for n, _ in VP_FIELDS):
        bad.append(("video_parameters", "keys %r" % sorted(vp.keys())))
    else:
        for field, spec in VP_FIELDS:
            chk(field, spec, vp[field], False)
    if isinstance(f["lossless"], bool):
        if f["lossless"] and f["picture_bytes"] is not None:
            bad.append(("picture_bytes", "present (%r) though lossless" % (f["picture_bytes"],)))
        if not f["lossless"]:
            chk("picture_bytes", ("min", 1), f["picture_bytes"], False)
    qm = f["quantization_matrix"]
    if qm is not None and is_int(f["dwt_depth"]) and is_int(f["dwt_depth_ho"]):
        try:
            got = sorted((l, sorted(es.keys())) for l, es in qm.items())
            vals_ok = all(is_int(v) for es in qm.values() for v in es.values())
        except Exception:
            got, vals_ok = None, False
        d, dh = f["dwt_depth"], f["dwt_depth_ho"]
        if d + dh > 100000:
            want = None  # cannot have been satisfied by a text of bounded size
        else:
            want = sorted((l, sorted(os_)) for l, os_ in expected_shape(d, dh))
        if got != want or not vals_ok:
            bad.append(("quantization_matrix", "levels/orientations %r for depths (%r, %r)" % (got, d, dh)))
    return bad


def canon(res):
    """OrderedDict of CodecFeatures -> list of plain dicts for the Coq literal (None if not printable)."""
    out = []
    try:
        for key, f in res.items():
            c = {"name": f["name"]}
            for field, spec in BASIC_FIELDS:
                v = f[field]
                if spec[0] == "bool":
                    if not isinstance(v, bool):
                        return None
                    c[field] = v
                else:
                    if not is_int(v):
                        return None
                    c[field] = int(v)
            vp = []
            for field, spec in VP_FIELDS:
                v = f["video_parameters"][field]
                if isinstance(v, bool):
                    vp.append(v)
                elif is_int(v):
                    vp.append(int(v))
                else:
                    return None
            c["vp"] = vp
            pb = f["picture_bytes"]
            if pb is not None and not is_int(pb):
                return None
            c["picture_bytes"] = pb
            qm = f["quantization_matrix"]
            if qm is not None:
                qm = [(int(l), [(o, int(v)) for o, v in es.items()]) for l, es in qm.items()]
                if any(o not in ORIENTS for _, es in qm for o, _ in es):
                    return None
            c["qm"] = qm
            out.append(c)
    except Exception:
        return None
    return out


# ------------------------------------------------------------------ generators
def render(rows):
    buf = io.StringIO()
    csv.writer(buf, lineterminator="\n").writerows(rows)
    return buf.getvalue()


def render_raw(rows):
    return "".join(",".join(r) + "\n" for r in rows)


def load_bases(repo):
    paths = [os.path.join(repo, "tests", "sample_codec_features.csv"),
             os.path.join(repo, "tests", "sample_codec_features_invalid.csv")]
    paths += sorted(glob.glob(os.path.join(repo, "docs", "**", "*codec_features*.csv"), recursive=True))
    bases = []
    for p in paths:
        if os.path.exists(p):
            with open(p, encoding="utf-8-sig") as f:
                text = f.read()
            bases.append((os.path.relpath(p, repo), text, [list(r) for r in csv.reader(io.StringIO(text, newline=None))]))
    return bases


def is_data_row(r):
    return len(r) > 0 and r[0].strip() and not r[0].strip().startswith("#")


def project(rows, cols, keep_comments):
    out = []
    for r in rows:
        if not is_data_row(r):
            if keep_comments:
                out.append(r[:1] + [r[c] if c < len(r) else "" for c in cols])
            continue
        out.append([r[0]] + [r[c] if c < len(r) else "" for c in cols])
    return out


def cell_mutations(enums):
    big = str(2 ** 70)
    muts = [
        "", " ", "default", "DEFAULT", " Default ", "defaul", "defaults",
        "-1", "0", "1", "2", "3", "5", "64", "66", "99", "255", "1000000", big, "-" + big, "9" * 1200, "7" * 300,
        "1.5", "1.0", "1e3", "0x10", "+5", "-0", "007", "1_0", "_1", "1 ", "１２", "٣", "²", "1\x00",
        "inf", "-inf", "Infinity", "-Infinity", "1e999", "-1e999", "NaN", "1e309", "0e0", "1E2", ".5", "5.", "1e-400",
        # names of attributes that every enum class / int has but that are not members
        "__doc__", "__class__", "__module__", "__name__", "__members__", "__dict__", "mro", "real", "imag", "numerator",
        "denominator", "bit_length", "to_bytes", "from_bytes", "conjugate", "name", "value", "_value_", "__init__",
        "abc", "None", "nan", "TRUE", "true", "False", "FALSE", "yes", "No", "T", "f", "Y", "maybe", "truee",
        "high_quality", "HIGH_QUALITY", "High_Quality", "high quality", "low_delay", "hd1080p_50", "HD1080P_50",
        "custom_format", "le_gall_5_3", "fidelity", "color_4_2_0", "interlaced", "uhdtv", "does_not_exist",
        "unconstrained", "Levels.unconstrained", "1 2 3 4", "1  2\t3 4", "0 0 0 0 0 0 0", "1 x 3 4", "4 2 2 0 4 4 2",
        "1 1 1 1 1 1 1 1 1 1", "\x00", "a\x00b", "é", "\ud800", '"', "'", "a,b", "a\nb", "a\r\nb", "#x", "x" * 1000,
        "' column: x", "  1  ", "\x1f2\x1f",
    ]
    for cls, members in sorted(enums.items()):
        muts.append(members[-1][0])
        muts.append(str(members[-1][1]))
        muts.append(str(members[-1][1] + 1))
        muts.append(members[0][0].upper())
    return muts


def matrix_text(rng, d, dh, delta=0, junk=False):
    n = 1 + dh + 3 * d + delta
    words = [str(rng.randrange(0, 9)) for _ in range(max(0, n))]
    if junk and words:
        words[rng.randrange(len(words))] = rng.choice(["x", "1.5", "", "-", "0x1"])
    sep = rng.choice([" ", "  ", "\t", " \n "])
    return sep.join(words)


def random_column(rng, enums, corrupt):
    """A column {field: text} with mostly in-domain values in random spellings."""
    def enum_text(cls):
        n, v = rng.choice(enums[cls])
        return rng.choice([n, str(v), n, "0%d" % v, "+%d" % v])

    def bool_text():
        return rng.choice(["1", "true", "T", "y", "YES", "0", "False", "f", "N", "no", "TRUE", "FALSE"])

    def int_text(minimum):
        v = rng.choice([minimum, minimum + 1, rng.randrange(minimum, minimum + 2000), 2 ** rng.randrange(1, 80)])
        return rng.choice([str(v), "+%d" % v, "0%d" % v, str(v)])

    col = {}
    for f, spec in BASIC_FIELDS:
        col[f] = enum_text(spec[1]) if spec[0] == "enum" else (bool_text() if spec[0] == "bool" else int_text(spec[1]))
    d, dh = rng.randrange(0, 5), rng.randrange(0, 4)
    col["dwt_depth"], col["dwt_depth_ho"] = str(d), str(dh)
    col["base_video_format"] = enum_text("BaseVideoFormats")
    for f, spec in VP_FIELDS:
        if rng.random() < 0.5:
            col[f] = rng.choice(["default", "DEFAULT", "Default"])
        else:
            col[f] = enum_text(spec[1]) if spec[0] == "enum" else (bool_text() if spec[0] == "bool" else int_text(spec[1]))
    lossless = py_bool(col["lossless"])
    if not lossless:
        col["picture_bytes"] = int_text(1)
    r = rng.random()
    if r < 0.3:
        col["quantization_matrix"] = rng.choice(["default", "DEFAULT"])
    else:
        col["quantization_matrix"] = matrix_text(rng, d, dh)
    if rng.random() < 0.7:
        col["name"] = rng.choice(["a", "b", "cfg", "column_C", "column_B", "x y", "é", "n%d" % rng.randrange(5)])
        if rng.random() < 0.3:
            # names are free text that ends up inside error messages: template / pattern metacharacters
            col["name"] = rng.choice(["{}", "hd {1080p50}", "{0}{1}{2}", "a}b", "{", "{!x}", "{name}", "%s", "%d %(x)s", "100%",
                                      "\\1", "$name", "${x}", "{{}}", "{0.__class__}"]) + rng.choice(["", "", " %d" % rng.randrange(4)])
    for _ in range(corrupt):
        k = rng.randrange(8)
        if k == 0:
            col["quantization_matrix"] = matrix_text(rng, d, dh, delta=rng.choice([-1, 1, -3, 3, 2]))
        elif k == 1:
            col["quantization_matrix"] = matrix_text(rng, d, dh, junk=True)
        elif k == 2:
            col["picture_bytes"] = rng.choice(["0", "1", "default", "", "100"])
        elif k == 3:
            col["dwt_depth" if rng.random() < 0.5 else "dwt_depth_ho"] = rng.choice(["0", "1", "2", "-1", str(10 ** 30), "7"])
        elif k == 4:
            col.pop(rng.choice(sorted(col)), None)
        elif k == 5:
            col[rng.choice(["extra", "Level", "picture_byte", "names", "video_parameters"])] = "1"
        elif k == 6:
            f = rng.choice([f for f, _ in BASIC_FIELDS])
            col[f] = rng.choice(["default", "-1", "0", "x", "1.0", "99999"])
        else:
            f = rng.choice([f for f, _ in VP_FIELDS])
            col[f] = rng.choice(["-1", "0", "x", "7", "true", "99"])
    return col


def columns_to_rows(rng, cols, shuffle=True):
    keys = []
    for c in cols:
        for k in c:
            if k not in keys:
                keys.append(k)
    if shuffle:
        rng.shuffle(keys)
    return [[k] + [c.get(k, "") for c in cols] for k in keys]


def random_csv_text(rng):
    kind = rng.randrange(6)
    alphabet = ["a", "b", "1", "0", "-", " ", ",", ",", ",", '"', "\n", "\n", "\r", "\t", "#", "\x00", "é", "default",
                "level", "name", "profile", "'", "\\", ";", "\r\n", "high_quality", "3", "TRUE", "\ud800", " ", "\x0c"]
    if kind == 0:
        return "".join(rng.choice(alphabet) for _ in range(rng.randrange(0, 80)))
    if kind == 1:  # grid of random tokens
        toks = ["", "1", "0", "default", "x", "level", "name", "3", "high_quality", " ", "#", '"q"', '"a\nb"', '""', "-1", "0 0 0 0"]
        return "".join(",".join(rng.choice(toks) for _ in range(rng.randrange(0, 6))) + rng.choice(["\n", "\r\n", "\n", "\r"])
                       for _ in range(rng.randrange(0, 12)))
    if kind == 2:  # the field names in order with random values
        vals = ["0", "1", "3", "default", "", "x", "TRUE", "2", "100"]
        return "".join("%s,%s\n" % (f, ",".join(rng.choice(vals) for _ in range(rng.randrange(1, 4)))) for f in ALL_FIELDS)
    if kind == 3:  # very long fields, below and above csv's field size limit (131072)
        n = rng.choice([1000, 131071, 131072, 131073, 200000])
        where = rng.randrange(3)
        long = rng.choice(["x", "1", " "]) * n
        if where == 0:
            return "level,%s\n" % long
        if where == 1:
            return "%s,1\nlevel,0\n" % long
        return 'name,"%s"\nlevel,0\n' % long
    if kind == 4:  # quotes / embedded newlines
        return rng.choice(['level,"0', 'level,"0"\n"profile",3\n', 'le"vel,0\n', 'level,"0""1"\n', '"na\nme",x\nlevel,0\n',
                           'level,0\rprofile,3\n', 'level,0\r\nprofile,3\r\n', 'a\rb,c\n', 'level,0\x00\n', "\x00", "﻿level,0\n",
                           '"a"b,c\n', 'a,"b"c"\n', ',\n,,\n', "\n\n\n", ",,,level\n"])
    return "".join(rng.choice(alphabet) for _ in range(rng.randrange(80, 400)))


def generate(ctx, bases, enums):
    """Yields (tag, text, mode)."""
    rng = ctx.rng
    cases = []

    def add(tag, text, mode=None):
        cases.append((tag, text, mode or ("universal" if rng.random() < 0.7 else "raw")))

    # -- corpus of past failures
    for p in sorted(glob.glob(os.path.join(VERIF, "corpus", "C28", "*.json"))):
        d = json.load(open(p))
        add("corpus", d["text"], d.get("mode", "raw"))
    # -- the files as they are, each column alone, column pairs
    for name, text, rows in bases:
        add("base", text, "universal")
        add("base", text, "raw")
        ncol = max(len(r) for r in rows) - 1
        for c in range(1, ncol + 1):
            add("base-col", render(project(rows, [c], True)))
        add("base-rev", render(project(rows, list(range(ncol, 0, -1)), False)))
    # -- cell-by-cell mutation
    muts = cell_mutations(enums)
    sweep = []
    for bi, (name, text, rows) in enumerate(bases):
        ncol = max(len(r) for r in rows) - 1
        for ri, r in enumerate(rows):
            if is_data_row(r):
                for mi in range(len(muts)):
                    sweep.append((bi, ri, mi))
    rng.shuffle(sweep)
    n_sweep = ctx.pick(2200, min(len(sweep), 12000))
    seen = set()
    for bi, ri, mi in sweep:
        if len(seen) >= n_sweep:
            break
        name, text, rows = bases[bi]
        ncol = max(len(r) for r in rows) - 1
        field = rows[ri][0].strip()
        if ctx.quick:
            if (field, mi) in seen:
                continue
            seen.add((field, mi))
            cols = [rng.randrange(1, ncol + 1)]
        else:
            seen.add((bi, ri, mi))
            cols = list(range(1, ncol + 1))
        for c in cols:
            others = [rng.randrange(1, ncol + 1)] if rng.random() < 0.15 else []
            proj = project(rows, [c] + others, rng.random() < 0.15)
            for pr in proj:
                if is_data_row(pr) and pr[0].strip() == field:
                    pr[1] = muts[mi]
            add("cell:" + field, render(proj) if rng.random() < 0.9 else render_raw(proj))
    # -- structural mutations of rows / columns
    for k in range(ctx.pick(600, 6000)):
        name, text, rows = rng.choice(bases)
        ncol = max(len(r) for r in rows) - 1
        cols = rng.sample(range(1, ncol + 1), rng.randrange(1, min(3, ncol) + 1))
        proj = project(rows, cols, rng.random() < 0.3)
        data = [i for i, r in enumerate(proj) if is_data_row(r)]
        kind = rng.randrange(16)
        i = rng.choice(data)
        if kind == 0:
            del proj[i]
        elif kind == 1:
            proj.insert(rng.randrange(len(proj) + 1), list(proj[i]))
        elif kind == 2:  # duplicated row, second with other values / empty values
            dup = [proj[i][0]] + [rng.choice(["", "1", "default", "x", v]) for v in proj[i][1:]]
            proj.insert(rng.randrange(len(proj) + 1), dup)
        elif kind == 3:
            proj.insert(rng.randrange(len(proj) + 1), [rng.choice(["extra", "Level", "LEVEL", "picture_byte", "level ", " ", "names", "x" * 50])]
                        + [rng.choice(["1", "", "x"]) for _ in cols])
        elif kind == 4:
            rng.shuffle(proj)
        elif kind == 5:  # duplicate / defaulted / clashing names
            names = [rng.choice(["a", "a", "b", "", "", "column_B", "column_C", "column_D", "column_E", " a ", "A"]) for _ in cols]
            proj = [r for r in proj if not (is_data_row(r) and r[0].strip() == "name")]
            proj.insert(rng.randrange(len(proj) + 1), ["name"] + names)
        elif kind == 6:  # an entirely empty column in the middle
            at = rng.randrange(1, len(cols) + 2)
            proj = [r[:at] + [""] + r[at:] for r in proj]
        elif kind == 7:  # comment / blank rows
            proj.insert(rng.randrange(len(proj) + 1), rng.choice([["# c"] + ["x"] * len(cols), ["#level", "0"], [""] + ["x"] * len(cols), [], [" "], ["  # not a comment", "1"]]))
        elif kind == 8:  # ragged: cut a row short
            proj[i] = proj[i][: rng.randrange(0, len(proj[i]))]
        elif kind == 9:  # ragged: extra cells create further columns
            proj[i] = proj[i] + [rng.choice(["", "1", "x"]) for _ in range(rng.randrange(1, 4))]
        elif kind == 10:  # key spelling
            proj[i][0] = rng.choice([" %s ", "%s\t", " %s", "%s ", "#%s", "%s#"]) % proj[i][0]
            if rng.random() < 0.3:
                proj[i][0] = proj[i][0].upper()
        elif kind == 11:  # key only
            proj[i] = proj[i][:1]
        elif kind == 12:  # picture_bytes vs lossless
            for r in proj:
                if is_data_row(r) and r[0].strip() == "lossless":
                    r[1] = rng.choice(["TRUE", "FALSE", "1", "0", "y"])
                if is_data_row(r) and r[0].strip() == "picture_bytes":
                    r[1] = rng.choice(["", "1", "0", "default", "100", "-5"])
        elif kind == 13:  # matrix vs depths
            d, dh = rng.randrange(0, 4), rng.randrange(0, 3)
            for r in proj:
                if is_data_row(r) and r[0].strip() == "dwt_depth":
                    r[1] = str(d)
                if is_data_row(r) and r[0].strip() == "dwt_depth_ho":
                    r[1] = str(dh)
                if is_data_row(r) and r[0].strip() == "quantization_matrix":
                    r[1] = matrix_text(rng, d, dh, delta=rng.choice([0, 0, 0, 1, -1, 3]), junk=rng.random() < 0.15)
        elif kind == 14:  # values shifted one column to the right (first data column empty)
            proj = [r[:1] + [""] + r[1:] for r in proj]
        else:  # two mutations: delete one row, blank one cell
            del proj[i]
            j = rng.choice([x for x, r in enumerate(proj) if is_data_row(r)])
            proj[j][rng.randrange(1, len(proj[j]))] = ""
        add("struct:%d" % kind, render(proj))
    # -- default column names far to the right (B.., AA.., AAA..)
    for k in [0, 1, 24, 25, 26, 27, 51, 52, 675, 676, 700, 701, 702, 703, 1500] + [rng.randrange(0, 3000) for _ in range(ctx.pick(6, 60))]:
        add("wide", "level," + "," * k + rng.choice(["0", "x", "0\nprofile,%s3" % ("," * k)]) + "\n")
    # -- generated columns
    for k in range(ctx.pick(600, 8000)):
        ncols = rng.choice([1, 1, 1, 2, 2, 3, 5])
        corrupt = rng.choice([0, 0, 0, 1, 1, 2])
        cols = [random_column(rng, enums, corrupt if j == 0 or rng.random() < 0.3 else 0) for j in range(ncols)]
        add("generated:%d" % min(corrupt, 1), render(columns_to_rows(rng, cols)))
    # -- random CSV texts
    for k in range(ctx.pick(600, 8000)):
        add("random", random_csv_text(rng), rng.choice(["raw", "universal"]))
    return cases


# ------------------------------------------------------------------ the check
def evaluate(ctx, tables, cf, enums, tag, text, mode):
    """Run the implementation, apply the oracle; returns (rows, observation or None, outcome bucket)."""
    rows = csv_rows(text, mode)
    real = run_real(cf, text, mode)
    inp = {"text": text, "mode": mode}
    if real[0] == "other":
        ctx.violation(real[1], inp, "read_codec_features_csv raised %s (not InvalidCodecFeaturesError) [%s]" % (real[2], tag),
                      observed=real[2], expected="a result or InvalidCodecFeaturesError")
        return rows, None, "other:" + real[1]
    if real[0] == "invalid":
        # names of the columns as written in the file (the row whose key is "name", else defaults)
        names = set()
        for r in (rows or []):
            if r and r[0].strip() == "name":
                names.update(c.strip() for c in r[1:])
        k = classify(real[1], rows is None, names)
        if k is None:
            return rows, ("unknown",), "invalid:unclassified"
        return rows, ("invalid", k[0], k[1], k[2]), "invalid:" + k[0]
    res = real[1]
    problems = []
    try:
        items = list(res.items())
    except Exception as e:
        items = []
        problems.append(("result", "not a mapping: %r" % (e,)))
    # "unique names": every configuration column of the file must come back as its own configuration -- two
    # columns that end up with the same (explicit or defaulted) name may not silently overwrite one another.
    # The column list is the reader's own first stage (read_dict_list_csv), so no tokenisation is re-derived here.
    try:
        ncols = sum(1 for c in cf.read_dict_list_csv(feed(text, mode)) if c)   # entirely empty columns are skipped by design
    except Exception:
        ncols = None
    if ncols is not None and not problems and len(items) != ncols:
        ctx.violation("in-domain:names-not-unique", inp,
                      "the file has %d configuration columns but %d configurations were returned: columns with the same "
                      "name overwrote one another instead of being rejected [%s]" % (ncols, len(items), tag),
                      observed="%d configurations, names %r" % (len(items), [k for k, _ in items][:8]), expected="%d configurations or InvalidCodecFeaturesError" % ncols)
    for key, f in items:
        try:
            problems += [(key, fld, p) for fld, p in in_domain(tables, enums, key, f)]
        except Exception as e:
            problems.append((key, "?", "oracle could not inspect the value: %r" % (e,)))
    for p in problems[:3]:
        ctx.violation("in-domain:%s" % p[1], inp, "returned configuration %r outside its documented domain: %s [%s]" % (p[0], p[2], tag),
                      observed=p[2], expected="field in domain")
    c = canon(res)
    if c is None:
        if not problems:
            ctx.violation("in-domain:type", inp, "returned configuration holds values of unexpected types [%s]" % tag)
        return rows, None, "ok:unprintable"
    return rows, ("ok", c), "ok:%d" % min(len(c), 3)


def run(ctx):
    tables, cf, set_source_defaults = impl()
    from vlib import REPO
    ctx.extra["rule"] = (
        "inputs: corpus; the sample CSVs of /repo (tests + docs), each column alone; cell-by-cell mutation "
        "(every data row x ~110 replacement texts: empty, default spellings, malformed/negative/huge/float/"
        "unicode numbers, bool words, enum names and numbers in/out of range, wrong case, whitespace, NUL, quotes, "
        "newlines, long fields); structural mutation (deleted/duplicated/unknown/shuffled/comment/ragged rows, "
        "duplicate and defaulted names, empty columns, key spellings, picture_bytes vs lossless, matrix vs depths); "
        "far-right default column names; generated mostly-valid columns with custom matrices for depths 0..4/0..3; "
        "random CSV text (quotes, CR, NUL, fields around csv's 131072 limit). A case is non-trivial when csv.reader "
        "yields at least one non-empty column (distinct by text). Implementation outcome must be a result or "
        "InvalidCodecFeaturesError; results are checked against in_domain; model outcome must agree.")
    tab_lit, enums, defaults = dump_tables(tables, set_source_defaults)
    defs = "Open Scope string_scope.\nDefinition T : tables := %s.\n" % tab_lit

    # hypotheses of the theorems on the live tables
    ok = ctx.coq_eval("tables_ok", IMPORTS, "tables_ok T", defs=defs)
    ctx.obligation("corr:hypotheses defaults_completeb/defaults_in_domainb hold on the live vc2_data_tables", ok == "true",
                   "corr-shard", str(ok))

    # spreadsheet_column_names
    idxs = list(range(0, 800)) + [18277, 18278, 18279, 475253, 475254, 475255] + [ctx.rng.randrange(0, 500000) for _ in range(200)]
    top = max(idxs)
    names = list(islice(cf.spreadsheet_column_names(), top + 1))
    bad = ctx.coq_check_cases("colname", IMPORTS, "check_col_name", ["(%s, %s)" % (cz(i), cs(names[i])) for i in idxs],
                              shard=600, defs=defs)
    if bad:
        ctx.obligation("corr:col_name agrees with spreadsheet_column_names", False, "corr-shard",
                       "indices %r" % [idxs[i] for i in bad[:10]])
    ctx.count(len(idxs), bucket="col_name")

    import time
    t0 = time.time()
    bases = load_bases(REPO)
    if len(bases) < 3:
        ctx.note("only %d sample CSV files found under %s" % (len(bases), REPO))
    cases = generate(ctx, bases, enums)

    coq_cases, meta, dl_cases, dl_meta = [], [], [], []
    seen_viol = {}
    skipped = [0]
    for tag, text, mode in cases:
        nv = len(ctx.violations)
        rows, obs, bucket = evaluate(ctx, tables, cf, enums, tag, text, mode)
        # keep at most 3 violation records per key
        new = ctx.violations[nv:]
        del ctx.violations[nv:]
        for v in new:
            seen_viol[v["key"]] = seen_viol.get(v["key"], 0) + 1
            if seen_viol[v["key"]] <= 3:
                ctx.violations.append(v)
        nontrivial = rows is not None and any(is_data_row(r) and any(c.strip() for c in r[1:]) for r in rows)
        ctx.count(1, key=hashlib.sha1(text.encode("utf-8", "surrogatepass")).hexdigest() if nontrivial else None,
                  bucket="%s -> %s" % (tag.split(":")[0], bucket))
        if len(ctx.samples) < 4 and tag.startswith(("cell", "generated")) and len(text) < 1500:
            ctx.sample({"tag": tag, "mode": mode, "text": text, "outcome": bucket})
        if rows is not None and too_big_for_coq(rows):
            # integers of thousands of digits (the package lifts CPython's int-string limit): implementation
            # and oracle only; the decimal literal would dominate the Coq run
            skipped[0] += 1
            continue
        if obs is not None:
            coq_cases.append((rows, obs))
            meta.append((tag, text, mode, bucket))
        # read_dict_list_csv alone (it is not observable through the reader once a column is rejected)
        if rows is not None and (tag.startswith(("struct", "random", "base")) or len(dl_cases) < 150):
            try:
                cols = cf.read_dict_list_csv(feed(text, mode))
                dl_cases.append((rows, [list(c.items()) for c in cols]))
                dl_meta.append((tag, text, mode))
            except Exception:
                pass  # reported by evaluate() already

    ctx.note("%d cases with integer literals over %d digits were run on the implementation and the oracle only (not sent to Coq)" % (skipped[0], MAX_DIGITS))
    ctx.extra["t_implementation_and_oracle_s"] = round(time.time() - t0, 1)
    t0 = time.time()

    def save(kind, i, m):
        path = os.path.join(ctx.workdir, "mismatch_%s_%d.json" % (kind, i))
        with open(path, "w") as f:
            json.dump({"tag": m[0], "text": m[1], "mode": m[2]}, f)
        return path

    bad = sharded_check(
        ctx, "reader", "check T", "option (list (list cell)) * obs", coq_cases,
        lambda I, c: "(%s, %s)" % ("None" if c[0] is None else "Some %s" % I.rows(c[0]), I.obs(c[1])),
        ctx.pick(250, 300), defs)
    for i in (bad or [])[:10]:
        # the implementation's outcome at this input already passed the property oracle above
        # (a result in domain or InvalidCodecFeaturesError), so this is a model/code difference only
        ctx.obligation("corr:read_codec_features_csv agrees with read_model [%s]" % meta[i][0], False, "corr-shard",
                       "implementation outcome %s; input saved in %s; text=%r" % (meta[i][3], save("reader", i, meta[i]), meta[i][1][:600]))
    bad2 = sharded_check(
        ctx, "dictlist", "check_dict_list", "list (list cell) * list (list (string * string))", dl_cases,
        lambda I, c: "(%s, [%s])" % (I.rows(c[0]), "; ".join("[%s]" % "; ".join("(%s, %s)" % (I.s(k), I.s(v)) for k, v in col) for col in c[1])),
        ctx.pick(250, 300), "Open Scope string_scope.\n")
    for i in (bad2 or [])[:10]:
        ctx.obligation("corr:read_dict_list_csv agrees with read_dict_list [%s]" % dl_meta[i][0], False, "corr-shard",
                       "input saved in %s; text=%r" % (save("dictlist", i, dl_meta[i]), dl_meta[i][1][:600]))
    ctx.count(len(dl_cases), bucket="read_dict_list_csv")
    ctx.extra["t_coq_shards_s"] = round(time.time() - t0, 1)

    ctx.trusted.append(
        "C28: csv.reader (rows of a text; csv.Error), str.strip/lower/split and int() are oracles: the harness applies "
        "CPython's own to the same cells (tokeniser in tools/harness/C28.py) and the theorems hold for every behaviour of "
        "them that returns a value or raises ValueError (csv.reader: rows or csv.Error); enum member lists and "
        "set_source_defaults rows are dumped from the live vc2_data_tables on each run (theorems hold for arbitrary tables "
        "satisfying the two boolean hypotheses, which are evaluated on the dump); long texts (> 40 bytes) are compared by SHA-1 prefix")
    ctx.trusted.append("C28: the model describes the REPAIRED reader (fixes/C28-csv-error-not-wrapped.diff): csv.Error -> InvalidCodecFeaturesError")


def replay(ctx, data):
    tables, cf, set_source_defaults = impl()
    _, enums, _ = dump_tables(tables, set_source_defaults)
    inp = data["input"]
    text, mode = inp["text"], inp.get("mode", "raw")
    print("replaying", data.get("key"), "mode=%s" % mode, "text=%r%s" % (text[:300], "..." if len(text) > 300 else ""), "(%d chars)" % len(text))
    real = run_real(cf, text, mode)
    if real[0] == "other":
        print("read_codec_features_csv raised", real[2], "at", real[1])
        print("property violated on this input: True")
        return 1
    if real[0] == "invalid":
        print("InvalidCodecFeaturesError:", real[1][:300])
        print("property violated on this input: False")
        return 0
    problems = []
    for key, f in real[1].items():
        problems += [(key, fld, p) for fld, p in in_domain(tables, enums, key, f)]
    try:
        ncols = sum(1 for c in cf.read_dict_list_csv(feed(text, mode)) if c)   # entirely empty columns are skipped by design
        if ncols != len(real[1]):
            problems.append(("*", "name", "%d configuration columns but %d configurations returned" % (ncols, len(real[1]))))
    except Exception:
        pass
    print("returned %d configurations; out-of-domain fields: %r" % (len(real[1]), problems))
    print("property violated on this input:", bool(problems))
    return 1 if problems else 0
