# Loaded (via PYTHONPATH) only by subprocesses started by the C24 harness: swaps the very large
# natural pictures for the test suite's small ones, exactly as tests/smaller_real_pictures.py does.
import os

if os.environ.get("VERIF_SMALL_PICTURES"):
    try:
        from vc2_conformance_data import NATURAL_PICTURES_FILENAMES

        d = os.path.join(os.environ.get("VERIF_REPO", "/repo"), "tests", "test_images")
        paths = [os.path.join(d, f) for f in ("square.raw", "wide.raw", "tall.raw")]
        del NATURAL_PICTURES_FILENAMES[:]
        NATURAL_PICTURES_FILENAMES.extend(paths)
    except Exception:
        pass
