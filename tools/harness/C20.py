"""C20 harness: bit-level writers and readers.

Tie C: Model/BitIO.v (via the runners of Corr/C20.v) against the real
BitstreamWriter / BitstreamReader (vc2_conformance/bitstream/io.py) and the
validator's reader (vc2_conformance/decoder/io.py) on
  * every byte string whose first N bits are enumerated exhaustively (quick N=10,
    thorough N=14) x every primitive x bounded-block lengths -3..16 and "no block"
    (checksummed observations),
  * random op sequences (writes, flush, seek, tell, blocks; reads, seeks, blocks;
    decoder reads, bits_left, byte_align, recording) that continue after exceptions,
  * structured read programs (the vocabulary of `readers_agree`),
  * integers up to 2^300.
Oracle: the statements of the property executed on the real classes.
"""
import ast
import concurrent.futures
import io
import os

from vlib import cz, cbool, clist

OUT_OF_RANGE, VALUE, EOF, UEOS, EXC, ASSERT = 1, 2, 3, 4, 5, 6
NOBLK = -100
HMOD = 2305843009213693951


def impl():
    from vc2_conformance.bitstream import io as bio
    from vc2_conformance.bitstream.exceptions import OutOfRangeError
    from vc2_conformance.bitstream import exp_golomb
    from vc2_conformance.decoder import io as dio
    from vc2_conformance.decoder.exceptions import UnexpectedEndOfStream
    from vc2_conformance.pseudocode.state import State
    from bitarray import bitarray
    return bio, OutOfRangeError, exp_golomb, dio, UnexpectedEndOfStream, State, bitarray


_I = None


def I():
    global _I
    if _I is None:
        _I = impl()
    return _I


def ecode(e):
    bio, OutOfRangeError, eg, dio, UEOS_, State, bitarray = I()
    if isinstance(e, OutOfRangeError):
        return OUT_OF_RANGE
    if isinstance(e, ValueError):
        return VALUE
    if isinstance(e, EOFError):
        return EOF
    if isinstance(e, UEOS_):
        return UEOS
    if isinstance(e, AssertionError):
        return ASSERT
    return EXC


def oz(x):
    return [0, 0] if x is None else [1, x]


# ------------------------------------------------------------------ real runners
def run_w(f0, ops):
    """ops: tuples ('bit', b) ('nbits', n, v) ('uint_lit', n, v) ('bitarray', n, [bools]) ('bytes', n, [ints])
    ('uint', v) ('sint', v) ('flush',) ('seek', by, bi) ('begin', len) ('end',)"""
    bio, OutOfRangeError, eg, dio, UEOS_, State, bitarray = I()
    f = io.BytesIO()
    f.write(bytes(bytearray(f0)))
    f.seek(0)
    w = bio.BitstreamWriter(f)
    obs = []
    for op in ops:
        code, ret = 0, 0
        try:
            k = op[0]
            if k == "bit":
                w.write_bit(op[1])
            elif k == "nbits":
                w.write_nbits(op[1], op[2])
            elif k == "uint_lit":
                w.write_uint_lit(op[1], op[2])
            elif k == "bitarray":
                w.write_bitarray(op[1], bitarray(op[2]))
            elif k == "bytes":
                w.write_bytes(op[1], bytes(bytearray(op[2])))
            elif k == "uint":
                w.write_uint(op[1])
            elif k == "sint":
                w.write_sint(op[1])
            elif k == "flush":
                w.flush()
            elif k == "seek":
                w.seek(op[1], op[2])
            elif k == "begin":
                w.bounded_block_begin(op[1])
            elif k == "end":
                ret = w.bounded_block_end()
        except Exception as e:  # noqa
            code = ecode(e)
        obs.append([code, ret, bio.to_bit_offset(*w.tell())] + oz(w.bits_remaining))
    w.flush()
    return obs, list(bytearray(f.getvalue()))


def run_r(f, ops):
    bio, OutOfRangeError, eg, dio, UEOS_, State, bitarray = I()
    r = bio.BitstreamReader(io.BytesIO(bytes(bytearray(f))))
    obs = []
    for op in ops:
        code, vals = 0, []
        try:
            k = op[0]
            if k == "bit":
                vals = [r.read_bit()]
            elif k == "nbits":
                vals = [r.read_nbits(op[1])]
            elif k == "uint_lit":
                vals = [r.read_uint_lit(op[1])]
            elif k == "bitarray":
                vals = [int(b) for b in r.read_bitarray(op[1])]
            elif k == "bytes":
                vals = list(bytearray(r.read_bytes(op[1])))
            elif k == "uint":
                vals = [r.read_uint()]
            elif k == "sint":
                vals = [r.read_sint()]
            elif k == "seek":
                r.seek(op[1], op[2])
            elif k == "begin":
                r.bounded_block_begin(op[1])
            elif k == "end":
                vals = [r.bounded_block_end()]
        except Exception as e:  # noqa
            code, vals = ecode(e), []
        obs.append([code, bio.to_bit_offset(*r.tell())] + oz(r.bits_remaining) + vals)
    return obs


def new_d(f):
    bio, OutOfRangeError, eg, dio, UEOS_, State, bitarray = I()
    st = State()
    dio.init_io(st, io.BytesIO(bytes(bytearray(f))))
    st["bits_left"] = 0
    return st


def run_d(f, ops):
    bio, OutOfRangeError, eg, dio, UEOS_, State, bitarray = I()
    st = new_d(f)
    obs = []
    for op in ops:
        code, vals = 0, []
        try:
            k = op[0]
            if k == "bit":
                vals = [dio.read_bit(st)]
            elif k == "nbits":
                vals = [dio.read_nbits(st, op[1])]
            elif k == "uint_lit":
                vals = [dio.read_uint_lit(st, op[1])]
            elif k == "uint":
                vals = [dio.read_uint(st)]
            elif k == "sint":
                vals = [dio.read_sint(st)]
            elif k == "bitb":
                vals = [dio.read_bitb(st)]
            elif k == "uintb":
                vals = [dio.read_uintb(st)]
            elif k == "sintb":
                vals = [dio.read_sintb(st)]
            elif k == "flush":
                dio.flush_inputb(st)
            elif k == "align":
                dio.byte_align(st)
            elif k == "setleft":
                st["bits_left"] = op[1]
            elif k == "recstart":
                dio.record_bitstream_start(st)
            elif k == "recfinish":
                vals = list(dio.record_bitstream_finish(st))
        except Exception as e:  # noqa
            code, vals = ecode(e), []
        obs.append([code, bio.to_bit_offset(*dio.tell(st)), st["bits_left"]] + vals)
    return obs


# structured programs: ('bit',) ('nbits',n) ('uint_lit',n) ('uint',) ('sint',) ('align',) ('block', len, [ 'bit'|'uint'|'sint' ])
def prog_r(f, prog):
    bio = I()[0]
    r = bio.BitstreamReader(io.BytesIO(bytes(bytearray(f))))
    out = []
    pos = lambda: bio.to_bit_offset(*r.tell())
    try:
        for op in prog:
            k = op[0]
            if k == "bit":
                out += [r.read_bit(), pos()]
            elif k == "nbits":
                out += [r.read_nbits(op[1]), pos()]
            elif k == "uint_lit":
                out += [r.read_uint_lit(op[1]), pos()]
            elif k == "uint":
                out += [r.read_uint(), pos()]
            elif k == "sint":
                out += [r.read_sint(), pos()]
            elif k == "align":
                _, bits = r.tell()
                r.read_bitarray(0 if bits == 7 else bits + 1)
                out += [0, pos()]
            elif k == "block":
                r.bounded_block_begin(op[1])
                out += [0, pos()]
                for b in op[2]:
                    v = r.read_bit() if b == "bit" else (r.read_uint() if b == "uint" else r.read_sint())
                    out += [v, pos()]
                n = r.bounded_block_end()
                r.read_bitarray(n)
                out += [0, pos()]
    except EOFError:
        return out + [EOF, pos()]
    return out + [0, pos()]


def prog_d(f, prog):
    bio, OutOfRangeError, eg, dio, UEOS_, State, bitarray = I()
    st = new_d(f)
    out = []
    pos = lambda: bio.to_bit_offset(*dio.tell(st))
    try:
        for op in prog:
            k = op[0]
            if k == "bit":
                out += [dio.read_bit(st), pos()]
            elif k == "nbits":
                out += [dio.read_nbits(st, op[1]), pos()]
            elif k == "uint_lit":
                out += [dio.read_uint_lit(st, op[1]), pos()]
            elif k == "uint":
                out += [dio.read_uint(st), pos()]
            elif k == "sint":
                out += [dio.read_sint(st), pos()]
            elif k == "align":
                dio.byte_align(st)
                out += [0, pos()]
            elif k == "block":
                st["bits_left"] = op[1]
                out += [0, pos()]
                for b in op[2]:
                    v = dio.read_bitb(st) if b == "bit" else (dio.read_uintb(st) if b == "uint" else dio.read_sintb(st))
                    out += [v, pos()]
                dio.flush_inputb(st)
                out += [0, pos()]
    except UEOS_:
        return out + [EOF, pos()]  # same EOF class as EOFError
    return out + [0, pos()]


# ------------------------------------------------------------------ Coq literals
def c_wop(op):
    k = op[0]
    if k == "bit":
        return "WBit %s" % cbool(op[1])
    if k == "nbits":
        return "WNBits %s %s" % (cz(op[1]), cz(op[2]))
    if k == "uint_lit":
        return "WUintLit %s %s" % (cz(op[1]), cz(op[2]))
    if k == "bitarray":
        return "WBitArr %s %s" % (cz(op[1]), clist(op[2], cbool))
    if k == "bytes":
        return "WBytes %s %s" % (cz(op[1]), clist(op[2]))
    if k == "uint":
        return "WUint %s" % cz(op[1])
    if k == "sint":
        return "WSint %s" % cz(op[1])
    if k == "flush":
        return "WFlush"
    if k == "seek":
        return "WSeek %s %s" % (cz(op[1]), cz(op[2]))
    if k == "begin":
        return "WBegin %s" % cz(op[1])
    return "WEnd"


R_NAMES = {"bit": "RBit", "uint": "RUint", "sint": "RSint", "end": "REnd"}
R_ARG1 = {"nbits": "RNBits", "uint_lit": "RUintLit", "bitarray": "RBitArr", "bytes": "RBytes", "begin": "RBegin"}


def c_rop(op):
    k = op[0]
    if k in R_NAMES:
        return R_NAMES[k]
    if k in R_ARG1:
        return "%s %s" % (R_ARG1[k], cz(op[1]))
    return "RSeek %s %s" % (cz(op[1]), cz(op[2]))


D_NAMES = {"bit": "DBit", "uint": "DUint", "sint": "DSint", "bitb": "DBitb", "uintb": "DUintb", "sintb": "DSintb",
           "flush": "DFlush", "align": "DAlign", "recstart": "DRecStart", "recfinish": "DRecFinish"}
D_ARG1 = {"nbits": "DNBits", "uint_lit": "DUintLit", "setleft": "DSetLeft"}


def c_dop(op):
    k = op[0]
    return D_NAMES[k] if k in D_NAMES else "%s %s" % (D_ARG1[k], cz(op[1]))


def c_prog(prog):
    out = []
    for op in prog:
        k = op[0]
        if k in ("bit", "uint", "sint", "align"):
            out.append({"bit": "PBit", "uint": "PUint", "sint": "PSint", "align": "PAlign"}[k])
        elif k == "nbits":
            out.append("PNBits %s" % cz(op[1]))
        elif k == "uint_lit":
            out.append("PUintLit %s" % cz(op[1]))
        else:
            out.append("PBlock %s [%s]" % (cz(op[1]), "; ".join({"bit": "BBit", "uint": "BUint", "sint": "BSint"}[b] for b in op[2])))
    return "[" + "; ".join(out) + "]"


def cll(xss):
    return "[" + "; ".join(clist(x) for x in xss) + "]"


# ------------------------------------------------------------------ checksums (= Corr/C20.v hmix/hlist/hobs)
def hobs(h, obs):
    for l in obs:
        h = (h * 1000003 + len(l) + 7) & HMOD
        for x in l:
            h = (h * 1000003 + x + 7) & HMOD
    return h


R_PRIMS = [("bit",), ("nbits", 3), ("nbits", 9), ("uint_lit", 1), ("bitarray", 5), ("bytes", 1), ("uint",), ("sint",)]
D_PRIMS_B = [("bitb",), ("uintb",), ("sintb",)]
D_PRIMS_U = [("bit",), ("nbits", 3), ("nbits", 9), ("uint_lit", 1), ("uint",), ("sint",), ("align",)]
AGREE_U = [("bit",), ("nbits", 3), ("nbits", 9), ("uint_lit", 1), ("uint",), ("sint",), ("align",)]
AGREE_B = ["bit", "uint", "sint"]


def r_family(f, blk):
    h = 0
    for p in R_PRIMS:
        ops = [p, ("uint",), ("bit",)] if blk == NOBLK else [("begin", blk), p, ("uint",), ("end",), ("bit",)]
        h = hobs(h, run_r(f, ops))
    return h


def d_family(f, blk):
    h = 0
    if blk == NOBLK:
        for p in D_PRIMS_U:
            h = hobs(h, run_d(f, [p, ("uint",), ("align",), ("bit",)]))
    else:
        for p in D_PRIMS_B:
            h = hobs(h, run_d(f, [("setleft", blk), p, ("uintb",), ("flush",), ("bit",)]))
    return h


def exh_files(nbits):
    """every byte string of 0..ceil(nbits/8) bytes whose first nbits bits are enumerated and whose
    remaining bits (of the last byte) are all 0 or all 1"""
    out = [[]]
    nbytes = (nbits + 7) // 8
    for nb in range(1, nbytes + 1):
        free = min(nbits, 8 * nb)
        pad = 8 * nb - free
        for v in range(1 << free):
            for tail in ([0] if pad == 0 else [0, (1 << pad) - 1]):
                x = (v << pad) | tail
                out.append([(x >> (8 * (nb - 1 - i))) & 255 for i in range(nb)])
    return out


BLKS = [NOBLK] + list(range(-3, 17))


def exh_worker(job):
    """per file: checksums for the model tie and the readers-agree oracle (block lengths >= 0 and no block).
    Returns (list of (blks, er, ed), list of disagreement descriptions, #runs)."""
    files, start, stride = job
    res, bad, runs = [], [], 0
    for i, f in enumerate(files):
        # quick tier: the model tie uses every fourth block length per file (rotating); the oracle below uses all
        blks = [b for b in BLKS if b == NOBLK or (b + start + i) % stride == 0]
        er = [r_family(f, b) for b in blks]
        ed = [d_family(f, b) for b in blks]
        res.append((blks, er, ed))
        runs += len(blks) * (len(R_PRIMS) + len(D_PRIMS_B))
        # oracle: both readers agree (values, tell, EOF class) on every primitive
        for p in AGREE_U:
            for prog in ([p, ("uint",), ("align",), ("bit",)], [p, ("sint",), ("nbits", 2)]):
                a, b = prog_r(f, prog), prog_d(f, prog)
                runs += 1
                if a != b:
                    bad.append((f, prog, a, b))
        for blk in range(0, 17):
            for p in AGREE_B:
                prog = [("block", blk, [p, "uint"]), ("bit",)]
                a, b = prog_r(f, prog), prog_d(f, prog)
                runs += 1
                if a != b:
                    bad.append((f, prog, a, b))
    return res, bad[:20], runs


# ------------------------------------------------------------------ generators
def rand_int(rng, big=False):
    k = rng.randrange(8)
    if k == 0:
        return rng.choice([0, 1, 2, 3, 7, 8, 255, 256])
    if k == 1:
        return (1 << rng.randrange(0, 300 if big else 20)) + rng.randrange(-1, 2)
    if k == 2 and big:
        return rng.randrange(0, 1 << rng.randrange(1, 301))
    return rng.randrange(0, 1 << rng.randrange(1, 12))


def gen_wops(rng, n, big=False, plain=False):
    ops = []
    for _ in range(n):
        k = rng.randrange(14 if not plain else 9)
        if k == 0:
            ops.append(("bit", rng.random() < 0.5))
        elif k == 1:
            nb = rng.randrange(-1, 320 if big else 20)
            c = rng.randrange(10)
            if c == 0:
                v = -rng.randrange(1, 5)
            elif c == 1:
                v = (1 << max(nb, 0)) + rng.randrange(0, 3)
            else:
                v = rng.randrange(0, 1 << max(nb, 0)) if nb > 0 else 0
            if plain and not (0 <= v < (1 << max(nb, 0)) and nb >= 0):
                v, nb = 0, max(nb, 0)
            ops.append(("nbits", nb, v))
        elif k == 2:
            nb = rng.randrange(0, 4)
            v = rng.randrange(0, 1 << (8 * nb)) if nb else 0
            if not plain and rng.random() < 0.15:
                v = (1 << (8 * nb)) + rng.randrange(3)
            ops.append(("uint_lit", nb, v))
        elif k == 3:
            ln = rng.randrange(0, 12)
            nb = ln + rng.randrange(0, 6) if plain or rng.random() < 0.85 else ln - rng.randrange(1, 3)
            ops.append(("bitarray", nb, [rng.random() < 0.5 for _ in range(ln)]))
        elif k == 4:
            ln = rng.randrange(0, 4)
            nb = ln + rng.randrange(0, 3) if plain or rng.random() < 0.85 else ln - rng.randrange(1, 3)
            ops.append(("bytes", nb, [rng.randrange(256) for _ in range(ln)]))
        elif k in (5, 6):
            v = rand_int(rng, big)
            if not plain and rng.random() < 0.1:
                v = -v - 1
            ops.append(("uint", v))
        elif k in (7, 8):
            v = rand_int(rng, big)
            ops.append(("sint", -v if rng.random() < 0.5 else v))
        elif k == 9:
            ops.append(("flush",))
        elif k == 10:
            by, bi = rng.randrange(0, 6), rng.randrange(0, 8)
            if rng.random() < 0.08:
                by = -1
            if rng.random() < 0.05:
                bi = rng.choice([-1, 8])
            ops.append(("seek", by, bi))
        elif k in (11, 12):
            ops.append(("begin", rng.randrange(-3, 24)))
        else:
            ops.append(("end",))
    return ops


def gen_seekback_wops(rng):
    """begin a block, write a little, seek BACK (or forward / nowhere) while bits remain -- or after running past the
    end -- then write more than |delta| bits (1s, 0s and values) up to and beyond the real end of the block"""
    skip = rng.randrange(0, 12)
    ln = rng.randrange(-2, 30)
    ops = [("nbits", skip, rng.randrange(0, 1 << skip) if skip else 0), ("begin", ln)]
    adv = rng.randrange(0, max(ln, 0) + 1)
    ops += [("bit", rng.random() < 0.5) for _ in range(adv)]
    if rng.random() < 0.3:
        ops += [("bit", True) for _ in range(max(ln, 0) - adv + rng.randrange(0, 3))]  # up to / past the end
        adv = max(ln, 0)
    target = skip + rng.randrange(0, adv + 1) if rng.random() < 0.8 else rng.randrange(0, skip + max(ln, 0) + 3)
    ops.append(("seek", target // 8, 7 - target % 8))
    room = skip + max(ln, 0) - target
    for _ in range(rng.randrange(1, 4)):
        k = rng.randrange(4)
        if k == 0:
            ops += [("bit", rng.random() < 0.7) for _ in range(rng.randrange(1, max(room, 1) + 3))]
        elif k == 1:
            nb = rng.randrange(1, max(room, 1) + 2)
            ops.append(("nbits", nb, rng.choice([(1 << nb) - 1, rng.randrange(0, 1 << nb)])))
        elif k == 2:
            ops.append(("sint", rng.randrange(-9, 10)))
        else:
            ops.append(("seek", (target + rng.randrange(0, 4)) // 8, rng.randrange(0, 8)))
    ops.append(("end",))
    if rng.random() < 0.5:
        ops.append(("nbits", 5, rng.randrange(32)))
    return ops


def gen_rops(rng, n):
    ops = []
    for _ in range(n):
        k = rng.randrange(13)
        if k == 0:
            ops.append(("bit",))
        elif k == 1:
            ops.append(("nbits", rng.randrange(-1, 20)))
        elif k == 2:
            ops.append(("uint_lit", rng.randrange(0, 3)))
        elif k == 3:
            ops.append(("bitarray", rng.randrange(-1, 14)))
        elif k == 4:
            ops.append(("bytes", rng.randrange(-1, 3)))
        elif k in (5, 6):
            ops.append(("uint",))
        elif k in (7, 8):
            ops.append(("sint",))
        elif k == 9:
            by, bi = rng.randrange(0, 8), rng.randrange(0, 8)
            if rng.random() < 0.08:
                by = -1
            if rng.random() < 0.05:
                bi = rng.choice([-1, 8])
            ops.append(("seek", by, bi))
        elif k in (10, 11):
            ops.append(("begin", rng.randrange(-3, 30)))
        else:
            ops.append(("end",))
    return ops


def gen_dops(rng, n):
    ops = []
    for _ in range(n):
        k = rng.randrange(16)
        if k == 0:
            ops.append(("bit",))
        elif k == 1:
            ops.append(("nbits", rng.randrange(-1, 20)))
        elif k == 2:
            ops.append(("uint_lit", rng.randrange(0, 3)))
        elif k == 3:
            ops.append(("uint",))
        elif k == 4:
            ops.append(("sint",))
        elif k in (5, 6):
            ops.append(("bitb",))
        elif k in (7, 8):
            ops.append(("uintb",))
        elif k in (9, 10):
            ops.append(("sintb",))
        elif k == 11:
            ops.append(("flush",))
        elif k == 12:
            ops.append(("align",))
        elif k == 13:
            ops.append(("setleft", rng.randrange(-3, 30)))
        elif k == 14:
            ops.append(("recstart",))
        else:
            ops.append(("recfinish",))
    return ops


def gen_prog(rng, n, neg=False):
    prog = []
    for _ in range(n):
        k = rng.randrange(9)
        if k == 0:
            prog.append(("bit",))
        elif k == 1:
            prog.append(("nbits", rng.randrange(0, 18)))
        elif k == 2:
            prog.append(("uint_lit", rng.randrange(0, 3)))
        elif k == 3:
            prog.append(("uint",))
        elif k == 4:
            prog.append(("sint",))
        elif k == 5:
            prog.append(("align",))
        else:
            ln = rng.randrange(-3 if neg else 0, 26)
            prog.append(("block", ln, [rng.choice(AGREE_B) for _ in range(rng.randrange(0, 5))]))
    return prog


def rand_file(rng, maxlen=6):
    n = rng.randrange(0, maxlen + 1)
    k = rng.randrange(4)
    if k == 0:
        return [rng.choice([0, 255]) for _ in range(n)]
    if k == 1:  # many exp-golomb codes are short: bias to 1s
        return [rng.randrange(256) | rng.randrange(256) for _ in range(n)]
    return [rng.randrange(256) for _ in range(n)]


def bits_left_sites():
    """Static scan: every assignment to state["bits_left"] in the decoder package."""
    import vc2_conformance.decoder as dec
    root = os.path.dirname(dec.__file__)
    sites = []
    for fn in sorted(os.listdir(root)):
        if not fn.endswith(".py"):
            continue
        src = open(os.path.join(root, fn)).read()
        tree = ast.parse(src)
        for node in ast.walk(tree):
            targets = []
            if isinstance(node, ast.Assign):
                targets = node.targets
            elif isinstance(node, ast.AugAssign):
                targets = [node.target]
            for t in targets:
                if isinstance(t, ast.Subscript) and isinstance(t.slice, ast.Constant) and t.slice.value == "bits_left":
                    seg = ast.get_source_segment(src, node)
                    sites.append((fn, seg.strip()))
    return sites


EXPECTED_SITES = sorted([
    ("io.py", 'state["bits_left"] -= 1'),
    ("io.py", 'state["bits_left"] -= 1'),
    ("transform_data_syntax.py", 'state["bits_left"] = slice_y_length'),
    ("transform_data_syntax.py", 'state["bits_left"] = slice_bits_left'),
    ("transform_data_syntax.py", 'state["bits_left"] = 8 * length'),
])


# ------------------------------------------------------------------ the check
def exh_bits(ctx):
    """an exponent, so not scaled by ctx.pick: 10 bits quick, 12 when the driver escalates a quick run (sources changed), 14 thorough"""
    if ctx.tier != "quick":
        return 14
    return 12 if getattr(ctx, "escalated", False) else 10


def run(ctx):
    bio, OutOfRangeError, eg, dio, UEOS_, State, bitarray = I()
    rng = ctx.rng
    MODS = ["Base.PyZ", "Model.BitIO", "Corr.C20"]
    ctx.extra["rule"] = (
        "exhaustive: every byte string of 0..ceil(N/8) bytes with the first N bits enumerated (N=%d) x 21 block lengths "
        "(none, -3..16; quick tier: model tie on every fourth length per file, rotating, oracle on all) x every primitive of both readers, observations (value, tell, bits_remaining, exception) checksummed "
        "and compared with the model; random op sequences for writer / BitstreamReader / decoder reader continuing after "
        "exceptions (every fourth writer sequence: block, seek back/forward while bits remain or past the end, then writes beyond |delta|); "
        "structured read programs; integers up to 2^300; oracle incl. the seek-in-block law on writer and reader and the block-edge scenarios (aligned, 0 / 1..8 / negative bits left, then byte-string and wide primitives; also every 3rd-4th op sequence of the correspondence families).  A case is non-trivial when at least one real bit is "
        "read or written (distinct by input)." % exh_bits(ctx))

    def corr_fail(name, bad, describe):
        if bad:
            ctx.obligation("corr:%s agrees with implementation" % name, False, "corr-shard",
                           "model/implementation differ on: %s" % "; ".join(describe(i) for i in bad[:4]))

    # ---- (0) static: where the validator starts a bounded block ---------------------------
    sites = sorted(bits_left_sites())
    ok_sites = sites == EXPECTED_SITES
    ctx.obligation("static:decoder bits_left assignment sites are the three non-negative ones", ok_sites, "corr-shard",
                   "" if ok_sites else repr(sites))
    ctx.trusted.append("state[\"bits_left\"] is only assigned in decoder/transform_data_syntax.py (slice_y_length = read_nbits(..) >= 0; "
                       "slice_bits_left - slice_y_length >= 0 after the InvalidSliceYLength check; 8 * slice_size_scaler * read_uint_lit(1)) "
                       "- re-checked by an AST scan on every run; negative bounded-block lengths are therefore unreachable in the validator")

    # ---- (1) exhaustive bit strings: model tie (checksums) + readers-agree oracle ----------
    nbits = exh_bits(ctx)
    files = exh_files(nbits)
    chunk = max(1, len(files) // 64)
    chunks = [(files[i:i + chunk], i, ctx.pick(4, 1)) for i in range(0, len(files), chunk)]
    results, disagreements = [], []
    with concurrent.futures.ProcessPoolExecutor(max_workers=int(os.environ.get("VERIF_JOBS", "16"))) as ex:
        for res, bad, runs in ex.map(exh_worker, chunks):
            results.extend(res)
            disagreements.extend(bad)
            ctx.count(runs, bucket="exhaustive<=%dbits" % nbits)
    for f in files:
        ctx.count(0, key=("exh", tuple(f)))
    ctx.exhaustive = True
    for (f, prog, a, b) in disagreements[:5]:
        ctx.violation("readers-disagree", {"file": f, "prog": prog},
                      "BitstreamReader and the decoder's reader differ on a structured read program (block lengths >= 0)",
                      observed={"bitstream_reader": a, "decoder_reader": b}, expected="identical values, tell() and EOF class")
    cases = ["(%s, %s, (%s, %s))" % (clist(f), clist(blks), clist(er), clist(ed)) for f, (blks, er, ed) in zip(files, results)]
    bad = ctx.coq_check_cases("exh", MODS, "exh_check", cases, shard=ctx.pick(150, 300), timeout=900)
    corr_fail("exhaustive readers", bad, lambda i: "file %r" % (files[i],))
    ctx.sample({"exhaustive_file": files[len(files) // 3], "block_lengths": BLKS})

    # ---- (2) random writer op sequences ----------------------------------------------------
    wcases, wmeta = [], []
    for i in range(ctx.pick(500, 8000)):
        big = i % 5 == 0
        f0 = [] if rng.random() < 0.6 else rand_file(rng, 4)
        if i % 4 == 0:
            ops = gen_seekback_wops(rng)
        elif i % 4 == 2:
            ops = steps_to_wops(gen_edge_steps(rng))
        elif i % 8 == 1:
            ops = gen_seek_wops(rng)
        else:
            ops = gen_wops(rng, rng.randrange(1, 9 if big else 14), big=big)
        obs, final = run_w(f0, ops)
        wcases.append("(%s, [%s], (%s, %s))" % (clist(f0), "; ".join(c_wop(o) for o in ops), cll(obs), clist(final)))
        wmeta.append((f0, ops))
        ctx.count(1, key=("w", i) if final else None, bucket="writer-seq-big" if big else "writer-seq")
    ctx.sample({"writer_ops": repr(wmeta[1][1])})
    bad = ctx.coq_check_cases("wseq", MODS, "w_check", wcases, shard=120, timeout=900)
    corr_fail("writer sequences", bad, lambda i: repr(wmeta[i]))

    # ---- (3) random reader / decoder op sequences -------------------------------------------
    rcases, rmeta, dcases, dmeta = [], [], [], []
    for i in range(ctx.pick(500, 8000)):
        f = rand_file(rng)
        edge = gen_edge_steps(rng) if i % 3 == 0 else None
        ops = steps_to_rops(edge) if edge else gen_rops(rng, rng.randrange(1, 12))
        rcases.append("(%s, [%s], %s)" % (clist(f), "; ".join(c_rop(o) for o in ops), cll(run_r(f, ops))))
        rmeta.append((f, ops))
        ops = steps_to_dops(edge) if edge else gen_dops(rng, rng.randrange(1, 12))
        dcases.append("(%s, [%s], %s)" % (clist(f), "; ".join(c_dop(o) for o in ops), cll(run_d(f, ops))))
        dmeta.append((f, ops))
        ctx.count(2, key=("rd", i) if f else None, bucket="reader-seq")
    ctx.sample({"file": rmeta[0][0], "reader_ops": repr(rmeta[0][1])})
    bad = ctx.coq_check_cases("rseq", MODS, "r_check", rcases, shard=150, timeout=900)
    corr_fail("BitstreamReader sequences", bad, lambda i: repr(rmeta[i]))
    bad = ctx.coq_check_cases("dseq", MODS, "d_check", dcases, shard=150, timeout=900)
    corr_fail("decoder reader sequences", bad, lambda i: repr(dmeta[i]))

    # ---- (4) structured programs: model tie for r_run/d_run, oracle for agreement ------------
    pcases, pmeta = [], []
    for i in range(ctx.pick(450, 8000)):
        f = rand_file(rng, 8)
        neg = i % 6 == 0
        prog = gen_prog(rng, rng.randrange(1, 8), neg=neg)
        a, b = prog_r(f, prog), prog_d(f, prog)
        pcases.append("(%s, %s, (%s, %s))" % (clist(f), c_prog(prog), clist(a), clist(b)))
        pmeta.append((f, prog))
        ctx.count(1, key=("p", i) if f else None, bucket="program-neg" if neg else "program")
        has_neg = any(op[0] == "block" and op[1] < 0 for op in prog)
        if a != b and not has_neg:
            ctx.violation("readers-disagree", {"file": f, "prog": prog},
                          "BitstreamReader and the decoder's reader differ on a structured read program (block lengths >= 0)",
                          observed={"bitstream_reader": a, "decoder_reader": b}, expected="identical values, tell() and EOF class")
    bad = ctx.coq_check_cases("prog", MODS, "prog_check", pcases, shard=150, timeout=900)
    corr_fail("structured read programs", bad, lambda i: repr(pmeta[i]))

    # ---- (5) property oracle: round trips, lengths, out of range, bounded-block laws ---------
    oracle(ctx)


def oracle(ctx):
    bio, OutOfRangeError, eg, dio, UEOS_, State, bitarray = I()
    rng = ctx.rng
    tob = bio.to_bit_offset

    # (a) round trip of plain write sequences through both readers, positions, lengths
    for i in range(ctx.pick(1000, 20000)):
        big = i % 3 == 0
        ops = gen_wops(rng, rng.randrange(1, 10), big=big, plain=True)
        f = io.BytesIO()
        w = bio.BitstreamWriter(f)
        marks = []
        try:
            for op in ops:
                before = tob(*w.tell())
                getattr(w, "write_" + op[0])(*_wargs(op, bitarray))
                marks.append((before, tob(*w.tell())))
            w.flush()
        except Exception as e:  # a plain sequence must not raise
            ctx.violation("plain-write-raises", {"ops": _j(ops)}, "in-range write raised %r" % (e,))
            continue
        data = f.getvalue()
        ctx.count(1, key=("rt", i), bucket="roundtrip-big" if big else "roundtrip")
        r = bio.BitstreamReader(io.BytesIO(data))
        st = new_d(list(bytearray(data)))
        for op, (b0, b1) in zip(ops, marks):
            k = op[0]
            exp = _expected(op, bitarray)
            # lengths of the exp-Golomb codes
            if k == "uint" and b1 - b0 != eg.exp_golomb_length(op[1]):
                ctx.violation("exp_golomb_length-differs", {"value": str(op[1])}, "bits written != exp_golomb_length",
                              observed=b1 - b0, expected=eg.exp_golomb_length(op[1]))
            if k == "sint" and b1 - b0 != eg.signed_exp_golomb_length(op[1]):
                ctx.violation("signed_exp_golomb_length-differs", {"value": str(op[1])}, "bits written != signed_exp_golomb_length",
                              observed=b1 - b0, expected=eg.signed_exp_golomb_length(op[1]))
            if k in ("nbits", "bitarray") and b1 - b0 != max(op[1], 0) or k in ("uint_lit", "bytes") and b1 - b0 != 8 * op[1] or k == "bit" and b1 - b0 != 1:
                ctx.violation("write-position", {"op": _j([op])}, "tell() did not advance by the bits written", observed=b1 - b0)
            if tob(*r.tell()) != b0:
                ctx.violation("reader-position", {"ops": _j(ops)}, "BitstreamReader not at the position the writer was", observed=tob(*r.tell()), expected=b0)
            got = _rread(r, op)
            if got != exp or tob(*r.tell()) != b1:
                ctx.violation("roundtrip-bitstream-reader", {"ops": _j(ops), "op": _j([op])}, "BitstreamReader read back a different value/position",
                              observed=[repr(got), tob(*r.tell())], expected=[repr(exp), b1])
            gd = _dread(dio, st, op)
            if gd is not None:
                if gd != exp or tob(*dio.tell(st)) != b1:
                    ctx.violation("roundtrip-decoder-reader", {"ops": _j(ops), "op": _j([op])}, "decoder reader read back a different value/position",
                                  observed=[repr(gd), tob(*dio.tell(st))], expected=[repr(exp), b1])

    # (b) out-of-range values raise OutOfRangeError and write nothing
    for i in range(ctx.pick(1500, 20000)):
        f = io.BytesIO()
        w = bio.BitstreamWriter(f)
        pre = gen_wops(rng, rng.randrange(0, 4), plain=True)
        for op in pre:
            getattr(w, "write_" + op[0])(*_wargs(op, bitarray))
        blk = rng.choice([None, None, rng.randrange(-3, 20)])
        if blk is not None:
            w.bounded_block_begin(blk)
        k = rng.randrange(6)
        n = rng.randrange(-2, 300 if i % 4 == 0 else 16)
        if k == 0:
            op = ("nbits", n, -rng.randrange(1, 1 << rng.randrange(1, 300)))
        elif k == 1:
            op = ("nbits", n, (1 << max(n, 0)) + rng.randrange(0, 1 << rng.randrange(1, 300)) * rng.randrange(2))
        elif k == 2:
            op = ("uint", -rng.randrange(1, 1 << rng.randrange(1, 300)))
        elif k == 3:
            nb = rng.randrange(0, 4)
            op = ("uint_lit", nb, (1 << (8 * nb)) + rng.randrange(5)) if rng.random() < 0.7 else ("uint_lit", nb, -1 - rng.randrange(5))
        elif k == 4:
            ln = rng.randrange(1, 12)
            op = ("bitarray", ln - rng.randrange(1, ln + 3), [rng.random() < 0.5 for _ in range(ln)])
        else:
            ln = rng.randrange(1, 5)
            op = ("bytes", ln - rng.randrange(1, ln + 2), [rng.randrange(256) for _ in range(ln)])
        w.flush()
        before = (f.getvalue(), w.tell(), w.bits_remaining)
        try:
            getattr(w, "write_" + op[0])(*_wargs(op, bitarray))
            raised = None
        except OutOfRangeError:
            raised = "OutOfRangeError"
        except Exception as e:  # noqa
            raised = type(e).__name__
        w.flush()
        after = (f.getvalue(), w.tell(), w.bits_remaining)
        ctx.count(1, key=("oor", i), bucket="out-of-range")
        if raised != "OutOfRangeError" or before != after:
            ctx.violation("out-of-range-not-rejected", {"pre": _j(pre), "block": blk, "op": _j([op])},
                          "out-of-range value must raise OutOfRangeError and write nothing", observed=[raised, repr(after)], expected=["OutOfRangeError", repr(before)])

    # (c) bounded-block laws for every length (zero and negative included)
    for i in range(ctx.pick(1500, 20000)):
        ln = rng.randrange(-5, 40)
        data = rand_file(rng, 6)
        skip = rng.randrange(0, 12)
        # reader: after max(ln,0) real bits every read yields 1 and does not move
        r = bio.BitstreamReader(io.BytesIO(bytes(bytearray(data))))
        try:
            r.read_nbits(skip)
            r.bounded_block_begin(ln)
            real = []
            for _ in range(max(ln, 0)):
                real.append(r.read_bit())
        except EOFError:
            ctx.count(1, bucket="block-eof")
            continue
        pos = r.tell()
        kind = rng.randrange(5)
        if kind == 0:
            got, exp = [r.read_bit() for _ in range(5)], [1] * 5
        elif kind == 1:
            got, exp = r.read_nbits(7), 127
        elif kind == 2:
            got, exp = r.read_uint(), 0
        elif kind == 3:
            got, exp = r.read_sint(), 0
        else:
            got, exp = r.read_bytes(2), b"\xff\xff"
        unused = r.bounded_block_end()
        ctx.count(1, key=("blk", i), bucket="block-len<0" if ln < 0 else ("block-len=0" if ln == 0 else "block-len>0"))
        allbits = [(b >> (7 - j)) & 1 for b in data for j in range(8)]
        if got != exp or r.tell() != pos or unused != 0 or real != allbits[skip:skip + max(ln, 0)]:
            ctx.violation("read-past-block-end", {"data": data, "skip": skip, "length": ln, "kind": kind},
                          "reads past the end of a bounded block must yield 1s without moving", observed=[repr(got), r.tell(), unused], expected=[repr(exp), pos, 0])
        # decoder reader, lengths >= 0 (the only ones the validator can produce)
        if ln >= 0:
            st = new_d(data)
            dio.read_nbits(st, skip)
            st["bits_left"] = ln
            reald = [dio.read_bitb(st) for _ in range(ln)]
            posd = dio.tell(st)
            if kind in (0, 1, 4):
                got, exp = [dio.read_bitb(st) for _ in range(5)], [1] * 5
            elif kind == 2:
                got, exp = dio.read_uintb(st), 0
            else:
                got, exp = dio.read_sintb(st), 0
            dio.flush_inputb(st)
            if got != exp or dio.tell(st) != posd or reald != real or posd != pos:
                ctx.violation("decoder-read-past-block-end", {"data": data, "skip": skip, "length": ln, "kind": kind},
                              "decoder reads past the end of a bounded block must yield 1s without moving, at BitstreamReader's position",
                              observed=[repr(got), dio.tell(st)], expected=[repr(exp), posd])
        # writer: 1s past the end accepted and nothing written; a 0 raises ValueError; unused = what is left
        f = io.BytesIO()
        w = bio.BitstreamWriter(f)
        w.write_nbits(skip, (1 << skip) - 1 if rng.random() < 0.5 else 0)
        w.bounded_block_begin(ln)
        used = rng.randrange(0, max(ln, 0) + 1)
        payload = [rng.random() < 0.5 for _ in range(used)]
        for b in payload:
            w.write_bit(b)
        if rng.random() < 0.5:
            used_up = max(ln, 0)
            for _ in range(used_up - used):
                w.write_bit(1)
            w.flush()
            snap = (f.getvalue(), w.tell())
            ok = True
            try:
                if kind == 0:
                    w.write_bit(1)
                elif kind == 1:
                    w.write_nbits(5, 31)
                elif kind == 2:
                    w.write_uint(0)
                elif kind == 3:
                    w.write_sint(0)
                else:
                    w.write_bitarray(3, bitarray([1, 1, 1]))
            except Exception:
                ok = False
            w.flush()
            same = (f.getvalue(), w.tell()) == snap
            try:
                w.write_bit(0)
                zero = "accepted"
            except OutOfRangeError:
                zero = "OutOfRangeError"
            except ValueError:
                zero = "ValueError"
            w.flush()
            if not ok or not same or zero != "ValueError" or (f.getvalue(), w.tell()) != snap or w.bounded_block_end() != 0:
                ctx.violation("write-past-block-end", {"skip": skip, "length": ln, "kind": kind},
                              "1s past the end of a bounded block must be accepted and write nothing; a 0 must raise ValueError",
                              observed=[ok, same, zero])
        else:
            left = w.bounded_block_end()
            if left != max(ln, 0) - used:
                ctx.violation("bounded_block_end-count", {"length": ln, "used": used}, "bounded_block_end() must return the unused bit count",
                              observed=left, expected=max(ln, 0) - used)

    # (d) tell/seek: seeking to a told position re-reads the same bits; offsets convert both ways
    for i in range(ctx.pick(800, 10000)):
        data = rand_file(rng, 6)
        r = bio.BitstreamReader(io.BytesIO(bytes(bytearray(data))))
        n1 = rng.randrange(0, 8 * len(data) + 1)
        try:
            r.read_nbits(n1)
            t = r.tell()
            a = _try_bits(r, 20)
            r.seek(*t)
            b = _try_bits(r, 20)
        except EOFError:
            continue
        ctx.count(1, bucket="seek-tell")
        if a != b or bio.from_bit_offset(tob(*t)) != t or tob(*t) != n1:
            ctx.violation("seek-tell", {"data": data, "n": n1}, "seek(tell()) must re-read the same bits and offsets must convert both ways",
                          observed=[a, b, t], expected=n1)

    # (e) seek inside a bounded block (writer AND reader): the block's end position is kept, what is written /
    #     read afterwards up to the real end is real, beyond it 1s only, bounded_block_end() tells the truth
    for i in range(ctx.pick(2500, 30000)):
        c = gen_seek_case(rng, "writer" if i % 2 else "reader")
        ctx.count(1, key=("seekblk", i), bucket="seek-in-block-" + c["who"])
        for key, desc, observed, expected in seek_block_case(c):
            ctx.violation(key, c, desc, observed=observed, expected=expected)

    # (f) the edge of a bounded block: byte aligned with exactly 0 / 1..8 / negative bits remaining, followed by byte-string,
    #     bit-array, wide-integer and exp-Golomb primitives -- writer (closed-form statement), then read back with both readers;
    #     and the same state reached by the readers on arbitrary data
    for i in range(ctx.pick(1500, 20000)):
        steps = gen_edge_steps(rng)
        ctx.count(1, key=("edge", i), bucket="block-edge-write-readback")
        for key, desc, observed, expected in edge_case(steps):
            ctx.violation(key, {"edge_steps": [list(st) if st[0] != "op" else ["op", _j([st[1]])[0]] for st in steps]}, desc, observed=observed, expected=expected)
        c = gen_edge_read_case(rng)
        ctx.count(1, key=("edger", i), bucket="block-edge-read")
        for key, desc, observed, expected in edge_read_case(c):
            ctx.violation(key, {"edge_read": c}, desc, observed=observed, expected=expected)

    # (g) writer op sequences with seek / flush / tell mid-byte against the bit-level reference; both readers on the file
    for i in range(ctx.pick(2000, 30000)):
        ops = gen_seek_wops(rng)
        ctx.count(1, key=("seekw", i), bucket="writer-seek-reference")
        for key, desc, observed, expected in seek_write_case(ops):
            ctx.violation(key, {"seek_ops": _j(ops)}, desc, observed=observed, expected=expected)

    # (h) exhaustive integer sweep: every v in -(2^14+2)..(2^14+2) and +-(2^k-2..2^k+2), k <= 200
    import time as _time
    t0 = _time.time()
    sw = expgolomb_sweep()
    ctx.count(2 * len(sweep_value_set()), key="sweep", bucket="integer-sweep")
    ctx.extra["integer_sweep_s"] = round(_time.time() - t0, 2)
    for key, inp, desc, observed, expected in sw:
        ctx.violation(key, inp, desc, observed=observed, expected=expected)



def gen_seek_case(rng, who):
    skip = rng.randrange(0, 12)
    ln = rng.randrange(-3, 28)
    room = max(ln, 0)
    mode = rng.randrange(4)  # 0,1: bits remain; 2: exactly at the end; 3: past the end (negative bits_remaining)
    adv = rng.randrange(0, room + 1) if mode < 2 else (room if mode == 2 else room + rng.randrange(1, 4))
    end = skip + room
    pos = skip + min(adv, room)
    t = rng.randrange(6)
    if t < 3:
        target = rng.randrange(0, pos + 1) if rng.random() < 0.3 else rng.randrange(skip, pos + 1)  # backwards (or zero)
    elif t == 3:
        target = pos  # not moving
    elif t == 4:
        target = rng.randrange(pos, end + 1)  # forwards inside the block
    else:
        target = end + rng.randrange(1, 5)  # past the end: must be refused
    unused = max(end - target, 0)
    npost = rng.randrange(0, unused + 1) if rng.random() < 0.6 else unused
    c = {"who": who, "skip": skip, "length": ln, "advance": adv, "target": target,
         "pre": [rng.random() < 0.5 for _ in range(min(adv, room))],
         "post": [rng.random() < 0.5 for _ in range(npost)],
         "finish": rng.choice(["end", "fill"])}
    if who == "writer":
        c["prefix"] = rng.randrange(0, 1 << skip) if skip else 0
    else:
        c["data"] = [rng.randrange(256) for _ in range((end + 7) // 8 + 1)]
    return c


def seek_block_case(c):
    """The law of C20_seek_in_block_writer/_reader and its consequences on the real classes.
    Returns a list of (key, description, observed, expected)."""
    bio, OutOfRangeError, eg, dio, UEOS_, State, bitarray = I()
    tob = bio.to_bit_offset
    fails = []
    skip, ln, adv, target = c["skip"], c["length"], c["advance"], c["target"]
    room = max(ln, 0)
    writer = c["who"] == "writer"
    try:
        if writer:
            f = io.BytesIO()
            x = bio.BitstreamWriter(f)
            x.write_nbits(skip, c["prefix"])
            x.bounded_block_begin(ln)
            for b in c["pre"]:
                x.write_bit(b)
            for _ in range(adv - len(c["pre"])):
                x.write_bit(1)  # past the end
        else:
            x = bio.BitstreamReader(io.BytesIO(bytes(bytearray(c["data"]))))
            x.read_nbits(skip)
            x.bounded_block_begin(ln)
            for _ in range(adv):
                x.read_bit()
        pos0, rem0 = tob(*x.tell()), x.bits_remaining
        end = pos0 + max(0, rem0)
        if end != skip + room:
            fails.append(("block-end-position", "position + max(0, bits_remaining) is not the end of the block before any seek", end, skip + room))
        by, bi = bio.from_bit_offset(target)
        if target > end:
            try:
                x.seek(by, bi)
                raised = False
            except Exception:
                raised = True
            if not raised or (tob(*x.tell()), x.bits_remaining) != (pos0, rem0):
                fails.append(("seek-past-block-end-" + c["who"], "a seek beyond the end of the bounded block must raise and change nothing",
                              [raised, tob(*x.tell()), x.bits_remaining], [True, pos0, rem0]))
            return fails
        x.seek(by, bi)
        end1 = tob(*x.tell()) + max(0, x.bits_remaining)
        if tob(*x.tell()) != target or end1 != end:
            fails.append(("seek-in-block-%s-moves-block-end" % c["who"],
                          "seek() inside a bounded block must keep to_bit_offset(tell()) + max(0, bits_remaining) (the block's end)",
                          {"tell": tob(*x.tell()), "bits_remaining": x.bits_remaining, "block_end": end1},
                          {"tell": target, "bits_remaining_at_least": end - target, "block_end": end}))
        unused = end - target
        post = c["post"]
        if writer:
            try:
                for b in post:
                    x.write_bit(b)
            except ValueError:
                fails.append(("write-inside-block-after-seek-rejected", "bits written before the real end of the block (after a seek) must be accepted",
                              "ValueError", "accepted"))
                return fails
            written = list(post)
            if c["finish"] == "end":
                left = x.bounded_block_end()
                if left != unused - len(post):
                    fails.append(("bounded_block_end-after-seek", "bounded_block_end() must return the true number of unused bits after a seek",
                                  left, unused - len(post)))
            else:
                zeros_at = rem_ok = None
                try:
                    for j in range(unused - len(post)):
                        b = (j % 3 != 0)
                        x.write_bit(b)  # 0s and 1s up to the real end
                        written.append(b)
                except ValueError:
                    fails.append(("write-inside-block-after-seek-rejected", "0 bits before the real end of the block (after a seek) must be accepted",
                                  "ValueError", "accepted"))
                    return fails
                x.flush()
                snap = (f.getvalue(), x.tell())
                x.write_bit(1)
                x.write_nbits(3, 7)
                x.flush()
                if (f.getvalue(), x.tell()) != snap:
                    fails.append(("write-past-block-end-after-seek", "1s past the real end of the block must write nothing", repr((f.getvalue(), x.tell())), repr(snap)))
                try:
                    x.write_bit(0)
                    zero = "accepted"
                except ValueError:
                    zero = "ValueError"
                if zero != "ValueError" or x.bounded_block_end() != 0:
                    fails.append(("write-past-block-end-after-seek", "a 0 past the real end of the block must raise ValueError", zero, "ValueError"))
            x.flush()
            if written:
                data = list(bytearray(f.getvalue()))
                exp = [int(b) for b in written]
                r = bio.BitstreamReader(io.BytesIO(f.getvalue()))
                r.read_nbits(target)
                got = [r.read_bit() for _ in written]
                st = new_d(data)
                dio.read_nbits(st, target)
                gd = [dio.read_bit(st) for _ in written]
                if got != exp or gd != exp:
                    fails.append(("write-after-seek-not-in-file", "bits written inside the block after a seek must be in the file at the seek target",
                                  {"bitstream_reader": got, "decoder_reader": gd}, exp))
        else:
            allbits = [(b >> (7 - j)) & 1 for b in c["data"] for j in range(8)]
            n = len(post) if c["finish"] == "end" else unused
            got = [x.read_bit() for _ in range(n)]
            if got != allbits[target:target + n] or tob(*x.tell()) != target + n:
                fails.append(("read-inside-block-after-seek", "reads before the real end of the block (after a seek) must return the file's bits",
                              [got, tob(*x.tell())], [allbits[target:target + n], target + n]))
            if c["finish"] == "end":
                left = x.bounded_block_end()
                if left != unused - n:
                    fails.append(("bounded_block_end-after-seek", "bounded_block_end() must return the true number of unused bits after a seek", left, unused - n))
            else:
                ones = [x.read_bit() for _ in range(4)] + [x.read_uint()]
                if ones != [1, 1, 1, 1, 0] or tob(*x.tell()) != end or x.bounded_block_end() != 0:
                    fails.append(("read-past-block-end-after-seek", "reads past the real end of the block must yield 1s without moving",
                                  [ones, tob(*x.tell())], [[1, 1, 1, 1, 0], end]))
    except Exception as e:  # noqa -- nothing in these scenarios may raise anything else
        fails.append(("seek-in-block-unexpected-exception", "unexpected exception in a legal bounded-block seek scenario", repr(e), "no exception"))
    return fails


# ------------------------------------------------------------------ block-edge scenarios
# A scenario is a list of steps  ("begin", len) | ("op", <write op>) | ("end",)  -- see gen_edge_steps.
def op_bits(op):
    """the bits a write op stands for, computed without the implementation"""
    k = op[0]
    if k == "bit":
        return [int(op[1])]
    if k == "nbits":
        return [int(ch) for ch in format(op[2], "0%db" % op[1])] if op[1] > 0 else []
    if k == "uint_lit":
        return [int(ch) for ch in format(op[2], "0%db" % (8 * op[1]))] if op[1] > 0 else []
    if k == "bitarray":
        return [int(b) for b in op[2]] + [0] * (op[1] - len(op[2]))
    if k == "bytes":
        return [(b >> (7 - j)) & 1 for b in list(op[2]) + [0] * (op[1] - len(op[2])) for j in range(8)]
    if k == "uint":
        out = []
        for ch in bin(op[1] + 1)[3:]:
            out += [0, int(ch)]
        return out + [1]
    if k == "sint":
        return op_bits(("uint", abs(op[1]))) + ([int(op[1] < 0)] if op[1] != 0 else [])
    raise ValueError(k)


def gen_edge_value_op(rng, room):
    """a write op of >= 1 byte (mostly); `room` = bits left in the block (may be <= 0)"""
    style = rng.randrange(5)  # 0,1: all ones (legal past the end); 2: all zero; 3,4: random
    k = rng.randrange(10)
    nby = rng.randrange(1, 4)
    if k < 4:
        ln = rng.randrange(0, nby + 1) if style != 2 else nby
        val = [255 if style < 2 else (0 if style == 2 else rng.randrange(256)) for _ in range(ln)]
        if style < 2:
            val, ln = [255] * nby, nby  # zero padding would be 0 bits
        return ("bytes", nby, val)
    if k < 6:
        n = 8 * nby + rng.randrange(0, 3)
        ln = n if style < 2 else rng.randrange(0, n + 1)
        return ("bitarray", n, [True if style < 2 else (False if style == 2 else rng.random() < 0.5) for _ in range(ln)])
    if k == 6:
        n = rng.randrange(8, 26)
        return ("nbits", n, (1 << n) - 1 if style < 2 else (0 if style == 2 else rng.randrange(1 << n)))
    if k == 7:
        return ("uint_lit", nby, (1 << (8 * nby)) - 1 if style < 2 else (0 if style == 2 else rng.randrange(1 << (8 * nby))))
    if k == 8:
        return ("uint", 0 if style < 2 else rng.randrange(0, 600))
    return ("sint", 0 if style < 2 else rng.randrange(-300, 300))


def gen_edge_steps(rng):
    """Heavy weight on: inside a bounded block, byte aligned, exactly 0 (also 1..8, also negative) bits remaining,
    followed by a byte-string / bit-array / wide integer / exp-Golomb primitive; zero-length blocks; blocks filled
    exactly by earlier writes; a second block right after bounded_block_end; a marker byte after everything."""
    steps = []
    skip = rng.choice([0, 0, 0, 8, 8, 16, rng.randrange(0, 16)])
    if skip:
        steps.append(("op", ("nbits", skip, rng.randrange(1 << skip))))
    pos = skip
    for blk in range(rng.choice([1, 1, 2, 3])):
        r = rng.randrange(20)
        if r < 6:
            ln = 0
        elif r < 10:
            ln = rng.choice([8, 16, 24])
        elif r < 13:
            ln = rng.randrange(1, 9)
        elif r < 15:
            ln = -rng.randrange(1, 10)
        else:
            ln = rng.randrange(0, 30)
        steps.append(("begin", ln))
        room = max(ln, 0)
        r = rng.randrange(20)
        fill = room if r < 12 else (max(room - rng.randrange(1, 9), 0) if r < 17 else room + rng.randrange(1, 4))
        left = ln
        todo = fill
        while todo > 0:
            if todo >= 8 and left >= 8 and pos % 8 == 0 and rng.random() < 0.5:
                steps.append(("op", ("bytes", 1, [rng.randrange(256)])))
                n = 8
            elif left >= 1:
                n = rng.randrange(1, min(todo, left, 9) + 1)
                steps.append(("op", ("nbits", n, rng.randrange(1 << n))))
            else:
                n = todo
                steps.append(("op", ("nbits", n, (1 << n) - 1)))  # past the end: 1s only
            pos += min(n, max(left, 0))
            left -= n
            todo -= n
        for _ in range(rng.choice([1, 1, 2])):
            op = gen_edge_value_op(rng, left)
            steps.append(("op", op))
            n = len(op_bits(op))
            pos += min(n, max(left, 0))
            left -= n
        steps.append(("end",))
        if rng.random() < 0.3:
            op = ("nbits", rng.randrange(1, 9), 0)
            op = (op[0], op[1], rng.randrange(1 << op[1]))
            steps.append(("op", op))
            pos += op[1]
    steps.append(("op", ("bytes", 1, [rng.randrange(256)])) if rng.random() < 0.5 else ("op", ("nbits", 8, rng.randrange(256))))
    return steps


def edge_reference(steps):
    """Property statement for the writer: per step (exception, tell, bits_remaining, return) and the bits in the file.
    Inside a block with r bits left an op with bits L is accepted iff L[max(r,0):] is all 1s; then only L[:max(r,0)]
    reaches the stream, tell() advances by that many and bits_remaining drops by len(L).  A 0 past the end raises
    ValueError (everything before it has been processed).  Evaluation stops at the first ValueError."""
    out, rem, log = [], None, []
    for st in steps:
        exc, ret = None, None
        if st[0] == "begin":
            rem = st[1]
        elif st[0] == "end":
            ret = max(0, rem)
            rem = None
        else:
            L = op_bits(st[1])
            if rem is None:
                out += L
            else:
                room = max(rem, 0)
                bad = [j for j in range(room, len(L)) if L[j] == 0]
                if bad:
                    out += L[:room]
                    rem -= bad[0] + 1
                    exc = "ValueError"
                else:
                    out += L[:room]
                    rem -= len(L)
        log.append((exc, len(out), rem, ret))
        if exc:
            break
    return out, log


def edge_case(steps):
    """Runs the scenario on the real writer, then reads it back with both readers.  Returns failures
    [(key, description, observed, expected)]."""
    bio, OutOfRangeError, eg, dio, UEOS_, State, bitarray = I()
    tob = bio.to_bit_offset
    steps = [tuple(st) if st[0] != "op" else ("op", tuple(st[1])) for st in steps]
    out, log = edge_reference(steps)
    fails = []
    f = io.BytesIO()
    w = bio.BitstreamWriter(f)
    for i, (st, (exc, pos, rem, ret)) in enumerate(zip(steps, log)):
        got_exc, got_ret = None, None
        try:
            if st[0] == "begin":
                w.bounded_block_begin(st[1])
            elif st[0] == "end":
                got_ret = w.bounded_block_end()
            else:
                getattr(w, "write_" + st[1][0])(*_wargs(st[1], bitarray))
        except Exception as e:  # noqa
            got_exc = "OutOfRangeError" if isinstance(e, OutOfRangeError) else type(e).__name__
        obs = (got_exc, tob(*w.tell()), w.bits_remaining, got_ret)
        if obs != (exc, pos, rem, ret):
            what = st[1][0] if st[0] == "op" else st[0]
            fails.append(("bounded-block-write_%s" % what,
                          "step %d %r: inside a bounded block bits past the end must be dropped if 1 and rejected (ValueError) if 0; tell() must not "
                          "pass the block end; bits_remaining must drop by the full length" % (i, st),
                          {"exception": obs[0], "tell": obs[1], "bits_remaining": obs[2], "returned": obs[3]},
                          {"exception": exc, "tell": pos, "bits_remaining": rem, "returned": ret}))
            return fails
    w.flush()
    data = list(bytearray(f.getvalue()))
    exp_bytes = []
    padded = out + [0] * (-len(out) % 8)
    for j in range(0, len(padded), 8):
        exp_bytes.append(int("".join(map(str, padded[j:j + 8])), 2))
    if data != exp_bytes:
        fails.append(("bounded-block-file-content", "the file must hold exactly the bits inside the blocks (zero padded)", data, exp_bytes))
        return fails
    if log[-1][0]:
        return fails  # ended with the expected ValueError: nothing to read back
    # ---- read back with both readers: same values, same positions, same counters
    r = bio.BitstreamReader(io.BytesIO(f.getvalue()))
    dec_ok = all(st[1] >= 0 for st in steps if st[0] == "begin")
    d = new_d(data) if dec_ok else None
    inblk = False
    for i, (st, (exc, pos, rem, ret)) in enumerate(zip(steps, log)):
        try:
            if st[0] == "begin":
                r.bounded_block_begin(st[1])
                inblk = True
                if d is not None:
                    d["bits_left"] = st[1]
                continue
            if st[0] == "end":
                n = r.bounded_block_end()
                inblk = False
                if n != ret:
                    fails.append(("bounded-block-reader-end", "BitstreamReader.bounded_block_end() differs from the writer's", n, ret))
                    return fails
                continue
            op = st[1]
            exp = _expected(op, bitarray)
            got = _rread(r, op)
            if got != exp or tob(*r.tell()) != pos or r.bits_remaining != rem:
                fails.append(("bounded-block-readback-bitstream-reader",
                              "step %d %r: BitstreamReader must read back what the writer accepted, at the writer's position and counter" % (i, st),
                              [repr(got), tob(*r.tell()), r.bits_remaining], [repr(exp), pos, rem]))
                return fails
            if d is not None:
                if inblk:
                    if op[0] == "uint":
                        gd = dio.read_uintb(d)
                    elif op[0] == "sint":
                        gd = dio.read_sintb(d)
                    else:
                        bits = [dio.read_bitb(d) for _ in range(len(op_bits(op)))]
                        gd = _from_bits(op, bits)
                else:
                    gd = _dread(dio, d, op)
                if gd != exp or tob(*dio.tell(d)) != pos or (inblk and d["bits_left"] != max(0, rem)):
                    fails.append(("bounded-block-readback-decoder-reader",
                                  "step %d %r: the decoder's reader must read back what the writer accepted, at the writer's position" % (i, st),
                                  [repr(gd), tob(*dio.tell(d)), d["bits_left"]], [repr(exp), pos, max(0, rem) if inblk else None]))
                    return fails
        except Exception as e:  # noqa
            fails.append(("bounded-block-readback-exception", "step %d %r: reading back raised" % (i, st), repr(e), "no exception"))
            return fails
    return fails


def _from_bits(op, bits):
    k = op[0]
    if k == "bit":
        return bits[0]
    if k in ("nbits", "uint_lit"):
        return int("".join(map(str, bits)) or "0", 2)
    if k == "bitarray":
        return bits
    return [int("".join(map(str, bits[j:j + 8])), 2) for j in range(0, len(bits), 8)]


def edge_read_case(c):
    """Reader-only: random data, a block positioned so that exactly 0 / 1..8 / negative bits remain, then a wide read.
    Expected: the file's bits up to the block end, then 1s; tell() stops at the block end; the counters drop by the
    full amount (BitstreamReader) / saturate at 0 (decoder, lengths >= 0)."""
    bio, OutOfRangeError, eg, dio, UEOS_, State, bitarray = I()
    tob = bio.to_bit_offset
    data, skip, ln, adv, op = c["data"], c["skip"], c["length"], c["advance"], tuple(c["op"])
    allbits = [(b >> (7 - j)) & 1 for b in data for j in range(8)]
    room = max(ln, 0)
    pos0 = skip + min(adv, room)
    rem0 = ln - adv
    left = max(rem0, 0)
    n = None if len(op) < 2 else (8 * op[1] if op[0] in ("bytes", "uint_lit") else op[1])
    stream = allbits[pos0:pos0 + left] + [1] * 4000
    if op[0] in ("uint", "sint"):
        j, value = 0, 1
        while stream[j] == 0:
            value = 2 * value + stream[j + 1]
            j += 2
        j += 1
        value -= 1
        if op[0] == "sint" and value != 0:
            value = -value if stream[j] else value
            j += 1
        n, exp = j, value
    else:
        exp = _from_bits(op, stream[:n])
    pos1, rem1 = pos0 + min(n, left), rem0 - n
    fails = []
    try:
        r = bio.BitstreamReader(io.BytesIO(bytes(bytearray(data))))
        r.read_nbits(skip)
        r.bounded_block_begin(ln)
        for _ in range(adv):
            r.read_bit()
        got = _rread(r, op)
        obs = [got, tob(*r.tell()), r.bits_remaining]
        if obs != [exp, pos1, rem1]:
            fails.append(("bounded-block-read_%s" % op[0], "BitstreamReader: bits past the end of the block read as 1, tell() stops at the end, bits_remaining drops by the full length",
                          repr(obs), repr([exp, pos1, rem1])))
        if ln >= 0:
            d = new_d(data)
            dio.read_nbits(d, skip)
            d["bits_left"] = ln
            for _ in range(adv):
                dio.read_bitb(d)
            if op[0] == "uint":
                gd = dio.read_uintb(d)
            elif op[0] == "sint":
                gd = dio.read_sintb(d)
            else:
                gd = _from_bits(op, [dio.read_bitb(d) for _ in range(n)])
            obs = [gd, tob(*dio.tell(d)), d["bits_left"]]
            if obs != [exp, pos1, max(0, rem1)]:
                fails.append(("decoder-bounded-block-read_%s" % op[0], "decoder reader: bits past the end of the block read as 1, tell() stops at the end",
                              repr(obs), repr([exp, pos1, max(0, rem1)])))
    except Exception as e:  # noqa
        fails.append(("bounded-block-read-exception", "a read inside a bounded block raised", repr(e), "no exception"))
    return fails


def gen_edge_read_case(rng):
    skip = rng.choice([0, 0, 8, 8, 16, rng.randrange(0, 16)])
    r = rng.randrange(20)
    ln = 0 if r < 6 else (rng.choice([8, 16, 24]) if r < 11 else (rng.randrange(1, 9) if r < 14 else (-rng.randrange(1, 10) if r < 16 else rng.randrange(0, 30))))
    room = max(ln, 0)
    r = rng.randrange(20)
    adv = room if r < 12 else (max(room - rng.randrange(1, 9), 0) if r < 17 else room + rng.randrange(1, 4))
    k = rng.randrange(8)
    nby = rng.randrange(1, 4)
    op = [("bytes", nby), ("bytes", nby), ("bitarray", 8 * nby + rng.randrange(3)), ("bitarray", 8 * nby), ("nbits", rng.randrange(8, 26)),
          ("uint_lit", nby), ("uint",), ("sint",)][k]
    nbytes = (skip + room) // 8 + 2
    style = rng.randrange(3)
    data = [rng.randrange(256) if style else rng.choice([0, 255]) for _ in range(nbytes)]
    return {"data": data, "skip": skip, "length": ln, "advance": adv, "op": list(op)}


def steps_to_wops(steps):
    return [st[1] if st[0] == "op" else st for st in steps]


def steps_to_rops(steps):
    out = []
    for st in steps:
        if st[0] != "op":
            out.append(st)
        else:
            op = st[1]
            out.append((op[0],) if op[0] in ("bit", "uint", "sint") else (op[0], op[1]))
    return out


def steps_to_dops(steps):
    out, inblk = [], False
    for st in steps:
        if st[0] == "begin":
            out.append(("setleft", st[1]))
            inblk = True
        elif st[0] == "end":
            out.append(("flush",))
            inblk = False
        else:
            op = st[1]
            if not inblk:
                out.append({"bit": ("bit",), "uint": ("uint",), "sint": ("sint",), "uint_lit": ("uint_lit", op[1]) if len(op) > 1 else None,
                            "bytes": ("nbits", 8 * op[1]) if len(op) > 1 else None}.get(op[0]) or ("nbits", op[1]))
            elif op[0] == "uint":
                out.append(("uintb",))
            elif op[0] == "sint":
                out.append(("sintb",))
            else:
                out += [("bitb",)] * min(len(op_bits(op)), 12)
    return out


# ------------------------------------------------------------------ reference writer (seek / flush / tell mid-byte)
def ref_writer_run(ops):
    """Bit-level statement of BitstreamWriter outside bounded blocks: bits are assembled MSB first into the byte at the
    current offset; a byte reaches the file when it is complete, on flush() and on seek() whenever at least one bit of
    it has been written (whatever the bit values); seek() restarts the target byte from zero at the given bit.
    Returns (tell after each op as a bit offset, final file bytes after a last flush)."""
    f, pos, nb, cur, tells = [], 0, 7, 0, []

    def commit():
        while len(f) < pos:
            f.append(0)
        if pos < len(f):
            f[pos] = cur
        else:
            f.append(cur)

    for op in ops:
        if op[0] == "flush":
            if nb != 7:
                commit()
        elif op[0] == "seek":
            if nb != 7:
                commit()
            pos, nb, cur = op[1], op[2], 0
        else:
            for b in op_bits(op):
                cur |= b << nb
                nb -= 1
                if nb < 0:
                    commit()
                    pos, nb, cur = pos + 1, 7, 0
        tells.append(pos * 8 + 7 - nb)
    if nb != 7:
        commit()
    return tells, f


def gen_seek_wops(rng):
    """writes, then seeks back over written bytes (mid-byte), partial overwrites with 0 bits / 1 bits / data, seeks and
    flushes with a pending partial byte (also all-zero, also at the end of the file)"""
    ops = []
    for _ in range(rng.randrange(1, 6)):
        k = rng.randrange(4)
        if k == 0:
            ops.append(("bytes", 1, [rng.choice([255, 255, rng.randrange(1, 256)])]))
        elif k == 1:
            n = rng.randrange(1, 20)
            ops.append(("nbits", n, rng.choice([(1 << n) - 1, rng.randrange(1 << n)])))
        elif k == 2:
            ops.append(("sint", rng.randrange(-40, 40)))
        else:
            ops.append(("uint", rng.randrange(0, 70)))
    size = sum(len(op_bits(o)) for o in ops) // 8 + 1
    for _ in range(rng.randrange(1, 5)):
        r = rng.random()
        by = rng.randrange(0, size + 1) if r < 0.8 else size + rng.randrange(0, 2)
        ops.append(("seek", by, rng.randrange(0, 8)))
        style = rng.randrange(4)  # 0,1: zeros
        n = rng.choice([rng.randrange(1, 8), rng.randrange(1, 8), rng.randrange(8, 20)])
        if style < 2:
            ops.append(rng.choice([("nbits", n, 0), ("bitarray", n, []), ("bitarray", n, [False] * n)]))
        elif style == 2:
            ops.append(("nbits", n, (1 << n) - 1))
        else:
            ops.append(rng.choice([("nbits", n, rng.randrange(1 << n)), ("sint", rng.randrange(-9, 9))]))
        if rng.random() < 0.3:
            ops.append(("flush",))
        if rng.random() < 0.2:
            ops.append(("nbits", rng.randrange(1, 5), 0))
    if rng.random() < 0.5:
        ops.append(("seek", rng.randrange(0, size + 2), rng.randrange(0, 8)))
    return ops


def seek_write_case(ops):
    """real BitstreamWriter vs the reference on an op sequence with seeks; then both readers on the resulting file"""
    bio, OutOfRangeError, eg, dio, UEOS_, State, bitarray = I()
    tob = bio.to_bit_offset
    ops = [tuple(o) for o in ops]
    tells, ref = ref_writer_run(ops)
    fails = []
    f = io.BytesIO()
    w = bio.BitstreamWriter(f)
    try:
        for i, (op, t) in enumerate(zip(ops, tells)):
            if op[0] == "flush":
                w.flush()
            elif op[0] == "seek":
                w.seek(op[1], op[2])
            else:
                getattr(w, "write_" + op[0])(*_wargs(op, bitarray))
            if tob(*w.tell()) != t:
                fails.append(("writer-tell-after-seek-sequence", "op %d %r: tell() differs from the bit-level reference" % (i, op), tob(*w.tell()), t))
                return fails
        w.flush()
    except Exception as e:  # noqa
        fails.append(("writer-seek-sequence-raises", "a legal write/seek/flush sequence raised", repr(e), "no exception"))
        return fails
    data = list(bytearray(f.getvalue()))
    if data != ref:
        fails.append(("writer-file-after-seek-sequence",
                      "after writes, seeks and flushes (also mid-byte, also over written bytes, also with an all-zero partial byte pending) the file "
                      "must hold every byte that had at least one bit written, as written last", data, ref))
        return fails
    # both readers see exactly these bits, and the last write of the sequence reads back where it was written
    refbits = [(b >> (7 - j)) & 1 for b in ref for j in range(8)]
    r = bio.BitstreamReader(io.BytesIO(f.getvalue()))
    d = new_d(data)
    got = [r.read_bit() for _ in refbits]
    gd = [dio.read_bit(d) for _ in refbits]
    if got != refbits or gd != refbits:
        fails.append(("readers-after-seek-sequence", "both readers must read the written file bit for bit", [got, gd], refbits))
    last = [i for i, op in enumerate(ops) if op[0] not in ("flush", "seek")]
    if last and not any(op[0] == "seek" for op in ops[last[-1] + 1:]):  # a later seek may legitimately clobber it
        i = last[-1]
        start = tells[i - 1] if i else 0
        op = ops[i]
        exp = _expected(op, bitarray)
        r.seek(*bio.from_bit_offset(start))
        d = new_d(data)
        dio.read_nbits(d, start)
        g1, g2 = _rread(r, op), _dread(dio, d, op)
        if g1 != exp or g2 != exp or tob(*r.tell()) != tells[i] or tob(*dio.tell(d)) != tells[i]:
            fails.append(("readback-after-seek-sequence", "the last value written after a seek must read back at its position with both readers",
                          [repr(g1), repr(g2), tob(*r.tell()), tob(*dio.tell(d))], [repr(exp), repr(exp), tells[i], tells[i]]))
    return fails


# ------------------------------------------------------------------ exhaustive integer sweep (reusable: see expgolomb_sweep)
def sweep_values(kind, values, block=False, batch=512, limit=4):
    """write_<kind> / read_<kind> (kind in 'sint', 'uint') for every value, against the closed-form exp-Golomb code:
    bits in the file, tell(), the exp_golomb length functions, BitstreamReader and the decoder's reader (inside one bounded
    block spanning the batch when block=True: read_uintb/read_sintb).  Returns [(key, input, description, observed, expected)]."""
    bio, OutOfRangeError, eg, dio, UEOS_, State, bitarray = I()
    tob = bio.to_bit_offset
    lenfn = eg.signed_exp_golomb_length if kind == "sint" else eg.exp_golomb_length
    fails = []

    def fail(key, v, desc, obs, exp):
        if len([1 for x in fails if x[0] == key]) < limit:
            fails.append((key, {"sweep": kind, "value": str(v), "block": block}, desc, obs, exp))

    values = list(values)
    for b0 in range(0, len(values), batch):
        chunk = values[b0:b0 + batch]
        codes = [op_bits((kind, v)) for v in chunk]
        total = sum(len(c) for c in codes)
        f = io.BytesIO()
        w = bio.BitstreamWriter(f)
        if block:
            w.bounded_block_begin(total)
        marks, ok = [], True
        for v in chunk:
            try:
                getattr(w, "write_" + kind)(v)
            except Exception as e:  # noqa
                fail("%s-write-raises" % kind, v, "write_%s raised" % kind, repr(e), "no exception")
                ok = False
                break
            marks.append(tob(*w.tell()))
        if not ok:
            continue
        if block and (w.bits_remaining != 0 or w.bounded_block_end() != 0):
            fail("%s-block-count" % kind, chunk[0], "a block of exactly the closed-form total length must end with 0 bits remaining", w.bits_remaining, 0)
            continue
        w.flush()
        raw = f.getvalue()
        allbits = [(b >> (7 - j)) & 1 for b in bytearray(raw) for j in range(8)]
        pos = 0
        for v, c, m in zip(chunk, codes, marks):
            if allbits[pos:m] != c or lenfn(v) != len(c):
                fail("%s-code-differs" % kind, v, "write_%s must emit the closed-form exp-Golomb code and the length function must equal its length" % kind,
                     {"bits": "".join(map(str, allbits[pos:m])), "length_fn": lenfn(v)}, {"bits": "".join(map(str, c)), "length_fn": len(c)})
            pos = m
        r = bio.BitstreamReader(io.BytesIO(raw))
        d = new_d(list(bytearray(raw)))
        if block:
            r.bounded_block_begin(total)
            d["bits_left"] = total
        rd = getattr(r, "read_" + kind)
        dd = getattr(dio, "read_" + kind + ("b" if block else ""))
        dec_alive = True
        for v, m in zip(chunk, marks):
            try:
                g = rd()
            except Exception as e:  # noqa
                g = repr(e)
            if g != v or tob(*r.tell()) != m:
                fail("%s-readback-bitstream-reader" % kind, v, "BitstreamReader.read_%s must return the value written, at the writer's position" % kind,
                     [str(g), tob(*r.tell())], [str(v), m])
                try:
                    r.seek(*bio.from_bit_offset(m))
                except Exception:
                    break
            if dec_alive:
                try:
                    g = dd(d)
                except Exception as e:  # noqa
                    g = repr(e)
                if g != v or tob(*dio.tell(d)) != m:
                    fail("%s-readback-decoder-reader" % kind, v, "the decoder's read_%s must return the value written, at the writer's position" % kind,
                         [str(g), tob(*dio.tell(d))], [str(v), m])
                    dec_alive = False
    return fails


def sweep_nbits(limit=4):
    """write_nbits / read_nbits for every width 0..18 at the boundary values, in and out of range, inside and outside a block"""
    bio, OutOfRangeError, eg, dio, UEOS_, State, bitarray = I()
    tob = bio.to_bit_offset
    fails = []
    for n in range(0, 19):
        vals = sorted(set(v for v in [0, 1, 2, (1 << n) - 2, (1 << n) - 1, 1 << max(n - 1, 0), (1 << max(n - 1, 0)) - 1, (1 << max(n - 1, 0)) + 1]
                          if 0 <= v < (1 << n)))
        for block in (False, True):
            f = io.BytesIO()
            w = bio.BitstreamWriter(f)
            if block:
                w.bounded_block_begin(n * len(vals))
            for v in vals:
                w.write_nbits(n, v)
            for bad in (-1, 1 << n, (1 << n) + 1):
                before = (w.tell(), w.bits_remaining)
                try:
                    w.write_nbits(n, bad)
                    res = "accepted"
                except OutOfRangeError:
                    res = "OutOfRangeError"
                except Exception as e:  # noqa
                    res = type(e).__name__
                if res != "OutOfRangeError" or (w.tell(), w.bits_remaining) != before:
                    fails.append(("nbits-out-of-range", {"sweep": "nbits", "n": n, "value": bad, "block": block}, "out-of-range value must raise OutOfRangeError and write nothing", res, "OutOfRangeError"))
            w.flush()
            raw = f.getvalue()
            exp = [int(ch) for v in vals for ch in (format(v, "0%db" % n) if n else "")]
            allbits = [(b >> (7 - j)) & 1 for b in bytearray(raw) for j in range(8)]
            r = bio.BitstreamReader(io.BytesIO(raw))
            d = new_d(list(bytearray(raw)))
            if block:
                r.bounded_block_begin(n * len(vals))
            g1 = [r.read_nbits(n) for _ in vals]
            g2 = [dio.read_nbits(d, n) for _ in vals]
            if allbits[:len(exp)] != exp or g1 != vals or g2 != vals or tob(*r.tell()) != len(exp) or tob(*dio.tell(d)) != len(exp):
                fails.append(("nbits-boundary-roundtrip", {"sweep": "nbits", "n": n, "values": vals, "block": block},
                              "write_nbits/read_nbits must round trip every boundary value as n big-endian bits", [g1, g2], vals))
    return fails[:limit * 2]


def sweep_value_set(small=(1 << 14) + 2, kmax=200):
    vals = set(range(-small, small + 1))
    for k in range(0, kmax + 1):
        for dlt in range(-2, 3):
            vals.add((1 << k) + dlt)
            vals.add(-((1 << k) + dlt))
    return sorted(vals)


def expgolomb_sweep(small=(1 << 14) + 2, kmax=200):
    """EXHAUSTIVE write->read sweep over every integer in -small..small and +-(2^k-2..2^k+2), k <= kmax: sint and uint
    outside a block, the non-small part and |v| <= 4200 also inside a block, nbits boundary values for n <= 18.
    Reuse from another harness:
        from C20 import expgolomb_sweep
        for key, inp, desc, obs, exp in expgolomb_sweep(): ctx.violation(key, inp, desc, observed=obs, expected=exp)"""
    vals = sweep_value_set(small, kmax)
    inblock = [v for v in vals if abs(v) <= 4200 or abs(v) > small]
    fails = sweep_values("sint", vals) + sweep_values("uint", [v for v in vals if v >= 0])
    fails += sweep_values("sint", inblock, block=True) + sweep_values("uint", [v for v in inblock if v >= 0], block=True)
    fails += sweep_nbits()
    return fails


def _try_bits(r, n):
    out = []
    try:
        for _ in range(n):
            out.append(r.read_bit())
    except EOFError:
        out.append("EOF")
    return out


def _wargs(op, bitarray):
    k = op[0]
    if k == "bitarray":
        return [op[1], bitarray(op[2])]
    if k == "bytes":
        return [op[1], bytes(bytearray(op[2]))]
    return list(op[1:])


def _expected(op, bitarray):
    k = op[0]
    if k == "bit":
        return int(op[1])
    if k in ("nbits", "uint_lit"):
        return op[2]
    if k == "bitarray":
        return [int(b) for b in op[2]] + [0] * (op[1] - len(op[2]))
    if k == "bytes":
        return op[2] + [0] * (op[1] - len(op[2]))
    return op[1]


def _rread(r, op):
    k = op[0]
    if k == "bit":
        return r.read_bit()
    if k == "nbits":
        return r.read_nbits(op[1])
    if k == "uint_lit":
        return r.read_uint_lit(op[1])
    if k == "bitarray":
        return [int(b) for b in r.read_bitarray(op[1])]
    if k == "bytes":
        return list(bytearray(r.read_bytes(op[1])))
    if k == "uint":
        return r.read_uint()
    return r.read_sint()


def _dread(dio, st, op):
    """the decoder has no bitarray/bytes primitive: read them as bits / nbits"""
    k = op[0]
    if k == "bit":
        return dio.read_bit(st)
    if k == "nbits":
        return dio.read_nbits(st, op[1])
    if k == "uint_lit":
        return dio.read_uint_lit(st, op[1])
    if k == "bitarray":
        return [dio.read_bit(st) for _ in range(op[1])]
    if k == "bytes":
        return [dio.read_nbits(st, 8) for _ in range(op[1])]
    if k == "uint":
        return dio.read_uint(st)
    return dio.read_sint(st)


def _j(ops):
    return [[str(x) if isinstance(x, int) and abs(x) > 1 << 60 else x for x in op] for op in ops]


def _unj(ops):
    out = []
    for op in ops:
        op = [int(x) if isinstance(x, str) and x.lstrip("-").isdigit() else x for x in op]
        out.append(tuple(op))
    return out


def replay(ctx, data):
    bio, OutOfRangeError, eg, dio, UEOS_, State, bitarray = I()
    inp = data["input"]
    key = data["key"]
    print("replaying", key, inp)
    tob = bio.to_bit_offset
    bad = True
    if key == "readers-disagree":
        prog = [tuple(op[:2]) + ((list(op[2]),) if len(op) > 2 else ()) for op in inp["prog"]]
        a, b = prog_r(inp["file"], prog), prog_d(inp["file"], prog)
        print("BitstreamReader:", a)
        print("decoder reader :", b)
        bad = a != b
    elif key in ("exp_golomb_length-differs", "signed_exp_golomb_length-differs"):
        v = int(inp["value"])
        f = io.BytesIO()
        w = bio.BitstreamWriter(f)
        if key.startswith("signed"):
            w.write_sint(v)
            exp = eg.signed_exp_golomb_length(v)
        else:
            w.write_uint(v)
            exp = eg.exp_golomb_length(v)
        print("bits written", tob(*w.tell()), "length function", exp)
        bad = tob(*w.tell()) != exp
    elif key == "out-of-range-not-rejected":
        f = io.BytesIO()
        w = bio.BitstreamWriter(f)
        for op in _unj(inp["pre"]):
            getattr(w, "write_" + op[0])(*_wargs(op, bitarray))
        if inp["block"] is not None:
            w.bounded_block_begin(inp["block"])
        w.flush()
        before = (f.getvalue(), w.tell(), w.bits_remaining)
        op = _unj(inp["op"])[0]
        try:
            getattr(w, "write_" + op[0])(*_wargs(op, bitarray))
            raised = None
        except Exception as e:  # noqa
            raised = type(e).__name__
        w.flush()
        after = (f.getvalue(), w.tell(), w.bits_remaining)
        print("raised:", raised, "before:", before, "after:", after)
        bad = raised != "OutOfRangeError" or before != after
    elif key in ("roundtrip-bitstream-reader", "roundtrip-decoder-reader", "plain-write-raises", "reader-position", "write-position"):
        ops = _unj(inp.get("ops", inp.get("op")))
        f = io.BytesIO()
        w = bio.BitstreamWriter(f)
        bad = False
        try:
            for op in ops:
                getattr(w, "write_" + op[0])(*_wargs(op, bitarray))
            w.flush()
            r = bio.BitstreamReader(io.BytesIO(f.getvalue()))
            st = new_d(list(bytearray(f.getvalue())))
            for op in ops:
                exp, got, gd = _expected(op, bitarray), _rread(r, op), _dread(dio, st, op)
                print(op[0], "expected", exp, "BitstreamReader", got, tob(*r.tell()), "decoder", gd, tob(*dio.tell(st)))
                bad = bad or got != exp or gd != exp or tob(*r.tell()) != tob(*dio.tell(st))
        except Exception as e:  # noqa
            print("raised", repr(e))
            bad = True
    elif isinstance(inp, dict) and "seek_ops" in inp:
        fails = seek_write_case(_unj(inp["seek_ops"]))
        for k, desc, observed, expected in fails:
            print(" -", k, ":", desc, "| observed", observed, "| expected", expected)
        bad = bool(fails)
    elif isinstance(inp, dict) and inp.get("sweep") in ("sint", "uint"):
        fails = sweep_values(inp["sweep"], [int(inp["value"])], block=bool(inp.get("block")))
        for k, i2, desc, observed, expected in fails:
            print(" -", k, ":", desc, "| observed", observed, "| expected", expected)
        bad = bool(fails)
    elif isinstance(inp, dict) and inp.get("sweep") == "nbits":
        fails = [x for x in sweep_nbits(limit=1000) if x[1]["n"] == inp["n"]]
        for k, i2, desc, observed, expected in fails:
            print(" -", k, i2, ":", desc, "| observed", observed, "| expected", expected)
        bad = bool(fails)
    elif isinstance(inp, dict) and ("edge_steps" in inp or "edge_read" in inp):
        if "edge_steps" in inp:
            steps = [tuple(st) if st[0] != "op" else ("op", _unj([st[1]])[0]) for st in inp["edge_steps"]]
            fails = edge_case(steps)
        else:
            fails = edge_read_case(inp["edge_read"])
        for k, desc, observed, expected in fails:
            print(" -", k, ":", desc, "| observed", observed, "| expected", expected)
        bad = bool(fails)
    elif isinstance(inp, dict) and inp.get("who") in ("writer", "reader") and "target" in inp:
        fails = seek_block_case(inp)
        for k, desc, observed, expected in fails:
            print(" -", k, ":", desc, "| observed", observed, "| expected", expected)
        bad = bool(fails)
    else:
        print("observed:", data.get("observed"), "expected:", data.get("expected"))
        print("re-run `./check C20` to re-evaluate this oracle clause (generators are seeded: VERIF_SEED=%s)" % data.get("seed"))
    print("property violated on this input:", bad)
    return 1 if bad else 0
