"""C13 harness: correspondence of Gen/SliceSizes.v with vc2_conformance.pseudocode.slice_sizes
(validates the translator on all eight functions) and the property oracle on the implementation.

Cases
  box    : states (w, h, dwt_depth, dwt_depth_ho, slices_x, slices_y), w,h in 1..24, depths 0..3 x 0..3,
           slices 1..8 x 1..8 (luma = (w,h); colour-difference size and slice_bytes fraction derived
           from the indices).  Every function is called for every component, every level
           0..dh+d+1 and every slice index; Coq enumerates the same states from the indices
           (number literals are what costs time in coqc), recomputes the same lists and compares an
           order-sensitive checksum per (w,h,d,dh) group of 64 slice counts (states of mismatching
           groups are re-run one by one, then with the full lists).
           quick: a random 1/16 of the (w,h,d,dh) groups; thorough: the whole box.
  full   : random states from a wider box (sizes 0..40, depths 0..4, slices 1..10) compared value by value.
  point  : single calls with values up to 2^40, sizes 2^k-1 / 2^k / 2^k+1 / random for k up to 80
           (half of them k = 53..64, where a double stops being exact) with slice counts up to 2^40,
           a handful of states with transform depths up to 1200, and malformed inputs (zero/negative
           slice counts, depths, denominators, levels outside the range): value or "raised" must
           agree with f / f_dom.  The same identities are also checked on the implementation alone
           (oracle-huge) for every k <= 80 x {-1, 0, +1} and random huge states.
Oracle (implementation only): partition / exactly-once cover, subband dimensions against an
independent computation and against the arrays produced by the real dwt(), the flag against the
brute-force comparison of all slice sizes, slice_bytes >= 0 and its sum.
"""
import bisect
import multiprocessing

from vlib import cz, clist, copt

COMPS = ["Y", "C1", "C2"]
HASH_MASK = (1 << 61) - 1
NMAX = 8  # slice counts 1..NMAX in each direction


def impl():
    from vc2_conformance.pseudocode import slice_sizes as ss
    return ss


def mkstate(t):
    lw, lh, cw, ch, d, dh, nx, ny, num, den = t
    return {
        "luma_width": lw, "luma_height": lh, "color_diff_width": cw, "color_diff_height": ch,
        "dwt_depth": d, "dwt_depth_ho": dh, "slices_x": nx, "slices_y": ny,
        "slice_bytes_numerator": num, "slice_bytes_denominator": den,
    }


def cstate(t):
    return "(" + ", ".join(cz(v) for v in t) + ")"


def hash_obs(obs):
    h = 7
    for v in obs:
        h = (h * 1000003 + v + 1) & HASH_MASK
    return h


def box_state(w, h, d, dh, nx, ny):
    """luma = (w, h); colour difference 4:4:4 / 4:2:2 / 4:2:0 by index; slice_bytes fraction by index."""
    mode = (w + h + d) % 3
    cw = w if mode == 0 else (w + 1) // 2
    ch = (h + 1) // 2 if mode == 2 else h
    num = (w * 31 + h * 17 + nx * 5 + dh) % 97
    den = (h * 7 + w + ny) % 13 + 1
    return (w, h, cw, ch, d, dh, nx, ny, num, den)


# ---------------------------------------------------------------------------------------------
# observation of one state (all calls) + the property oracle on it
# ---------------------------------------------------------------------------------------------

def observe(ss, t):
    """Calls every function on every (component, level 0..dh+d+1, slice index).  Returns
    (flat observation in the order of Corr.C13.obs_full, structured data)."""
    st = mkstate(t)
    d, dh, nx, ny = t[4], t[5], t[6], t[7]
    flat, bands = [], {}
    for c in COMPS:
        for l in range(d + dh + 2):
            W = ss.subband_width(st, l, c)
            H = ss.subband_height(st, l, c)
            xs = [(ss.slice_left(st, sx, c, l), ss.slice_right(st, sx, c, l)) for sx in range(nx)]
            ys = [(ss.slice_top(st, sy, c, l), ss.slice_bottom(st, sy, c, l)) for sy in range(ny)]
            bands[(c, l)] = (W, H, xs, ys)
            flat.append(W)
            flat.append(H)
            for a, b in xs:
                flat.append(a)
                flat.append(b)
            for a, b in ys:
                flat.append(a)
                flat.append(b)
    sb = [ss.slice_bytes(st, sx, sy) for sy in range(ny) for sx in range(nx)]
    flag = ss.slices_have_same_dimensions(st)
    flat.extend(sb)
    flat.append(1 if flag else 0)
    return flat, (bands, sb, flag)


def ceil_to_multiple(a, s):
    """least multiple of s that is >= a, by search (independent of the code's formula)"""
    m = (a // s) * s
    while m < a:
        m += s
    return m


def expected_dims(t, c, l):
    lw, lh, cw, ch, d, dh = t[:6]
    w, h = (lw, lh) if c == "Y" else (cw, ch)
    pw = ceil_to_multiple(w, 2 ** (d + dh))
    ph = ceil_to_multiple(h, 2 ** d)
    # shapes of the transform: DC, then dh horizontal-only levels, then d two-dimensional levels
    W, H = pw, ph
    for _ in range(d):
        assert W % 2 == 0 and H % 2 == 0
        W, H = W // 2, H // 2
    for _ in range(dh):
        assert W % 2 == 0
        W = W // 2
    # (W, H) is the DC band; level n >= 1 has the shape of the low band after n-1 synthesis levels
    for n in range(1, l):
        W = 2 * W
        if n > dh:
            H = 2 * H
    return W, H


def check_partition(cuts, total):
    """cuts = [(lo, hi)] per slice index.  Returns a description of the first failure or None."""
    n = len(cuts)
    if cuts[0][0] != 0:
        return "first slice does not start at 0"
    if cuts[n - 1][1] != total:
        return "last slice does not end at the subband size"
    for i, (a, b) in enumerate(cuts):
        if not a <= b:
            return "slice %d has start > end" % i
        if i + 1 < n and b != cuts[i + 1][0]:
            return "slice %d end != slice %d start" % (i, i + 1)
    count = [0] * max(total, 0)
    for a, b in cuts:
        for x in range(max(a, 0), min(b, total)):
            count[x] += 1
    for x, k in enumerate(count):
        if k != 1:
            return "coordinate %d covered %d times" % (x, k)
    return None


def oracle_state(t, data):
    """The property, evaluated on the implementation's values of one state.  Returns [(key, desc, observed, expected)]."""
    bands, sb, flag = data
    lw, lh, cw, ch, d, dh, nx, ny, num, den = t
    out = []
    all_same = True
    for (c, l), (W, H, xs, ys) in bands.items():
        eW, eH = expected_dims(t, c, l)
        if (W, H) != (eW, eH):
            out.append(("subband-dims", "subband %s level %d is %dx%d, the transform needs %dx%d" % (c, l, W, H, eW, eH),
                        [W, H], [eW, eH]))
        r = check_partition(xs, W)
        if r:
            out.append(("partition-x", "%s level %d: %s" % (c, l, r), xs, W))
        r = check_partition(ys, H)
        if r:
            out.append(("partition-y", "%s level %d: %s" % (c, l, r), ys, H))
        if l <= d + dh:
            if len(set(b - a for a, b in xs)) > 1 or len(set(b - a for a, b in ys)) > 1:
                all_same = False
    if bool(flag) != all_same:
        out.append(("same-dims-flag", "slices_have_same_dimensions=%r but brute force says %r" % (flag, all_same), flag, all_same))
    if num >= 0 and den > 0:
        if any(v < 0 for v in sb):
            out.append(("slice-bytes-negative", "negative slice_bytes", min(sb), ">= 0"))
        if sum(sb) != (nx * ny * num) // den:
            out.append(("slice-bytes-sum", "sum of slice_bytes over the picture", sum(sb), (nx * ny * num) // den))
    return out


def is_good(t):
    lw, lh, cw, ch, d, dh, nx, ny, num, den = t
    return nx >= 1 and ny >= 1 and min(lw, lh, cw, ch, d, dh) >= 0


def nontrivial(t, data):
    """padding or uneven partition really happen"""
    bands, sb, flag = data
    lw, lh, d, dh = t[0], t[1], t[4], t[5]
    return (not flag) or lw % (1 << (d + dh)) != 0 or lh % (1 << d) != 0


def _work(chunk):
    """runs in a worker process: [(state)] -> [(hash, nontrivial, violations | exception text)]"""
    ss = impl()
    res = []
    for t in chunk:
        try:
            flat, data = observe(ss, t)
        except Exception as e:  # the property says no exception on these states
            res.append((None, False, [("raises", "exception %r" % (e,), repr(e), "no exception")]))
            continue
        res.append((hash_obs(flat), nontrivial(t, data), oracle_state(t, data)))
    return res


def run_states(states, jobs=16):
    if len(states) < 2000:
        return _work(states)
    n = max(1, len(states) // (jobs * 8))
    chunks = [states[i:i + n] for i in range(0, len(states), n)]
    with multiprocessing.get_context("fork").Pool(jobs) as pool:
        parts = pool.map(_work, chunks)
    return [r for p in parts for r in p]


# ---------------------------------------------------------------------------------------------
# single calls (big values, malformed inputs)
# ---------------------------------------------------------------------------------------------

def call(f, *a):
    try:
        v = f(*a)
    except Exception:
        return None
    if v is None:  # fall-through without a return
        return None
    return int(v)


def observe_point(ss, t, l, k, sx, sy):
    st = mkstate(t)
    c = COMPS[k]
    return [
        call(ss.subband_width, st, l, c),
        call(ss.subband_height, st, l, c),
        call(ss.slice_bytes, st, sx, sy),
        call(ss.slice_left, st, sx, c, l),
        call(ss.slice_right, st, sx, c, l),
        call(ss.slice_top, st, sy, c, l),
        call(ss.slice_bottom, st, sy, c, l),
        call(ss.slices_have_same_dimensions, st),
    ]


def oracle_point(ss, t, l, k, sx, sy, rng):
    """Property at one (level, component, slice) of a state too large to enumerate."""
    lw, lh, cw, ch, d, dh, nx, ny, num, den = t
    if not (is_good(t) and 0 <= l <= d + dh + 1 and 0 <= sx < nx and 0 <= sy < ny):
        return []
    st = mkstate(t)
    c = COMPS[k]
    out = []
    try:
        W, H = ss.subband_width(st, l, c), ss.subband_height(st, l, c)
        if (W, H) != expected_dims(t, c, l):
            out.append(("subband-dims", "subband %s level %d is %dx%d, the transform needs %r" % (c, l, W, H, expected_dims(t, c, l)),
                        [W, H], list(expected_dims(t, c, l))))
        for (lo, hi, n, s, total, key) in ((ss.slice_left, ss.slice_right, nx, sx, W, "partition-x"),
                                           (ss.slice_top, ss.slice_bottom, ny, sy, H, "partition-y")):
            if lo(st, 0, c, l) != 0 or hi(st, n - 1, c, l) != total:
                out.append((key, "%s level %d: ends are not 0 / subband size" % (c, l), [lo(st, 0, c, l), hi(st, n - 1, c, l)], [0, total]))
            a, b = lo(st, s, c, l), hi(st, s, c, l)
            if not 0 <= a <= b <= total:
                out.append((key, "%s level %d slice %d: not 0 <= start <= end <= size" % (c, l, s), [a, b], total))
            if s + 1 < n and b != lo(st, s + 1, c, l):
                out.append((key, "%s level %d: slice %d end != next start" % (c, l, s), b, lo(st, s + 1, c, l)))
            if total > 0:
                # the slice holding a random coordinate, found by bisection on the (monotone) starts
                x = rng.randrange(total)

                class Starts(object):
                    def __len__(self):
                        return n

                    def __getitem__(self, i):
                        return lo(st, i, c, l)
                i = bisect.bisect_right(Starts(), x) - 1
                holders = [j for j in range(max(0, i - 2), min(n, i + 3)) if lo(st, j, c, l) <= x < hi(st, j, c, l)]
                if len(holders) != 1:
                    out.append((key, "%s level %d: coordinate %d is in slices %r" % (c, l, x, holders), holders, "exactly one"))
        if den > 0 and num >= 0 and ss.slice_bytes(st, sx, sy) < 0:
            out.append(("slice-bytes-negative", "negative slice_bytes", ss.slice_bytes(st, sx, sy), ">= 0"))
        if den > 0 and num >= 0 and nx * ny <= 4096:
            tot = sum(ss.slice_bytes(st, i, j) for j in range(ny) for i in range(nx))
            if tot != (nx * ny * num) // den:
                out.append(("slice-bytes-sum", "sum of slice_bytes over the picture", tot, (nx * ny * num) // den))
    except Exception as e:
        out.append(("raises", "exception %r" % (e,), repr(e), "no exception"))
    return out


# ---------------------------------------------------------------------------------------------
# the real transform
# ---------------------------------------------------------------------------------------------

def dwt_shapes_check(ctx, ss, sizes):
    """Run the implementation's dwt() on padded pictures and compare the coefficient array
    shapes with subband_width / subband_height at every level."""
    from vc2_conformance.pseudocode import picture_encoding as pe
    n = 0
    for (w, h) in sizes:
        for d in range(4):
            for dh in range(4):
                st = mkstate((w, h, w, h, d, dh, 1, 1, 0, 1))
                st["wavelet_index"] = 4  # Haar with shift
                st["wavelet_index_ho"] = 3  # Haar without shift
                pic = [[(x * 7 + y * 3) % 11 for x in range(w)] for y in range(h)]
                try:
                    pe.dwt_pad_addition(st, pic, "Y")
                    coeffs = pe.dwt(st, pic)
                except Exception as e:
                    ctx.violation("dwt-shape", {"w": w, "h": h, "dwt_depth": d, "dwt_depth_ho": dh},
                                  "dwt of the padded picture raises %r" % (e,))
                    continue
                n += 1
                ctx.count(1, bucket="dwt-shape")
                for level, bands in coeffs.items():
                    for orient, arr in bands.items():
                        shape = (len(arr[0]) if arr else 0, len(arr))
                        exp = (ss.subband_width(st, level, "Y"), ss.subband_height(st, level, "Y"))
                        if shape != exp:
                            ctx.violation("dwt-shape", {"w": w, "h": h, "dwt_depth": d, "dwt_depth_ho": dh, "level": level},
                                          "dwt() produced a %s band of %dx%d but subband_width/height say %dx%d" % (
                                              orient, shape[0], shape[1], exp[0], exp[1]), observed=list(shape), expected=list(exp))
                if sorted(coeffs.keys()) != list(range(d + dh + 1)):
                    ctx.violation("dwt-shape", {"w": w, "h": h, "dwt_depth": d, "dwt_depth_ho": dh}, "unexpected level set %r" % sorted(coeffs.keys()))
    return n


# ---------------------------------------------------------------------------------------------

def huge_value(rng, kmax=80):
    """sizes around powers of two, especially 2^53..2^64 where floating point stops being exact"""
    k = rng.randrange(53, 65) if rng.random() < 0.5 else rng.randrange(1, kmax + 1)
    form = rng.randrange(6)
    if form == 0:
        return (1 << k) - 1
    if form == 1:
        return 1 << k
    if form == 2:
        return (1 << k) + 1
    if form == 3:
        return rng.randrange(1 << (k - 1), 1 << k)
    if form == 4:
        return (1 << k) + rng.randrange(-40, 41) if k > 6 else (1 << k)
    return rng.randrange(1, 4) * (1 << k) + rng.choice([-1, 0, 1])


def huge_count(rng):
    """slice counts: small, around 2^20, up to 2^40"""
    return rng.choice([rng.randrange(1, 9), rng.randrange(1, 1 << 20), rng.randrange(1, 1 << 40), (1 << 40) - 1,
                       (1 << rng.randrange(1, 41)) + rng.choice([-1, 0, 1])])


def huge_point(rng, kmax=80):
    """(state, level, comp index, sx, sy) with sizes up to 2^kmax, slice counts up to 2^40, moderate depths"""
    d, dh = (rng.randrange(0, 9), rng.randrange(0, 9)) if rng.random() < 0.8 else (rng.randrange(0, 40), rng.randrange(0, 40))
    nx, ny = max(1, huge_count(rng)), max(1, huge_count(rng))
    t = (huge_value(rng, kmax), huge_value(rng, kmax), huge_value(rng, kmax), huge_value(rng, kmax), d, dh, nx, ny,
         rng.choice([0, 1, huge_value(rng, kmax)]), max(1, rng.choice([1, 7, huge_value(rng, kmax)])))
    l = rng.choice([0, 1, d + dh, d + dh + 1, rng.randrange(0, d + dh + 2)])
    return t, l, rng.randrange(3), rng.choice([0, nx - 1, rng.randrange(nx)]), rng.choice([0, ny - 1, rng.randrange(ny)])


def pow2_sweep(rng, kmax=80, depth_pairs=((0, 0), (0, 3), (2, 1), (4, 4))):
    """2^k-1, 2^k, 2^k+1 for every k <= kmax in every size field, a few depth pairs, slice counts up to 2^40"""
    counts = [1, 3, (1 << 20) + 1, (1 << 40) - 1, 1 << 33]
    i = 0
    for k in range(1, kmax + 1):
        for delta in (-1, 0, 1):
            for (d, dh) in depth_pairs:
                a, b = (1 << k) + delta, (1 << k) - delta
                nx, ny = counts[i % len(counts)], counts[(i // 2 + 1) % len(counts)]
                t = (a, b, b, a, d, dh, nx, ny, (1 << k) + delta, max(1, (1 << (k // 2)) - delta))
                i += 1
                yield t, rng.randrange(0, d + dh + 2), i % 3, rng.choice([0, nx - 1, rng.randrange(nx)]), rng.choice([0, ny - 1, rng.randrange(ny)])


def deep_points(rng, thorough=False):
    """a handful of states with transform depths up to ~1200 (1 << 1200 is an ordinary Python/Coq integer)"""
    pairs = [(600, 600), (1074, 0), (0, 1075), (1075, 1), (537, 538), (0, 1200), (1200, 0), (300, 17)]
    if thorough:
        pairs += [(a, b) for a in (0, 1, 511, 1023, 1024, 1076) for b in (0, 2, 52, 53, 1022, 1100)]
    for (d, dh) in pairs:
        sizes = [1, (1 << 53) + 1, rng.randrange(1, 1 << 80), (1 << (d + dh)) + 1, (1 << max(d, 1)) - 1]
        rng.shuffle(sizes)
        nx, ny = max(1, huge_count(rng)), max(1, huge_count(rng))
        t = (sizes[0], sizes[1], sizes[2], sizes[3], d, dh, nx, ny, sizes[4], 7)
        for l in (0, rng.randrange(0, d + dh + 2), d + dh + 1):
            yield t, l, rng.randrange(3), rng.choice([0, nx - 1]), rng.choice([0, ny - 1])


IMPORTS = ["Base.PyZ", "Gen.StateRec", "Gen.SliceSizes", "Corr.C13"]


_REPORTED = {}


def report(ctx, t, viols, extra=None):
    for (key, desc, observed, expected) in viols:
        _REPORTED[key] = _REPORTED.get(key, 0) + 1
        if _REPORTED[key] > 25:  # one failure class floods quickly: keep the first few inputs of each
            continue
        inp = {"state": list(t)}
        if extra:
            inp.update(extra)
        ctx.violation(key, inp, desc, observed=observed, expected=expected)


def run(ctx):
    ss = impl()
    rng = ctx.rng
    _REPORTED.clear()
    ctx.extra["rule"] = (
        "box: states (w,h,dwt_depth,dwt_depth_ho,slices_x,slices_y) in 1..24^2 x 0..3^2 x 1..8^2 (quick: random 1/16; thorough: all), "
        "all eight functions on every component, level 0..dh+d+1 and slice index, compared with Gen/SliceSizes.v by checksum "
        "(mismatches re-run value by value); full: random states sizes 0..40, depths 0..4, slices 1..10 value by value; "
        "point: single calls with values up to 2^40, sizes 2^k-1/2^k/2^k+1/random up to 2^80 (half of them k=53..64) with slice counts up to 2^40, "
        "a handful of states with depths up to 1200, and malformed inputs (exceptions must equal f_dom = false); "
        "oracle-huge: the same identities on the implementation only for every k<=80 x {-1,0,+1} and random huge states. "
        "A state is non-trivial when padding or an uneven partition really happens (size not a multiple of the scale, or flag false). "
        "oracle: partition + exactly-once cover, dimensions vs independent computation and vs real dwt() array shapes, "
        "flag vs brute force, slice_bytes >= 0 and picture sum, on the implementation over the same states.")

    # ---- corpus of past failures -------------------------------------------------------------
    corpus = []
    try:
        import json
        import os
        cdir = os.path.join(os.path.dirname(os.path.dirname(os.path.dirname(os.path.abspath(__file__)))), "corpus", "C13")
        for fn in sorted(os.listdir(cdir)) if os.path.isdir(cdir) else []:
            if fn.endswith(".json"):
                for t in json.load(open(os.path.join(cdir, fn))):
                    corpus.append(tuple(int(v) for v in t))
    except Exception as e:  # a broken corpus file must not hide the run
        ctx.note("corpus not read: %r" % (e,))

    # ---- box ----------------------------------------------------------------------------------
    # a group = (w, h, d, dh) with all NMAX^2 slice counts; Coq enumerates the same states from the indices
    groups = [(w, h, d, dh) for w in range(1, 25) for h in range(1, 25) for d in range(4) for dh in range(4)]
    if ctx.quick:
        groups = [groups[i] for i in sorted(rng.sample(range(len(groups)), len(groups) // 16))]
    else:
        ctx.exhaustive = True
    box = [g + (nx, ny) for g in groups for nx in range(1, NMAX + 1) for ny in range(1, NMAX + 1)]
    # edge states of the property's domain: zero sizes, many more slices than coefficients
    edge = [(w, h, cw, ch, d, dh, nx, ny, 3, 2) for w in (0, 1, 2) for h in (0, 3) for (cw, ch) in ((0, 0), (1, 2))
            for d in (0, 2) for dh in (0, 1) for (nx, ny) in ((1, 1), (3, 2), (9, 7))]
    corpus = [t for t in corpus if is_good(t) and t[6] * t[7] <= 4096 and t[4] + t[5] <= 12]
    extra_states = corpus + edge
    states = extra_states + [box_state(*b) for b in box]
    results = run_states(states)
    for t, (h, nt, viols) in zip(states, results):
        ctx.count(1, key=t if nt else None, bucket="depth_sum=%d" % (t[4] + t[5]))
        report(ctx, t, viols)
    ctx.sample({"state(lw,lh,cw,ch,d,dh,nx,ny,num,den)": list(states[len(extra_states)])})
    ctx.sample({"state": list(states[-1])})
    per = NMAX * NMAX
    box_res = results[len(extra_states):]
    gcases = []
    for gi, g in enumerate(groups):
        hs = [r[0] if r[0] is not None else -1 for r in box_res[gi * per:(gi + 1) * per]]
        gcases.append("(%s, %s, %s)" % (", ".join(cz(v) for v in g), cz(NMAX), cz(hash_obs(hs))))
    gbad = ctx.coq_check_cases("box", IMPORTS, "chk_group", gcases, shard=ctx.pick(36, 64), timeout=1500)
    ctx.corr_cases += len(box) - len(groups)  # every state of a group is one validated observation
    # corpus + edge states, and the states of (a few) mismatching groups, one checksum per state
    sub = list(range(len(extra_states)))
    for gi in (gbad or [])[:6]:
        sub.extend(range(len(extra_states) + gi * per, len(extra_states) + (gi + 1) * per))
    cases = ["(%s, %s)" % (cstate(states[i]), cz(results[i][0] if results[i][0] is not None else -1)) for i in sub]
    bad = ctx.coq_check_cases("states", IMPORTS, "chk_hash", cases, shard=48, timeout=1500)
    bad = [sub[i] for i in (bad or [])]
    relook = [states[i] for i in bad][:12]
    if gbad:
        ctx.obligation("corr:slice_sizes box agrees with implementation", False, "corr-shard",
                       "model/implementation differ in %d groups (w,h,d,dh), e.g. %r; states %r" % (
                           len(gbad), [groups[i] for i in gbad[:5]], [list(t) for t in relook[:3]]))

    # ---- full (value by value) ------------------------------------------------------------------
    nfull = ctx.pick(32, 600)
    full_states = list(relook)
    for _ in range(nfull):
        full_states.append((rng.randrange(0, 41), rng.randrange(0, 41), rng.randrange(0, 41), rng.randrange(0, 41),
                            rng.randrange(0, 5), rng.randrange(0, 5), rng.randrange(1, 11), rng.randrange(1, 11),
                            rng.choice([0, 1, rng.randrange(0, 10000), rng.randrange(0, 1 << 40)]), rng.choice([1, 2, rng.randrange(1, 100), rng.randrange(1, 1 << 40)])))
    fcases, fobs = [], []
    for t in full_states:
        try:
            flat, data = observe(ss, t)
        except Exception as e:
            report(ctx, t, [("raises", "exception %r" % (e,), repr(e), "no exception")])
            flat, data = [], None
        if data is not None:
            report(ctx, t, oracle_state(t, data))
            ctx.count(1, key=t if nontrivial(t, data) else None, bucket="full")
        fobs.append(flat)
        fcases.append("(%s, %s)" % (cstate(t), clist(flat)))
    fbad = ctx.coq_check_cases("full", IMPORTS, "chk_full", fcases, shard=ctx.pick(4, 12), timeout=1500)
    if bad or fbad:
        which = [list(states[i]) for i in (bad or [])][:5] + [list(full_states[i]) for i in (fbad or [])][:5]
        ctx.obligation("corr:slice_sizes agrees with implementation", False, "corr-shard",
                       "model/implementation differ (%d corpus/edge/box states, %d full states), e.g. %r" % (len(bad or []), len(fbad or []), which))

    # ---- point cases: big values and malformed inputs ---------------------------------------------------
    npoint = ctx.pick(900, 20000)
    pcases, pmeta = [], []

    def big():
        return rng.choice([rng.randrange(0, 1 << 40), rng.randrange(0, 1 << rng.randrange(1, 41)), rng.randrange(0, 50)])
    deep = list(deep_points(rng, thorough=not ctx.quick))
    if ctx.quick:
        deep = deep[::2]  # 12 deep cases keep the 360-digit literals in coqc cheap
    for i in range(npoint + len(deep)):
        if i >= npoint:
            t, l, k, sx, sy = deep[i - npoint]
            bucket = "point-deep"
        elif i % 4 == 3:
            t, l, k, sx, sy = huge_point(rng)
            bucket = "point-huge"
        elif i % 4 != 2:
            d, dh = rng.randrange(0, 9), rng.randrange(0, 9)
            nx, ny = (rng.randrange(1, 65), rng.randrange(1, 65)) if rng.random() < 0.5 else (rng.randrange(1, 1 << 20), rng.randrange(1, 1 << 20))
            t = (big(), big(), big(), big(), d, dh, nx, ny, big(), max(1, big()))
            l = rng.randrange(0, d + dh + 2)
            sx, sy = rng.choice([0, nx - 1, rng.randrange(nx)]), rng.choice([0, ny - 1, rng.randrange(ny)])
            bucket = "point-big"
        else:
            def small(lo, hi):
                return rng.randrange(lo, hi)
            t = (small(-3, 12), small(-3, 12), small(-3, 12), small(-3, 12), small(-2, 4), small(-2, 4),
                 small(-2, 5), small(-2, 5), small(-5, 20), small(-3, 6))
            l = small(-2, 9)
            sx, sy = small(-2, 6), small(-2, 6)
            bucket = "point-malformed"
        if bucket in ("point-big", "point-malformed"):
            k = rng.randrange(3)
        o = observe_point(ss, t, l, k, sx, sy)
        report(ctx, t, oracle_point(ss, t, l, k, sx, sy, rng), {"level": l, "comp": COMPS[k], "sx": sx, "sy": sy})
        pcases.append("(%s, (%s, %s, %s, %s), %s)" % (cstate(t), cz(l), cz(k), cz(sx), cz(sy), clist(o, copt)))
        pmeta.append((t, l, k, sx, sy))
        raised = sum(1 for v in o if v is None)
        ctx.count(1, key=(t, l, k, sx, sy) if (raised or bucket != "point-malformed") else None,
                  bucket=bucket + ("-raises" if raised else ""))
    ctx.sample({"point": [list(pmeta[0][0])] + list(pmeta[0][1:])})
    ctx.sample({"point": [list(pmeta[2][0])] + list(pmeta[2][1:])})
    pbad = ctx.coq_check_cases("point", IMPORTS, "chk_point", pcases, shard=ctx.pick(100, 300), timeout=1500)
    if pbad:
        ctx.obligation("corr:slice_sizes single calls / exceptions agree with implementation", False, "corr-shard",
                       "model/implementation differ on %d point cases, e.g. %r" % (len(pbad), [pmeta[i] for i in pbad[:5]]))

    # ---- oracle only: sizes around every power of two up to 2^80 (2^128 thorough), slice counts up to 2^40 --------
    kmax = ctx.pick(80, 128)
    sweep = list(pow2_sweep(rng, kmax, ctx.pick(((0, 0), (0, 3), (2, 1), (4, 4)),
                                                 ((0, 0), (0, 3), (2, 1), (4, 4), (1, 0), (0, 1), (8, 8), (30, 25)))))
    sweep += [huge_point(rng, kmax) for _ in range(ctx.pick(1500, 30000))]
    for (t, l, k, sx, sy) in sweep:
        report(ctx, t, oracle_point(ss, t, l, k, sx, sy, rng), {"level": l, "comp": COMPS[k], "sx": sx, "sy": sy})
        ctx.count(1, key=(t, l, k, sx, sy), bucket="oracle-huge")
    ctx.sample({"point": [[str(v) for v in sweep[200][0]]] + list(sweep[200][1:])})

    # ---- the real transform ----------------------------------------------------------------------------
    sizes = ctx.pick([(1, 1), (3, 5), (8, 8), (11, 7), (24, 13), (17, 24)],
                     [(w, h) for w in (1, 2, 3, 5, 8, 11, 16, 17, 24) for h in (1, 2, 3, 7, 8, 13, 16, 24)])
    ndwt = dwt_shapes_check(ctx, ss, sizes)
    ctx.note("dwt() shape check on %d (size, depth) combinations" % ndwt)
    ctx.trusted.append("model = Gen/SliceSizes.v, Gen/StateRec.v regenerated from /repo by the translator on this run; "
                       "box states are compared through an order-sensitive checksum mod 2^61 of ~50..900 values each "
                       "(full/point cases value by value)")


def replay(ctx, data):
    ss = impl()
    inp = data["input"]
    print("replaying", data.get("key"), inp)
    if "w" in inp:  # dwt-shape
        class C(object):
            violations = []

            def violation(self, *a, **k):
                self.violations.append((a, k))
                print("violation:", a, k)

            def count(self, *a, **k):
                pass
        c = C()
        dwt_shapes_check(c, ss, [(inp["w"], inp["h"])])
        print("property violated on this input:", bool(c.violations))
        return 1 if c.violations else 0
    t = tuple(int(v) for v in inp["state"])
    import random
    if "level" in inp:
        k = COMPS.index(inp["comp"])
        print("observation:", observe_point(ss, t, inp["level"], k, inp["sx"], inp["sy"]))
        viols = oracle_point(ss, t, inp["level"], k, inp["sx"], inp["sy"], random.Random(0))
    else:
        try:
            flat, d = observe(ss, t)
            viols = oracle_state(t, d)
        except Exception as e:
            viols = [("raises", "exception %r" % (e,), repr(e), "no exception")]
    for v in viols:
        print("property fails:", v)
    print("property violated on this input:", bool(viols))
    return 1 if viols else 0
