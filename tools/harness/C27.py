"""C27 harness: fixed-entry dictionaries never hold undeclared keys and pickle faithfully.

Correspondence (tie C): random operation histories are run on the REAL fixeddict classes of the
library and on Model/FixedDict.v (inside coqc, vm_compute); outcome (return value / exception
class + key) and the ordered items are compared after EVERY operation.  The harness probes which
`|=` the working tree implements (inherited dict.__ior__ = `IOrUnchecked`, or the repaired
`__ior__` = `IOrChecked`) and compares against that variant of the model, so the model is faithful
on both trees; the PROPERTY is judged by the oracle:

Oracle (on the implementation): after every operation every stored key is a declared entry name,
a rejected key raises exactly FixedDictKeyError (of that class, naming that key), copies and
pickle round trips (every protocol) return an equal dictionary of the same type.
"""
import ast
import copy
import importlib
import json
import os
import pickle

from vlib import cz, cstr, copt, VERIF, digest

FD_MODULES = [
    "vc2_conformance.pseudocode.state",
    "vc2_conformance.pseudocode.video_parameters",
    "vc2_conformance.codec_features",
    "vc2_conformance.bitstream.vc2_fixeddicts",
]


def impl():
    from vc2_conformance.fixeddict import FixedDictKeyError
    classes = []
    for mn in FD_MODULES:
        m = importlib.import_module(mn)
        for name in sorted(vars(m)):
            obj = getattr(m, name)
            if isinstance(obj, type) and issubclass(obj, dict) and hasattr(obj, "entry_objs") and obj not in classes:
                classes.append(obj)
    return classes, FixedDictKeyError


# ---- keys ---------------------------------------------------------------------------------------
def canon_key(k):
    """Injective (w.r.t. Python key equality on the keys we generate) map to the model's strings."""
    if isinstance(k, str) and k.isascii() and k.isprintable() and not k.startswith("#"):
        return k
    return "#" + type(k).__name__ + ":" + ascii(k)


def key_to_json(k):
    return {"s": k} if isinstance(k, str) else {"r": repr(k)}


def key_from_json(j):
    return j["s"] if "s" in j else ast.literal_eval(j["r"])


class KeyTable(object):
    """Declared entry names of all classes get a Coq identifier (defined once per shard);
    every other key is written as a string literal where it is used."""

    def __init__(self, classes=()):
        self.ids = {}
        for cls in classes:
            for k in cls.entry_objs:
                self.ids.setdefault(canon_key(k), "k%d" % len(self.ids))

    def ref(self, k):
        c = canon_key(k)
        return self.ids[c] if c in self.ids else "(%s)" % cstr(c)

    def defs(self):
        return "\n".join("Definition %s := %s." % (i, cstr(c)) for c, i in sorted(self.ids.items(), key=lambda t: int(t[1][1:])))


def undeclared_keys(rng, cls, classes):
    names = list(cls.entry_objs)
    out = []
    other = rng.choice(classes)
    foreign = [n for n in other.entry_objs if n not in cls.entry_objs]
    if foreign:
        out.append(rng.choice(foreign))                      # a name of a DIFFERENT fixeddict
    if names:
        n = rng.choice(names)
        i = rng.randrange(len(n)) if n else 0
        typos = [n + "_", "_" + n, n.upper(), n[:i] + n[i + 1:], n[:i] + n[i:i + 2][::-1] + n[i + 2:], n + " ", n.lstrip("_") or "x"]
        out += [t for t in rng.sample(typos, 3) if t not in cls.entry_objs]
        out.append(rng.choice([n.encode(), (n,), 0, None, -1, "", "fréquence", "#" + n, 'q"uote']))
    else:
        out += ["x", 0]
    seen, res = set(), []
    for k in out:                                             # distinct under Python equality
        if k not in seen and k not in cls.entry_objs:
            seen.add(k)
            res.append(k)
    return res


# ---- history generation ----------------------------------------------------------------------------
def gen_value(rng):
    return rng.choice([0, 0, 1, -1, rng.randrange(-50, 1000), rng.randrange(-50, 1000), rng.randrange(-(1 << 70), 1 << 70)])


def gen_pairs(rng, good, bad, allow_dup, str_only=False, pbad=0.12, nmax=5):
    n = rng.choice([0, 1, 1, 2, 2, 3, rng.randrange(0, nmax + 1)])
    ps, used = [], set()
    for _ in range(n):
        pool = bad if (bad and rng.random() < pbad) else good
        if str_only:
            pool = [k for k in pool if isinstance(k, str)]
        if not pool:
            continue
        k = rng.choice(pool)
        if k in used and not allow_dup:
            continue
        used.add(k)
        ps.append((k, gen_value(rng)))
    return ps


def gen_source(rng, good, bad, pbad=0.12, foreign=None):
    kind = rng.choice(["map", "map", "pairs", "fd", None])
    if kind is None:
        return None
    if foreign and rng.random() < 0.12:
        # an instance of ANOTHER fixeddict type as the source: its own entries were checked against its own
        # declaration, not against the receiving type's
        idx, names, shared = foreign
        pool_good = [n for n in names if n in shared]
        pool_bad = [n for n in names if n not in shared]
        ps, used = [], set()
        for _ in range(rng.randrange(0, 4)):
            pool = pool_bad if (pool_bad and (not pool_good or rng.random() < 0.5)) else pool_good
            if not pool:
                break
            k = rng.choice(pool)
            if k not in used:
                used.add(k)
                ps.append((k, gen_value(rng)))
        return ("map:fdx:%d" % idx, ps)
    if kind == "map" and rng.random() < 0.45:
        # mappings that are not dict subclasses (or are dict subclasses with their own machinery): the operators
        # dispatch differently on them (reflected methods, NotImplemented fall-backs)
        kind = rng.choice(["map:proxy", "map:userdict", "map:chainmap", "map:ordered", "map:defaultdict"])
    if kind == "fd":
        return ("fd", gen_pairs(rng, good, [], False))
    return (kind, gen_pairs(rng, good, bad, kind == "pairs", pbad=pbad))


def gen_history(rng, cls, classes):
    names = list(cls.entry_objs)
    if len(names) > 6 and rng.random() < 0.85:
        good = rng.sample(names, rng.randrange(2, 7))
    else:
        good = names
    bad = undeclared_keys(rng, cls, classes)
    pinit = rng.choice([0.0, 0.0, 0.0, 0.15])
    oi = rng.randrange(len(classes))
    foreign = None
    if classes[oi] is not cls and len(classes[oi].entry_objs) > 0:
        foreign = (oi, list(classes[oi].entry_objs), set(cls.entry_objs))
    init = (gen_source(rng, good, bad, pinit, foreign=foreign), gen_pairs(rng, good, bad, False, True, pinit))
    ops = []
    for _ in range(rng.randrange(4, 26)):
        r = rng.random()
        k = rng.choice(bad) if (bad and rng.random() < 0.2) else (rng.choice(good) if good else rng.choice(bad))
        v = gen_value(rng)
        if r < 0.17:
            ops.append(("setitem", k, v))
        elif r < 0.29:
            ops.append(("setdefault", k, v))
        elif r < 0.47:
            ops.append(("update", gen_source(rng, good, bad, foreign=foreign), gen_pairs(rng, good, bad, False, True) if rng.random() < 0.5 else []))
        elif r < 0.65:
            src = gen_source(rng, good, bad, foreign=foreign)
            ops.append(("ior", src if src is not None else ("map", [])))
        elif r < 0.71:
            ops.append(("copy",))
        elif r < 0.77:
            ops.append(("copymod", rng.choice(["copy", "deepcopy"])))
        elif r < 0.84:
            ops.append(("pickle", rng.randrange(0, pickle.HIGHEST_PROTOCOL + 1)))
        elif r < 0.89:
            ops.append(("del", k))
        elif r < 0.94:
            ops.append(("pop", k))
        elif r < 0.98:
            ops.append(("popitem",))
        else:
            ops.append(("clear",))
    return {"init": init, "ops": ops}


# ---- JSON form (corpus, replay) ------------------------------------------------------------------------
def pairs_to_json(ps):
    return [[key_to_json(k), v] for (k, v) in ps]


def pairs_from_json(js):
    return [(key_from_json(k), v) for (k, v) in js]


def src_to_json(s):
    return None if s is None else [s[0], pairs_to_json(s[1])]


def src_from_json(j):
    return None if j is None else (j[0], pairs_from_json(j[1]))


def op_to_json(o):
    if o[0] in ("setitem", "setdefault"):
        return [o[0], key_to_json(o[1]), o[2]]
    if o[0] == "update":
        return [o[0], src_to_json(o[1]), pairs_to_json(o[2])]
    if o[0] == "ior":
        return [o[0], src_to_json(o[1])]
    if o[0] in ("del", "pop"):
        return [o[0], key_to_json(o[1])]
    return list(o)


def op_from_json(j):
    if j[0] in ("setitem", "setdefault"):
        return (j[0], key_from_json(j[1]), j[2])
    if j[0] == "update":
        return (j[0], src_from_json(j[1]), pairs_from_json(j[2]))
    if j[0] == "ior":
        return (j[0], src_from_json(j[1]))
    if j[0] in ("del", "pop"):
        return (j[0], key_from_json(j[1]))
    return tuple(j)


def hist_to_json(cls, h):
    return {"cls": cls.__module__ + ":" + cls.__name__,
            "init": [src_to_json(h["init"][0]), pairs_to_json(h["init"][1])],
            "ops": [op_to_json(o) for o in h["ops"]]}


def hist_from_json(j):
    mn, cn = j["cls"].split(":")
    cls = getattr(importlib.import_module(mn), cn)
    return cls, {"init": (src_from_json(j["init"][0]), pairs_from_json(j["init"][1])),
                 "ops": [op_from_json(o) for o in j["ops"]]}


# ---- running a history on the implementation ----------------------------------------------------------------
class _KeysOnlyMapping(object):
    """The minimal protocol dict.update accepts as a mapping: keys() and __getitem__ (no __iter__/__ror__)."""
    def __init__(self, m):
        self._m = m

    def keys(self):
        return list(self._m.keys())

    def __getitem__(self, k):
        return self._m[k]


def build_source(cls, s):
    if s is None:
        return None
    kind, ps = s
    if kind == "map":
        return dict(ps)
    if kind.startswith("map:"):
        import types, collections
        m = dict(ps)
        if kind == "map:proxy":
            return types.MappingProxyType(m)
        if kind == "map:userdict":
            return collections.UserDict(m)
        if kind == "map:chainmap":
            return collections.ChainMap(m)
        if kind == "map:ordered":
            return collections.OrderedDict(ps)
        if kind == "map:defaultdict":
            dd = collections.defaultdict(int)
            dd.update(m)
            return dd
        if kind.startswith("map:fdx:"):
            other = impl()[0][int(kind.split(":")[2])]
            return other(m)
        return _KeysOnlyMapping(m)
    if kind == "fd":
        return cls(dict(ps))
    return list(ps)


def probe_variant(cls, FDKE):
    """Which `|=` does this class implement?  'checked' / 'unchecked' (behavioural probe)."""
    d = cls()
    probe = "__c27_probe_key__"
    try:
        d |= {probe: 0}
    except FDKE:
        return "checked" if probe not in d else "checked-but-stored"
    return "unchecked" if probe in d else "ignored"


def equal_same_type(a, b):
    # the property: "an equal dictionary of the same type" (item ORDER is compared with the model, not here)
    return type(a) is type(b) and a == b and b == a


class Run(object):
    """Executes one history; records observations and oracle failures."""

    def __init__(self, cls, FDKE, h):
        self.cls, self.FDKE, self.h = cls, FDKE, h
        self.init_obs = None        # ("ok", items) | ("fdke", rejected key)
        self.obs = []               # (tag, payload, items)
        self.failures = []          # (op index (-1 = init), key, description)
        self.broken_at = None       # first op index after which an undeclared key is stored
        self.rejections = 0
        self.accepted_mutations = 0

    def undeclared_in(self, d):
        return [k for k in dict.keys(d) if k not in self.cls.entry_objs]

    def fail(self, i, key, desc):
        self.failures.append((i, key, desc))

    def check_error(self, i, e, what):
        if e.fixeddict_class is not self.cls or e.args != (e.key,):
            self.fail(i, "fixeddict-%s-error-misattributed" % what, "FixedDictKeyError carries class %r key %r" % (e.fixeddict_class, e.key))
        if e.key in self.cls.entry_objs:
            self.fail(i, "fixeddict-%s-rejects-declared-key" % what, "declared key %r rejected" % (e.key,))

    def go(self):
        cls, FDKE = self.cls, self.FDKE
        e_src, f = self.h["init"]
        try:
            E = build_source(cls, e_src)
            d = cls(**dict(f)) if E is None else cls(E, **dict(f))
        except FDKE as e:
            self.check_error(-1, e, "init")
            given = ([k for k, _ in e_src[1]] if e_src else []) + [k for k, _ in f]
            if not [k for k in given if k not in cls.entry_objs]:
                self.fail(-1, "fixeddict-init-rejects-declared-keys", "constructor raised with declared keys only")
            self.init_obs = ("fdke", e.key)
            self.rejections += 1
            return None
        except Exception as e:  # noqa  -- the constructor may only raise FixedDictKeyError for what the harness gives it
            self.fail(-1, "fixeddict-init-raises-other", "constructor raised %r (only FixedDictKeyError is expected)" % (e,))
            self.init_obs = ("other", repr(e))
            return None
        self.init_obs = ("ok", list(d.items()))
        if self.undeclared_in(d):
            self.broken_at = -1
            self.fail(-1, "fixeddict-init-stores-undeclared-key", "constructor accepted undeclared keys %r" % (self.undeclared_in(d),))
        for i, o in enumerate(self.h["ops"]):
            before = list(d.items())
            tag, payload = "ret", None
            try:
                if o[0] == "setitem":
                    d[o[1]] = o[2]
                elif o[0] == "setdefault":
                    payload = d.setdefault(o[1], o[2])
                elif o[0] == "update":
                    E = build_source(cls, o[1])
                    if E is None:
                        d.update(**dict(o[2]))
                    else:
                        d.update(E, **dict(o[2]))
                elif o[0] == "ior":
                    E = build_source(cls, o[1])
                    d0 = d
                    d |= E
                    if d is not d0:
                        self.fail(i, "fixeddict-ior-rebinds", "`d |= E` (E a %s) rebound the name to a different object of type %s: %r" % (
                            type(E).__name__, type(d).__name__, d))
                        if type(d) is not cls:
                            d = d0       # keep observing the original object
                elif o[0] in ("copy", "copymod", "pickle"):
                    if o[0] == "copy":
                        d2 = d.copy()
                    elif o[0] == "copymod":
                        d2 = getattr(copy, o[1])(d)
                    else:
                        d2 = pickle.loads(pickle.dumps(d, o[1]))
                    if d2 is d or not equal_same_type(d2, d):
                        self.fail(i, "fixeddict-%s-not-faithful" % o[0], "%r of %r gave %r (%s)" % (o, d, d2, type(d2).__name__))
                    if type(d2) is cls:
                        d = d2
                    else:           # not a fixeddict at all: keep the original, make the model comparison fail too
                        tag, payload = "other", "wrong type %s" % type(d2).__name__
                elif o[0] == "del":
                    del d[o[1]]
                elif o[0] == "pop":
                    payload = d.pop(o[1])
                elif o[0] == "popitem":
                    tag, payload = "retitem", d.popitem()
                elif o[0] == "clear":
                    d.clear()
                else:
                    raise ValueError(o)
                if list(d.items()) != before:
                    self.accepted_mutations += 1
            except FDKE as e:
                tag, payload = "fdke", e.key
                self.rejections += 1
                self.check_error(i, e, o[0])
                if o[0] in ("copy", "copymod", "pickle") and self.broken_at is None:
                    self.fail(i, "fixeddict-%s-raises" % o[0], "%r raised %r on a dictionary with declared keys only" % (o, e))
            except KeyError as e:
                tag = "keyerror" if type(e) is KeyError else "other"
                if o[0] not in ("del", "pop", "popitem"):
                    self.fail(i, "fixeddict-%s-raises-plain-keyerror" % o[0], repr(e))
            except Exception as e:  # noqa
                tag, payload = "other", repr(e)
                self.fail(i, "fixeddict-%s-raises-other" % o[0], repr(e))
            self.obs.append((tag, payload, list(d.items())))
            if self.broken_at is None and self.undeclared_in(d):
                self.broken_at = i
                key = "fixeddict-ior-bypasses-key-check" if o[0] == "ior" else "fixeddict-%s-stores-undeclared-key" % o[0]
                self.fail(i, key, "after %r the dictionary holds undeclared keys %r" % (o, self.undeclared_in(d)))
        # final: every pickle protocol, copy and deepcopy (only meaningful while the invariant holds)
        if self.broken_at is None:
            for p in range(pickle.HIGHEST_PROTOCOL + 1):
                try:
                    d2 = pickle.loads(pickle.dumps(d, p))
                    ok = equal_same_type(d2, d) and d2 is not d
                except Exception as e:  # noqa
                    ok, d2 = False, repr(e)
                if not ok:
                    self.fail(len(self.h["ops"]), "fixeddict-pickle-not-faithful", "protocol %d: %r -> %r" % (p, d, d2))
            try:
                r = d.__reduce__()
            except Exception as e:  # noqa
                r = repr(e)
            if not (isinstance(r, tuple) and len(r) == 3 and r[0] is cls and r[1] == () and type(r[2]) is dict and r[2] == dict(d)):
                self.fail(len(self.h["ops"]), "fixeddict-reduce-shape", "__reduce__ gave %r" % (r,))
        return d


# ---- Coq literals --------------------------------------------------------------------------------------------------
def c_pairs(kt, ps):
    return "[" + "; ".join("(%s, %s)" % (kt.ref(k), cz(v)) for (k, v) in ps) + "]"


def c_src(kt, s):
    if s is None:
        return "None"
    return "(Some (%s %s))" % ("Pairs" if s[0] == "pairs" else "Mapping", c_pairs(kt, s[1]))


def c_op(kt, o):
    if o[0] == "setitem":
        return "SetItem %s %s" % (kt.ref(o[1]), cz(o[2]))
    if o[0] == "setdefault":
        return "SetDefault %s %s" % (kt.ref(o[1]), cz(o[2]))
    if o[0] == "update":
        return "Update %s %s" % (c_src(kt, o[1]), c_pairs(kt, o[2]))
    if o[0] == "ior":
        return "IOr (%s %s)" % ("Pairs" if o[1][0] == "pairs" else "Mapping", c_pairs(kt, o[1][1]))
    return {"copy": "CopyMethod", "copymod": "CopyModule", "pickle": "PickleRoundTrip", "del": "DelItem %s", "pop": "Pop %s",
            "popitem": "PopItem", "clear": "Clear"}[o[0]] % ((kt.ref(o[1]),) if o[0] in ("del", "pop") else ())


def c_obs(kt, ob):
    tag, payload, items = ob
    if tag == "ret":
        o = "ORet %s" % copt(payload if isinstance(payload, int) else None)
    elif tag == "retitem":
        o = "ORetItem %s %s" % (kt.ref(payload[0]), cz(payload[1]))
    elif tag == "fdke":
        o = "OFixedDictKeyError %s" % kt.ref(payload)
    elif tag == "keyerror":
        o = "OKeyError"
    else:
        o = "OOther"
    return "(%s, %s)" % (o, c_pairs(kt, items))


def c_case(kt, cls_ids, cls, variant, h, run):
    if run.init_obs[0] == "ok":
        iobs, ops = "(None, %s)" % c_pairs(kt, run.init_obs[1]), h["ops"]
    else:
        iobs, ops = "(Some %s, [])" % kt.ref(run.init_obs[1]), []
    return "(%s, %s, %s, %s, %s,\n  [%s],\n  [%s])" % (
        "IOrChecked" if variant == "checked" else "IOrUnchecked", cls_ids[cls], c_src(kt, h["init"][0]), c_pairs(kt, h["init"][1]), iobs,
        "; ".join(c_op(kt, o) for o in ops), "; ".join(c_obs(kt, ob) for ob in run.obs))


# ---- corpus -----------------------------------------------------------------------------------------------------------
def corpus(classes):
    d = os.path.join(VERIF, "corpus", "C27")
    out = []
    if os.path.isdir(d):
        for fn in sorted(os.listdir(d)):
            if fn.endswith(".json"):
                try:
                    out.append(hist_from_json(json.load(open(os.path.join(d, fn)))))
                except Exception:  # a corpus entry naming a class that no longer exists is skipped
                    pass
    return out


def shrink(cls, FDKE, h, key):
    """Smallest history we can cheaply find that still produces failure `key`."""
    def fails(hh):
        r = Run(cls, FDKE, hh)
        try:
            r.go()
        except Exception:  # noqa
            return False
        return any(k == key for (_, k, _) in r.failures)
    best = h
    r = Run(cls, FDKE, h)
    r.go()
    idx = [i for (i, k, _) in r.failures if k == key]
    if idx and idx[0] < 0:
        best = {"init": h["init"], "ops": []}
    if idx and 0 <= idx[0] < len(h["ops"]):
        best = {"init": h["init"], "ops": h["ops"][: idx[0] + 1]}
        cand = {"init": (None, []), "ops": [h["ops"][idx[0]]]}
        if fails(cand):
            return cand
    changed = True
    while changed and len(best["ops"]) > 1:
        changed = False
        for i in range(len(best["ops"]) - 1):
            cand = {"init": best["init"], "ops": best["ops"][:i] + best["ops"][i + 1:]}
            if fails(cand):
                best, changed = cand, True
                break
    return best


def run(ctx):
    classes, FDKE = impl()
    rng = ctx.rng
    ctx.extra["rule"] = (
        "histories: a class drawn uniformly from ALL %d fixeddict types of the library (State, VideoParameters, CodecFeatures, "
        "every type of bitstream/vc2_fixeddicts), constructor arguments (mapping | pairs | fixeddict | none, + kwargs) and 4-25 operations "
        "(setitem, setdefault, update(E, **F), |=, .copy(), copy.copy/deepcopy, pickle at a random protocol, del, pop, popitem, clear) over "
        "2-6 declared keys and 3-5 undeclared keys (typos of declared names, names of other fixeddict types, non-string and non-ASCII keys), "
        "20%% of key slots undeclared; integer values.  Outcome and ordered items compared with the model after every operation.  "
        "A history is non-trivial when it has at least one accepted mutation AND at least one rejected (key error) operation (distinct by content)."
        % len(classes))
    variants = dict((cls, probe_variant(cls, FDKE)) for cls in classes)
    ctx.extra["ior_variant_of_working_tree"] = sorted(set(variants.values()))
    ctx.extra["fixeddict_types"] = [c.__name__ for c in classes]
    for cls, v in variants.items():
        if v not in ("checked", "unchecked"):
            ctx.violation("fixeddict-ior-unexpected-behaviour", {"cls": cls.__module__ + ":" + cls.__name__},
                          "`d |= {undeclared: 0}` on a fresh %s: %s" % (cls.__name__, v))
    kt = KeyTable(classes)
    cls_ids = dict((cls, "c_%d_%s" % (i, cls.__name__)) for i, cls in enumerate(classes))

    hists = list(corpus(classes))
    n_corpus = len(hists)
    n = ctx.pick(1000, 50000)
    for i in range(n):
        cls = classes[i % len(classes)] if i < 3 * len(classes) else rng.choice(classes)
        hists.append((cls, gen_history(rng, cls, classes)))

    cases, reported = [], {}
    seen_fail = {}
    for j, (cls, h) in enumerate(hists):
        r = Run(cls, FDKE, h)
        r.go()
        cases.append(c_case(kt, cls_ids, cls, variants[cls] if variants[cls] == "checked" else "unchecked", h, r))
        nontrivial = r.accepted_mutations > 0 and r.rejections > 0
        ctx.count(1 + len(r.obs), key=digest(hist_to_json(cls, h)) if nontrivial else None,
                  bucket="rejections=%s" % (r.rejections if r.rejections < 3 else "3+"))
        if j in (n_corpus, n_corpus + 1, n_corpus + 2):
            ctx.sample(hist_to_json(cls, h))
        for (_, key, desc) in r.failures:
            seen_fail[key] = seen_fail.get(key, 0) + 1
            if key not in reported:
                try:
                    small = shrink(cls, FDKE, h, key)
                except Exception:  # noqa  (shrinking is best effort)
                    small = h
                reported[key] = (cls, small, desc)
    for key, (cls, small, desc) in sorted(reported.items()):
        rr = Run(cls, FDKE, small)
        d = rr.go()
        ctx.violation(key, hist_to_json(cls, small),
                      "%s (seen %d times in %d histories); minimal history given as input" % (desc, seen_fail[key], len(hists)),
                      observed=repr(dict(d)) if d is not None else "constructor raised", expected="only keys of %s.entry_objs; rejected keys raise FixedDictKeyError" % cls.__name__)
    ctx.extra["oracle_failure_classes"] = seen_fail

    # ---- correspondence with the model ---------------------------------------------------------------------------
    cls_defs = "\n".join(
        "Definition %s : fdclass string := {| cname := %s; centries := [%s] |}." % (
            cls_ids[cls], cstr(cls.__name__), "; ".join(kt.ref(k) for k in cls.entry_objs)) for cls in classes)
    defs = kt.defs() + "\n" + cls_defs
    bad = ctx.coq_check_cases("hist", ["Model.FixedDict", "Corr.C27"], "history_agrees", cases, ty="history_case",
                              shard=ctx.pick(125, 400), defs=defs, timeout=900)
    if bad:
        for i in bad[:10]:
            cls, h = hists[i]
            rr = Run(cls, FDKE, h)
            rr.go()
            ctx.obligation("corr:history %d agrees with model" % i, False, "corr-shard",
                           json.dumps({"history": hist_to_json(cls, h), "init_obs": repr(rr.init_obs), "obs": repr(rr.obs)[:1500],
                                       "oracle_failures": rr.failures}, default=repr))
            # keep it for the next runs
            cd = os.path.join(ctx.workdir, "mismatch_%s.json" % digest(hist_to_json(cls, h)))
            json.dump(hist_to_json(cls, h), open(cd, "w"))
    # the invariant evaluated on the model's own traces: must hold exactly when the tree is repaired
    if all(v == "checked" for v in variants.values()):
        bad2 = ctx.coq_check_cases("inv", ["Model.FixedDict", "Corr.C27"], "trace_keys_declared", cases[: ctx.pick(250, 2000)],
                                   ty="history_case", shard=ctx.pick(125, 400), defs=defs, timeout=900)
        if bad2:
            ctx.obligation("corr:model traces keep declared keys only", False, "corr-shard", repr(bad2[:10]))

    rich_values(ctx, classes, FDKE)
    other_entry_points(ctx, classes, FDKE, variants)
    ctx.trusted.append("Model/FixedDict.v is a hand model of fixeddict.py + the dict/pickle/copy protocol steps it relies on (CPython dispatch of "
                       "C-level dict methods to the Python overrides is runtime behaviour): tied by the differential run only")
    ctx.trusted.append("pickling/deep-copying of the VALUES is taken as faithful (values are integers in the differential run; nested "
                       "fixeddicts, lists, bytes, None, enums in the oracle run)")


# ---- oracle part 2: realistic nested values ---------------------------------------------------------------------------
def rich_values(ctx, classes, FDKE):
    from vc2_data_tables import ParseCodes
    rng = ctx.rng
    byname = dict((c.__name__, c) for c in classes)

    def value(depth):
        r = rng.random()
        if depth > 0 and r < 0.35:
            return build(rng.choice(classes), depth - 1)
        if r < 0.5:
            return [value(0) for _ in range(rng.randrange(0, 4))]
        return rng.choice([None, True, 0, -7, 1 << 70, b"\x00\xff", "text", ParseCodes.end_of_sequence, (1, 2), 1.5, {"plain": [1]}])

    def build(cls, depth):
        d = cls()
        for k in cls.entry_objs:
            if rng.random() < 0.5:
                d[k] = value(depth)
        return d

    def same(a, b):
        if type(a) is not type(b):
            return False
        if isinstance(a, dict):
            return list(a.keys()) == list(b.keys()) and all(same(a[k], b[k]) for k in a)
        if isinstance(a, (list, tuple)):
            return len(a) == len(b) and all(same(x, y) for x, y in zip(a, b))
        return a == b

    n = ctx.pick(300, 5000)
    for i in range(n):
        cls = classes[i % len(classes)]
        d = build(cls, 2)
        outs = [("pickle%d" % p, lambda p=p: pickle.loads(pickle.dumps(d, p))) for p in range(pickle.HIGHEST_PROTOCOL + 1)]
        outs += [("deepcopy", lambda: copy.deepcopy(d)), ("copy.copy", lambda: copy.copy(d)), (".copy()", lambda: d.copy())]
        for name, fn in outs:
            try:
                d2 = fn()
                ok = d2 is not d and same(d2, d) and d2 == d
            except Exception as e:  # noqa
                ok, d2 = False, repr(e)
            if not ok:
                ctx.violation("fixeddict-%s-nested-not-faithful" % name.rstrip("0123456789"),
                              {"cls": cls.__module__ + ":" + cls.__name__, "repr": repr(d)[:2000], "how": name},
                              "%s of a nested %s is not an equal dictionary of the same type" % (name, cls.__name__), observed=repr(d2)[:500])
        ctx.count(len(outs), bucket="nested-values")
    if "Sequence" in byname:
        ctx.sample({"nested_example": repr(build(byname["Sequence"], 2))[:300]})


# ---- other dict entry points (reported, not alarmed on: the property does not state them) ---------------------------------
def other_entry_points(ctx, classes, FDKE, variants):
    findings = {}

    def note(name, what):
        findings.setdefault(name, set()).add(what)

    for cls in classes:
        names = list(cls.entry_objs)
        good = dict((k, 1) for k in names[:2])
        bad = "__not_an_entry__"
        # cls.fromkeys
        try:
            r = cls.fromkeys([bad], 0)
            note("cls.fromkeys([undeclared])", "returns %s holding the undeclared key" % type(r).__name__ if bad in r else "returns without the key")
            if type(r) is cls and bad in r:
                ctx.violation("fixeddict-fromkeys-stores-undeclared-key", {"cls": cls.__module__ + ":" + cls.__name__},
                              "%s.fromkeys([undeclared]) constructs a %s holding it" % (cls.__name__, cls.__name__))
        except FDKE:
            note("cls.fromkeys([undeclared])", "raises FixedDictKeyError")
        r = cls.fromkeys(names[:2], 0)
        note("cls.fromkeys(declared)", "returns %s" % ("the fixeddict type" if type(r) is cls else type(r).__name__))
        # | and reflected |
        d = cls(good)
        r = d | {bad: 1}
        note("d | {undeclared: 1}", "returns a plain dict (not a fixeddict) holding the key" if type(r) is dict else "returns %s" % type(r).__name__)
        if isinstance(r, cls) and bad in r:
            ctx.violation("fixeddict-or-stores-undeclared-key", {"cls": cls.__module__ + ":" + cls.__name__}, "`d | {undeclared: 1}` is a %s holding it" % cls.__name__)
        r = {bad: 1} | d
        note("{undeclared: 1} | d", "returns a plain dict" if type(r) is dict else "returns %s" % type(r).__name__)
        if isinstance(r, cls) and bad in r:
            ctx.violation("fixeddict-ror-stores-undeclared-key", {"cls": cls.__module__ + ":" + cls.__name__}, "`{undeclared: 1} | d` is a %s holding it" % cls.__name__)
        # __init__ called again on a live object
        d = cls(good)
        try:
            d.__init__({bad: 1})
            note("d.__init__({undeclared: 1}) on a live object", "returns normally")
        except FDKE:
            note("d.__init__({undeclared: 1}) on a live object",
                 "raises FixedDictKeyError but the key STAYS stored (dict.__init__ runs before the check)" if bad in d else "raises FixedDictKeyError, key not stored")
        # __setstate__ directly
        d = cls(good)
        try:
            d.__setstate__({bad: 1})
            note("d.__setstate__({undeclared: 1})", "returns normally%s" % (" with the key stored" if bad in d else ""))
            if bad in d:
                ctx.violation("fixeddict-setstate-stores-undeclared-key", {"cls": cls.__module__ + ":" + cls.__name__}, "__setstate__ stores an undeclared key")
        except FDKE:
            note("d.__setstate__({undeclared: 1})", "raises FixedDictKeyError%s" % (" but key stored" if bad in d else ", key not stored"))
        # a hand-made pickle carrying an undeclared key in its state must not unpickle into a fixeddict holding it
        class Forged(object):
            def __reduce__(self):
                return (cls, (), {bad: 1})
        for p in range(pickle.HIGHEST_PROTOCOL + 1):
            try:
                r = pickle.loads(pickle.dumps(Forged(), p))
                if isinstance(r, cls) and bad in r:
                    ctx.violation("fixeddict-unpickle-stores-undeclared-key", {"cls": cls.__module__ + ":" + cls.__name__, "protocol": p},
                                  "unpickling a state with an undeclared key yields a %s holding it" % cls.__name__)
                note("unpickling a forged state {undeclared: 1}", "returns %s" % type(r).__name__)
            except FDKE:
                note("unpickling a forged state {undeclared: 1}", "raises FixedDictKeyError")
        # unhashable key
        d = cls(good)
        try:
            d[[1]] = 0
            note("d[[1]] = 0 (unhashable)", "returns normally")
        except TypeError:
            note("d[[1]] = 0 (unhashable)", "raises TypeError (not a key at all), nothing stored" if len(d) == len(good) else "raises TypeError")
        ctx.count(8, bucket="other-entry-points")
    ctx.extra["other_dict_entry_points"] = dict((k, sorted(v)) for k, v in findings.items())
    ctx.note("entry points outside the property's operation list (reported, not alarmed on): " +
             "; ".join("%s -> %s" % (k, " / ".join(sorted(v))) for k, v in sorted(findings.items())))


def replay(ctx, data):
    classes, FDKE = impl()
    inp = data["input"]
    print("replaying", data.get("key"), json.dumps(inp)[:600])
    if "ops" not in inp:
        print("(this finding is not a history; see the description: %s)" % data.get("description"))
        return 1
    cls, h = hist_from_json(inp)
    print("class %s, declared entries %s, `|=` variant of this tree: %s" % (cls.__name__, list(cls.entry_objs), probe_variant(cls, FDKE)))
    r = Run(cls, FDKE, h)
    d = r.go()
    print("constructor:", "accepted -> %r" % (r.init_obs[1],) if r.init_obs[0] == "ok" else "FixedDictKeyError(%r)" % (r.init_obs[1],))
    for o, ob in zip(h["ops"], r.obs):
        print("  %-60s -> %s %r   items=%r" % (repr(o)[:60], ob[0], ob[1], ob[2]))
    print("final dictionary: %r" % (d,))
    if d is not None:
        print("undeclared keys stored:", r.undeclared_in(d))
    for f in r.failures:
        print("PROPERTY FAILS at op %d: %s: %s" % f)
    print("property violated on this input:", bool(r.failures))
    return 1 if r.failures else 0
