"""C18 harness: data-unit pattern matcher (vc2_conformance/symbol_re.py).

Correspondence (tie C): the real `parse_regex` and `Matcher` against the Coq model
(Model/Regex.v parser, Model/NFA.v Thompson construction, Model/Matcher.v) with the
`Directed` empty-transition mode; cases that differ are re-run against the
`Symmetric` mode (= the pinned code, empty transitions followed both ways).

Oracle: an INDEPENDENT decision procedure for the pattern language (Brzozowski
derivatives over the harness' own AST, built by the harness' own precedence parser
or by the enumerator - neither the NFA model nor the code's parser), compared with
what the real Matcher answers per prefix: accepted / rejected, is_complete(),
valid_next_symbols().  The oracle's own predictions (accepted, complete) are also
compared with the Directed model inside Coq - the model is PROVED to implement
`lang`, so this ties the Python oracle to the Coq definition of the language.
"""
import ast as pyast
import copy
import csv
import glob
import itertools
import os
import re as pyre

import vlib
from vlib import cz, clist

# ----------------------------------------------------------------------------------
# harness-side pattern AST:  ('e',) empty | ('s', name) | ('.',) | ('$',)
#   ('c', a, b) | ('a', a, b) | ('*', a) | ('+', a) | ('?', a)
# ----------------------------------------------------------------------------------
E = ("e",)
ANY = (".",)
EOS = ("$",)


def desugar(r):
    k = r[0]
    if k in "es.$":
        return r
    if k == "+":
        x = desugar(r[1])
        return ("c", x, ("*", x))
    if k == "?":
        return ("a", desugar(r[1]), E)
    if k == "*":
        return ("*", desugar(r[1]))
    return (k, desugar(r[1]), desugar(r[2]))


def show(r, prec=0):
    """Pattern string with minimal parentheses (documented syntax: postfix modifiers
    bind tightest, then juxtaposition, then '|')."""
    k = r[0]
    if k == "e":
        return "()"
    if k == "s":
        return r[1]
    if k == ".":
        return "."
    if k == "$":
        return "$"
    if k in "*+?":
        return show(r[1], 3) + k
    if k == "c":
        s = show(r[1], 2) + " " + show(r[2], 2)
        return "(" + s + ")" if prec > 2 else s
    s = show(r[1], 1) + " | " + show(r[2], 1)
    return "(" + s + ")" if prec > 0 else s


TOKEN = pyre.compile(r"\s*(?:(\w+)|([.$?*+|()]))")


def my_tokens(s):
    """The harness' own tokenizer. Returns list of (kind, value) or None."""
    out, pos = [], 0
    s = s.rstrip()
    while pos < len(s):
        m = TOKEN.match(s, pos)
        if not m:
            return None
        if m.group(1) is not None:
            out.append(("string", m.group(1)))
        else:
            v = m.group(2)
            out.append(({".": "wildcard", "$": "end_of_sequence", "|": "bar", "(": "parenthesis", ")": "parenthesis"}.get(v, "modifier"), v))
        pos = m.end()
    return out


def my_parse(toks):
    """Independent (left-to-right precedence) parser of the documented syntax.
    Returns the harness AST or None for anything it does not understand."""
    pos = [0]

    def peek():
        return toks[pos[0]] if pos[0] < len(toks) else None

    def alt():
        l = cat()
        while peek() == ("bar", "|"):
            pos[0] += 1
            r = cat()
            l = ("a", l, r)
        return l

    def cat():
        items = []
        while peek() is not None and peek() != ("bar", "|") and peek() != ("parenthesis", ")"):
            items.append(post())
        if not items:
            return E
        r = items[-1]
        for x in reversed(items[:-1]):
            r = ("c", x, r)
        return r

    def post():
        t = peek()
        pos[0] += 1
        if t == ("parenthesis", "("):
            x = alt()
            if peek() != ("parenthesis", ")"):
                raise ValueError("unmatched")
            pos[0] += 1
        elif t[0] == "string":
            x = ("s", t[1])
        elif t[0] == "wildcard":
            x = ANY
        elif t[0] == "end_of_sequence":
            x = EOS
        else:
            raise ValueError("unexpected %r" % (t,))
        if peek() is not None and peek()[0] == "modifier":
            x = (peek()[1], x)
            pos[0] += 1
            if peek() is not None and peek()[0] == "modifier":
                raise ValueError("two modifiers")
        return x

    try:
        r = alt()
        if pos[0] != len(toks):
            return None
        return r
    except (ValueError, TypeError):
        return None


# ---- the hypothesis of the property: `$` only where nothing mandatory follows --------
def has_eos(r):
    return r[0] == "$" or any(has_eos(x) for x in r[1:] if isinstance(x, tuple))


def null_e(r):
    k = r[0]
    if k in "e$*":
        return True
    if k in "s.":
        return False
    if k == "c":
        return null_e(r[1]) and null_e(r[2])
    return null_e(r[1]) or null_e(r[2])


def eos_ok(r):
    k = r[0]
    if k == "c":
        return eos_ok(r[1]) and eos_ok(r[2]) and (not has_eos(r[1]) or null_e(r[2]))
    if k == "a":
        return eos_ok(r[1]) and eos_ok(r[2])
    if k == "*":
        return eos_ok(r[1])
    return True


def syms_of(r, acc=None):
    acc = set() if acc is None else acc
    if r[0] == "s":
        acc.add(r[1])
    for x in r[1:]:
        if isinstance(x, tuple):
            syms_of(x, acc)
    return acc


# ----------------------------------------------------------------------------------
# Oracle: Brzozowski derivatives. Letters: symbol names and END (the end marker every
# `$` consumes; symbols and wildcard never match END).  Expressions are hash-consed
# tuples normalised by smart constructors (ACI for alternation -> finitely many states).
# ----------------------------------------------------------------------------------
END = object()
NUL = ("0",)  # empty language
FRESH = "\0fresh"  # a symbol no pattern mentions


def mk_cat(a, b):
    if a == NUL or b == NUL:
        return NUL
    if a == E:
        return b
    if b == E:
        return a
    return ("c", a, b)


def mk_alt(xs):
    s = set()
    for x in xs:
        if x[0] == "A":
            s.update(x[1])
        elif x != NUL:
            s.add(x)
    if not s:
        return NUL
    if len(s) == 1:
        return next(iter(s))
    return ("A", frozenset(s))


def conv(r):
    """desugared harness AST -> oracle expression"""
    k = r[0]
    if k in "es.$":
        return r
    if k == "c":
        return mk_cat(conv(r[1]), conv(r[2]))
    if k == "a":
        return mk_alt([conv(r[1]), conv(r[2])])
    x = conv(r[1])
    return E if x in (E, NUL) else ("*", x)


class Oracle(object):
    def __init__(self):
        self.dm, self.nm, self.em, self.vm = {}, {}, {}, {}

    def nullable(self, r):
        k = r[0]
        if k in "e*":
            return True
        if k in "s.$0":
            return False
        v = self.nm.get(r)
        if v is None:
            if k == "c":
                v = self.nullable(r[1]) and self.nullable(r[2])
            else:
                v = any(self.nullable(x) for x in r[1])
            self.nm[r] = v
        return v

    def d(self, r, x):
        k = r[0]
        if k in "e0":
            return NUL
        if k == "s":
            return E if (x is not END and x == r[1]) else NUL
        if k == ".":
            return E if x is not END else NUL
        if k == "$":
            return E if x is END else NUL
        key = (r, x)
        v = self.dm.get(key)
        if v is None:
            if k == "c":
                v = mk_cat(self.d(r[1], x), r[2])
                if self.nullable(r[1]):
                    v = mk_alt([v, self.d(r[2], x)])
            elif k == "A":
                v = mk_alt([self.d(y, x) for y in r[1]])
            else:
                v = mk_cat(self.d(r[1], x), r)
            self.dm[key] = v
        return v

    def ends(self, r):
        """exists k: END^k in L(r)"""
        v = self.em.get(r)
        if v is None:
            seen, cur, v = set(), r, False
            while cur != NUL and cur not in seen:
                if self.nullable(cur):
                    v = True
                    break
                seen.add(cur)
                cur = self.d(cur, END)
            self.em[r] = v
        return v

    def viable(self, r, alphabet):
        """exists v (symbols), k: v END^k in L(r)"""
        key = (r, alphabet)
        v = self.vm.get(key)
        if v is None:
            seen, todo, v = set([r]), [r], False
            while todo:
                cur = todo.pop()
                if self.ends(cur):
                    v = True
                    break
                for a in alphabet:
                    nx = self.d(cur, a)
                    if nx != NUL and nx not in seen:
                        seen.add(nx)
                        todo.append(nx)
            self.vm[key] = v
        return v


# ----------------------------------------------------------------------------------
# running the real code
# ----------------------------------------------------------------------------------
def impl():
    from vc2_conformance import symbol_re
    return symbol_re


ERR_CODES = [("Multiple modifiers", 1), ("Modifier before '|'", 2), ("Unmatched parentheses", 3),
             ("Modifier before '('", 4), ("Modifier at start", 5)]


def observe(sr, pattern, plan):
    """plan: nested list [(symbol, subplan), ...]; returns (complete, vn, [(sym, ok, obs)...])
    observed on the real Matcher (a shallow copy is advanced for every branch)."""
    def go(m, plan):
        vn = m.valid_next_symbols()
        kids = []
        for s, sub in plan:
            m2 = copy.copy(m)
            ok = m2.match_symbol(s)
            kids.append((s, bool(ok), go(m2, sub)))
        return (bool(m.is_complete()), sorted(vn), kids)
    return go(sr.Matcher(pattern), plan)


def full_plan(alphabet, depth):
    if depth == 0:
        return []
    sub = full_plan(alphabet, depth - 1)
    return [(a, sub) for a in alphabet]


def chain_plan(seq):
    plan = []
    for s in reversed(seq):
        plan = [(s, plan)]
    return plan


class Names(object):
    """symbol name -> positive number"""
    def __init__(self):
        self.ids = {}

    def __call__(self, name):
        if name not in self.ids:
            self.ids[name] = len(self.ids) + 1
        return self.ids[name]


def obs_codes(names, o, ok=True, out=None):
    """pre-order list of observation numbers (see Corr/C18.v)"""
    out = [] if out is None else out
    c, vn, kids = o
    mask = 0
    for s in vn:
        mask |= 1 if s == "" else (2 if s == "." else (4 << (names(s) - 1)))
    out.append((1 if c else 0) + (2 if ok else 0) + 4 * mask)
    for _s, ok2, k in kids:
        obs_codes(names, k, ok2, out)
    return out


def plan_shape(plan):
    """(depth, symbols): depth 0 = chain of symbols, else full tree over the symbols"""
    if len(plan) == 1 or not plan:
        seq, p = [], plan
        while p:
            assert len(p) == 1
            seq.append(p[0][0])
            p = p[0][1]
        return 0, seq
    d, p = 0, plan
    while p:
        d += 1
        p = p[0][1]
    return d, [s for s, _ in plan]


def coq_tokens(names, toks):
    out = []
    for k, v in toks:
        if k == "string":
            out.append("TStr %d" % names(v))
        elif k == "wildcard":
            out.append("TDot")
        elif k == "end_of_sequence":
            out.append("TDollar")
        elif k == "bar":
            out.append("TBar")
        elif k == "parenthesis":
            out.append("TLP" if v == "(" else "TRP")
        else:
            out.append("TMod " + {"?": "MQuest", "*": "MStar", "+": "MPlus"}[v])
    return "[" + ";".join(out) + "]"


def coq_re(sr, names, a):
    if a is None:
        return "Empty"
    if isinstance(a, sr.Symbol):
        if a.symbol == sr.WILDCARD:
            return "Any"
        if a.symbol == sr.END_OF_SEQUENCE:
            return "Eos"
        return "(Sym %d)" % names(a.symbol)
    if isinstance(a, sr.Star):
        return "(Star %s)" % coq_re(sr, names, a.expr)
    if isinstance(a, sr.Concatenation):
        return "(Cat %s %s)" % (coq_re(sr, names, a.a), coq_re(sr, names, a.b))
    if isinstance(a, sr.Union):
        return "(Alt %s %s)" % (coq_re(sr, names, a.a), coq_re(sr, names, a.b))
    raise ValueError("unknown AST node %r" % (a,))


def real_parse(sr, s):
    """(code, ast): 0 and the AST, or the error code."""
    try:
        return 0, sr.parse_regex(s)
    except sr.SymbolRegexSyntaxError as e:
        msg = str(e)
        for prefix, code in ERR_CODES:
            if msg.startswith(prefix):
                return code, None
        return 98, None


# ----------------------------------------------------------------------------------
# pattern enumeration
# ----------------------------------------------------------------------------------
def enum_asts(size, leaves, unary, memo):
    """all harness ASTs with exactly `size` nodes"""
    key = (size, unary)
    if key in memo:
        return memo[key]
    if size == 1:
        out = list(leaves)
    else:
        out = []
        for x in enum_asts(size - 1, leaves, unary, memo):
            for u in unary:
                out.append((u, x))
        for i in range(1, size - 1):
            for x in enum_asts(i, leaves, unary, memo):
                for y in enum_asts(size - 1 - i, leaves, unary, memo):
                    out.append(("c", x, y))
                    out.append(("a", x, y))
    memo[key] = out
    return out


def oracle_check(orc, r, obs, extra_alphabet=()):
    """Compare the observation tree with the language of the harness AST r.
    Returns a list of (path, what, observed, expected)."""
    syms = tuple(sorted(syms_of(r))) + (FRESH,)
    out = []

    def go(D, o, path):
        c, vn, kids = o
        exp_c = orc.ends(D)
        if c != exp_c:
            out.append((path, "is_complete", c, exp_c))
        if ("" in vn) != exp_c:
            out.append((path, "END_OF_SEQUENCE in valid_next_symbols", "" in vn, exp_c))
        wild = orc.viable(orc.d(D, FRESH), syms)
        if ("." in vn) != wild:
            out.append((path, "WILDCARD in valid_next_symbols", "." in vn, wild))
        for s in vn:
            if s not in ("", ".") and not orc.viable(orc.d(D, s), syms):
                out.append((path, "valid_next_symbols lists %r" % s, True, False))
        if "." not in vn:
            for s in syms[:-1]:
                if orc.viable(orc.d(D, s), syms) and s not in vn:
                    out.append((path, "valid_next_symbols omits %r" % s, False, True))
        for s, ok, k in kids:
            D2 = orc.d(D, s)
            exp = orc.viable(D2, syms)
            if ok != exp:
                out.append((path + [s], "match_symbol", ok, exp))
                if not ok:
                    go(D, k, path + [s])  # wrongly rejected: the Matcher has not advanced
                # wrongly accepted: nothing is stated about what follows
            else:
                # the Matcher does not advance on a rejected symbol
                go(D2 if ok else D, k, path + [s])

    D0 = conv(desugar(r))
    if not orc.viable(D0, syms):
        return out  # empty language (only without the hypothesis); nothing stated
    go(D0, obs, [])
    return out


def oracle_predict(orc, r, plan):
    """What the pattern language says the Matcher must answer on this plan: pre-order
    list of is_complete + 2 * accepted (None where nothing is stated)."""
    syms = tuple(sorted(syms_of(r))) + (FRESH,)
    D0 = conv(desugar(r))
    if not orc.viable(D0, syms):
        return None
    out = []

    def go(D, ok, plan):
        out.append((1 if orc.ends(D) else 0) + (2 if ok else 0))
        for s, sub in plan:
            D2 = orc.d(D, s)
            if orc.viable(D2, syms):
                go(D2, True, sub)
            else:
                go(D, False, sub)  # rejected: the Matcher does not advance

    go(D0, True, plan)
    return out


# ----------------------------------------------------------------------------------
def real_pattern_strings(sr):
    """level patterns of the CSV and every pattern-looking string literal of the package"""
    from vc2_data_tables import ParseCodes
    names = set(p.name for p in ParseCodes)
    root = os.path.dirname(sr.__file__)
    pats = []
    with open(os.path.join(root, "level_sequence_restrictions.csv")) as f:
        for row in csv.reader(f):
            if len(row) >= 3 and row[0].strip().isdigit() and my_tokens(row[2]):
                pats.append(("csv:level %s" % row[0], row[2]))
    for path in sorted(glob.glob(os.path.join(root, "**", "*.py"), recursive=True)):
        if path.endswith("symbol_re.py"):
            continue
        try:
            tree = pyast.parse(open(path).read())
        except SyntaxError:
            continue
        for node in pyast.walk(tree):
            v = None
            if isinstance(node, pyast.Constant) and isinstance(node.value, str):
                v = node.value
            if not v or len(v) > 600 or "\n" in v.strip():
                continue
            toks = my_tokens(v)
            if not toks or len(toks) < 2:
                continue
            words = [t[1] for t in toks if t[0] == "string"]
            if not words or not all(w in names for w in words):
                continue
            if not any(t[0] != "string" for t in toks) and len(words) < 2:
                continue
            pats.append(("%s:%d" % (os.path.relpath(path, root), node.lineno), v))
    seen, out = set(), []
    for src, p in pats:
        if p not in seen:
            seen.add(p)
            out.append((src, p))
    return out, sorted(names)


HAND_PATTERNS = [
    "a? b", "(a | b*)", "a | b*", "a* | b", "(a b)* c", "a+ b?", "(a | b)+ $", "a $", "a $ b?", "(a $)*", "($ | a)*",
    "a ()", "() a", "()", "", "(a)", "((a))", "a | ", " | a", "a | | b", "a b | c d", "a | b | c", "a (b | c)* a",
    ". * a", "(. a)* $", ".* a .*", "a? a? a? a a a", "(a* b*)* c", "(a | ) b", "a \n b", "(a+)+", "(a*)*", "(a?)?", "(a?)*",
    "$", "$ $", "$ a", "a | $", "(a | $) b", "a $ $", "($)*", "()*", "()+", "()?", "(() | a)* b",
]
MALFORMED = ["a**", "*a", "(a", "a)", "(*a)", "a|*b", "a *| b", ")(", "(", ")", "a ?+", "+", "(a))", "((a)", "a | *", "a (*)", "| *",
             "a % b", "a-b", "a,b"]


def run(ctx):
    import time
    t0 = time.time()
    timing = ctx.extra.setdefault("timing_s", {})
    sr = impl()
    orc = Oracle()
    rng = ctx.rng
    N = ctx.pick(5, 6)
    L = ctx.pick(4, 5)
    ctx.extra["rule"] = (
        "parser: every token string up to length %d over {a . $ * + ? | ( )} (exhaustive) + hand-written + the real patterns, AST/error compared with the model parser; "
        "matcher: every pattern AST up to %d nodes over leaves {a, b, ., (), $} and * (core, exhaustive; + and ? forms sampled), printed to a pattern string, x every symbol sequence "
        "up to length %d (one less for the largest pattern size) over {a,b,c} as an observation tree (is_complete, valid_next_symbols, match_symbol per branch); the level patterns of the CSV and the pattern literals of "
        "the package over all data-unit names, guided random walks up to length %d. Non-trivial = pattern with at least one accepted and one rejected symbol in its tree. "
        "Oracle: Brzozowski-derivative decision of the pattern language on the harness' own AST, on every pattern satisfying the `$` hypothesis."
        % (ctx.pick(4, 5), N, L, ctx.pick(5, 7)))
    imports = ["Model.Regex", "Model.NFA", "Model.Matcher", "Corr.C18"]

    # ---------------- parser correspondence -------------------------------------------
    names = Names()
    for n in "abc":
        names(n)
    tok_alpha = ["a", ".", "$", "*", "+", "?", "|", "(", ")"]
    strings = list(HAND_PATTERNS) + list(MALFORMED)
    maxlen = ctx.pick(4, 5)
    for n in range(0, maxlen + 1):
        for t in itertools.product(tok_alpha, repeat=n):
            strings.append(" ".join(t))
    for _ in range(ctx.pick(300, 3000)):
        strings.append(" ".join(rng.choice(tok_alpha + ["b", "a", "(", ")"]) for _ in range(rng.randrange(5, 12))))
    real_pats, du_names = real_pattern_strings(sr)
    for n in du_names:
        names(n)
    strings += [p for _, p in real_pats]
    pcases, pmeta = [], []
    for s in strings:
        toks = my_tokens(s)
        try:
            real_toks = [(t, v) for (t, v, _) in sr.tokenize_regex(s)]
        except sr.SymbolRegexSyntaxError:
            real_toks = None
        if toks != real_toks:
            # the tokenizer is specified by TOKEN_REGEX; my_tokens is the harness' reading of it
            if real_toks is not None and toks is not None:
                ctx.violation("tokenize_regex-differs", {"pattern": s}, "tokenize_regex disagrees with the documented token grammar",
                              observed=repr(real_toks), expected=repr(toks))
            continue
        if toks is None:
            ctx.count(1, bucket="parser:untokenizable")
            continue
        code, a = real_parse(sr, s)
        pcases.append("(%s,%d,%s)" % (coq_tokens(names, toks), code, coq_re(sr, names, a) if code == 0 else "Empty"))
        pmeta.append(s)
        ctx.count(1, key=("parse", s) if code == 0 and a is not None else None, bucket="parser:ok" if code == 0 else "parser:error")
        # independent parser: same language? (checked through the matcher below for the enumerated ones)
    timing["parser_cases"] = round(time.time() - t0, 1)
    bad = ctx.coq_check_cases("parse", imports, "chk_parse", pcases, shard=500)
    timing["parser_coq"] = round(time.time() - t0, 1)
    if bad:
        ctx.obligation("corr:parse_regex agrees with the model parser", False, "corr-shard",
                       "differs on %r" % [pmeta[i] for i in bad[:8]])

    # ---------------- matcher cases ------------------------------------------------------
    cases = []  # (id, pattern string, harness AST or None, plan, extra alphabet)
    memo = {}
    leaves = [("s", "a"), ("s", "b"), ANY, E, EOS]
    plan_small = full_plan(["a", "b", "c"], L)
    plan_top = full_plan(["a", "b", "c"], L - 1)  # the (many) patterns of the largest size: one symbol less
    for size in range(1, N + 1):
        for r in enum_asts(size, leaves, ("*",), memo):
            cases.append(("enum", show(r), r, plan_small if size < N else plan_top))
    # sugar forms (+, ?): sampled
    memo2 = {}
    sugar = []
    for size in range(2, N + 1):
        sugar += [r for r in enum_asts(size, leaves, ("*", "+", "?"), memo2) if "+" in show(r) or "?" in show(r)]
    rng.shuffle(sugar)
    for r in sugar[: ctx.pick(400, 6000)]:
        cases.append(("sugar", show(r), r, plan_top))
    # a few bigger random ones
    def rand_ast(n):
        if n <= 1:
            return rng.choice(leaves[:4] + [("s", "a"), ("s", "b"), ("s", "c")])
        k = rng.choice("ca*+?ca")
        if k in "*+?":
            return (k, rand_ast(n - 1))
        i = rng.randrange(1, n - 1) if n > 2 else 1
        return (k, rand_ast(i), rand_ast(max(1, n - 1 - i)))
    for _ in range(ctx.pick(150, 1500)):
        r = rand_ast(rng.randrange(N + 1, N + 6))
        if rng.random() < 0.3:
            r = ("c", r, rng.choice([EOS, ("c", EOS, ("?", ("s", "b")))]))
        cases.append(("random", show(r), r, full_plan(["a", "b", "c"], 3)))
    for s in HAND_PATTERNS:
        toks = my_tokens(s)
        cases.append(("hand", s, my_parse(toks) if toks is not None else None, plan_small))
    # real patterns over the data-unit names: random walks biased to valid next symbols
    walk_len = ctx.pick(5, 7)
    for src, p in real_pats:
        r = my_parse(my_tokens(p))
        plans = [full_plan(du_names, 2)]
        for _ in range(ctx.pick(40, 300)):
            m = sr.Matcher(p)
            seq = []
            for _i in range(walk_len):
                vn = sorted(x for x in m.valid_next_symbols() if x not in ("", "."))
                s = rng.choice(vn) if vn and rng.random() < 0.75 else rng.choice(du_names)
                seq.append(s)
                m.match_symbol(s)
            plans.append(chain_plan(seq))
        for pl in plans:
            cases.append(("real:" + src, p, r, pl))
    # corpus of earlier failures
    corpus = os.path.join(vlib.VERIF, "corpus", "C18", "patterns.txt")
    if os.path.exists(corpus):
        for line in open(corpus):
            line = line.rstrip("\n")
            if line and not line.startswith("#"):
                toks = my_tokens(line)
                if toks is not None:
                    cases.insert(0, ("corpus", line, my_parse(toks), plan_small))

    coq_cases, meta = [], []
    oracle_fail = {}
    n_oracle = 0
    by_pat = {}
    for kind, pat, r, plan in cases:
        toks = my_tokens(pat)
        code, _a = real_parse(sr, pat)
        if toks is None or code != 0:
            continue
        obs = observe(sr, pat, plan)
        if (kind, pat) in by_pat:
            idx = by_pat[(kind, pat)]
        else:
            idx = by_pat[(kind, pat)] = len(coq_cases)
            coq_cases.append([coq_tokens(names, toks), []])
            meta.append((kind, pat, r, obs))
        d, syms = plan_shape(plan)
        hyp = r is not None and eos_ok(desugar(r))
        pred = oracle_predict(orc, r, plan) if hyp else None
        coq_cases[idx][1].append("(%d%%nat,%s,%s,%s)" % (d, clist([names(x) for x in syms]), clist(obs_codes(names, obs)),
                                                      clist(pred) if pred else "[]"))
        flat = []
        def walk(o):
            for s, ok, k in o[2]:
                flat.append(ok)
                walk(k)
        walk(obs)
        nodes = len(flat) + 1
        nontrivial = any(flat) and not all(flat)
        ctx.count(nodes, key=("m", pat) if nontrivial else None, bucket=kind.split(":")[0] + (":hyp" if hyp else ":nohyp"))
        if idx < 3 or kind.startswith("real") and len(ctx.samples) < 6 and d == 0:
            ctx.sample({"pattern": pat, "kind": kind, "plan": [d, syms], "is_complete_at_start": obs[0], "valid_next_at_start": obs[1]})
        # ---- property oracle (hypothesis: `$` only where nothing mandatory follows)
        if hyp:
            n_oracle += 1
            fails = oracle_check(orc, r, obs)
            if fails:
                oracle_fail.setdefault(idx, []).extend(fails)
    coq_cases = ["(%s,[%s])" % (t, ";".join(pl)) for t, pl in coq_cases]
    timing["observe_and_oracle"] = round(time.time() - t0, 1)
    ctx.extra["oracle_patterns"] = n_oracle
    ctx.exhaustive = True

    sh = ctx.pick(130, 200)
    bad_any = ctx.coq_check_cases("matcher", imports, "chk_case Directed 2", coq_cases, ty="case_t", shard=sh, timeout=2400)
    mode = "directed"
    bad_dir, bad_sym, bad_orc = [], [], []
    if bad_any:
        sub = [coq_cases[i] for i in bad_any]
        b0 = ctx.coq_check_cases("matcher_impl_vs_directed", imports, "chk_case Directed 0", sub, ty="case_t", shard=sh, timeout=2400)
        b1 = ctx.coq_check_cases("matcher_oracle_vs_directed", imports, "chk_case Directed 1", sub, ty="case_t", shard=sh, timeout=2400)
        bad_dir = [bad_any[i] for i in (b0 or [])]
        bad_orc = [bad_any[i] for i in (b1 or [])]
        if bad_dir:
            bs = ctx.coq_check_cases("matcher_impl_vs_symmetric", imports, "chk_case Symmetric 0", [coq_cases[i] for i in bad_dir],
                                     ty="case_t", shard=sh, timeout=2400)
            bad_sym = [bad_dir[i] for i in (bs or [])]
            if bs is not None and not bad_sym:
                mode = "symmetric"
    if bad_orc:
        ctx.obligation("corr:language oracle agrees with the Directed model (proved equal to lang)", False, "corr-shard",
                       "the harness' derivative oracle and the model differ on %r" % [meta[i][1] for i in bad_orc[:8]])
    ctx.extra["eps_mode_of_working_tree"] = mode if not bad_sym else "neither"
    ctx.note("working tree follows empty transitions: %s (%d of %d cases differ from the Directed model, %d of those also from the Symmetric model)"
             % (ctx.extra["eps_mode_of_working_tree"], len(bad_dir), len(coq_cases), len(bad_sym)))

    timing["matcher_coq"] = round(time.time() - t0, 1)
    # ---- classify
    reported = 0
    bad_dir_set, bad_sym_set = set(bad_dir), set(bad_sym)
    def best(i):
        return min(oracle_fail[i], key=lambda f: (f[1] != "match_symbol", len(f[0])))
    order = sorted(oracle_fail, key=lambda i: (best(i)[1] != "match_symbol", len(best(i)[0]), len(meta[i][1]), i))
    for i in order:
        kind, pat, r, obs = meta[i]
        path, what, got, exp = best(i)
        if i in bad_dir_set and i not in bad_sym_set:
            key = "nfa-epsilon-transitions-bidirectional"
            desc = ("Matcher(%r) after %r: %s is %r, the pattern language says %r; reproduced by the model with empty transitions followed in "
                    "both directions (NFANode.add_transition / equivalent_nodes)" % (pat, path, what, got, exp))
        else:
            key = "matcher-differs-from-language:" + what.split(" ")[0]
            desc = "Matcher(%r) after %r: %s is %r, the pattern language says %r" % (pat, path, what, got, exp)
        if reported < 12:
            ctx.violation(key, {"pattern": pat, "sequence": path, "what": what}, desc, observed=got, expected=exp)
            reported += 1
    unexplained = [i for i in bad_dir if i not in oracle_fail and (i in bad_sym_set or mode != "symmetric")]
    if unexplained:
        ctx.obligation("corr:Matcher agrees with the model", False, "corr-shard",
                       "model and implementation differ (property holds there) on %r" % [meta[i][1] for i in unexplained[:8]])
    if mode == "symmetric" and not oracle_fail:
        ctx.obligation("corr:Matcher agrees with the Directed model", False, "corr-shard",
                       "implementation follows empty transitions both ways on %r" % [meta[i][1] for i in bad_dir[:8]])
    ctx.trusted.append("C18: symbol names are numbered by the harness; tokenize_regex is compared with the harness' reading of TOKEN_REGEX (ASCII), "
                       "not modelled in Coq; Matcher objects are branched with copy.copy")
    ctx.trusted.append("C18 oracle: Brzozowski derivatives in tools/harness/C18.py over the harness' own parser/AST (independent of Model/NFA.v)")


def replay(ctx, data):
    sr = impl()
    orc = Oracle()
    inp = data["input"]
    pat, seq = inp["pattern"], inp.get("sequence", [])
    print("replaying", data["key"], inp)
    r = my_parse(my_tokens(pat))
    if r is None:
        print("pattern not understood by the harness parser")
        return 0
    obs = observe(sr, pat, chain_plan(seq))
    fails = oracle_check(orc, r, obs, extra_alphabet=seq) if eos_ok(desugar(r)) else []
    m = sr.Matcher(pat)
    for s in seq:
        print("  match_symbol(%r) -> %r ; is_complete %r ; valid_next %r" % (s, m.match_symbol(s), m.is_complete(), sorted(m.valid_next_symbols())))
    for f in fails:
        print("  after %r: %s observed %r, language says %r" % f)
    print("property violated on this input:", bool(fails))
    return 1 if fails else 0
