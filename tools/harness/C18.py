"""C18 harness: data-unit pattern matcher (vc2_conformance/symbol_re.py).

Correspondence (tie C): the real `parse_regex` and `Matcher` against the Coq model
(Model/Regex.v parser, Model/NFA.v Thompson construction, Model/Matcher.v) with the
`Directed` empty-transition mode; cases that differ are re-run against the
`Symmetric` mode (= the pinned code, empty transitions followed both ways).

Oracle: an INDEPENDENT decision procedure for the pattern language (Brzozowski
derivatives over the harness' own AST, built by the harness' own precedence parser
or by the enumerator - neither the NFA model nor the code's parser), compared with
what the real Matcher answers per prefix: accepted / rejected, is_complete(),
valid_next_symbols().  The oracle's own predictions (accepted, complete) are also
compared with the Directed model inside Coq - the model is PROVED to implement
`lang`, so this ties the Python oracle to the Coq definition of the language.
"""
import ast as pyast
import copy
import csv
import glob
import itertools
import os
import re as pyre
import subprocess
import multiprocessing

import vlib
from vlib import cz, clist

# ----------------------------------------------------------------------------------
# harness-side pattern AST:  ('e',) empty | ('s', name) | ('.',) | ('$',)
#   ('c', a, b) | ('a', a, b) | ('*', a) | ('+', a) | ('?', a)
# ----------------------------------------------------------------------------------
E = ("e",)
ANY = (".",)
EOS = ("$",)


def desugar(r):
    k = r[0]
    if k in "es.$":
        return r
    if k == "+":
        x = desugar(r[1])
        return ("c", x, ("*", x))
    if k == "?":
        return ("a", desugar(r[1]), E)
    if k == "*":
        return ("*", desugar(r[1]))
    return (k, desugar(r[1]), desugar(r[2]))


def show(r, prec=0):
    """Pattern string with minimal parentheses (documented syntax: postfix modifiers
    bind tightest, then juxtaposition, then '|')."""
    k = r[0]
    if k == "e":
        return "()"
    if k == "s":
        return r[1]
    if k == ".":
        return "."
    if k == "$":
        return "$"
    if k in "*+?":
        return show(r[1], 3) + k
    if k == "c":
        s = show(r[1], 2) + " " + show(r[2], 2)
        return "(" + s + ")" if prec > 2 else s
    s = show(r[1], 1) + " | " + show(r[2], 1)
    return "(" + s + ")" if prec > 0 else s


TOKEN = pyre.compile(r"\s*(?:(\w+)|([.$?*+|()]))")


def my_tokens(s):
    """The harness' own tokenizer. Returns list of (kind, value) or None."""
    out, pos = [], 0
    s = s.rstrip()
    while pos < len(s):
        m = TOKEN.match(s, pos)
        if not m:
            return None
        if m.group(1) is not None:
            out.append(("string", m.group(1)))
        else:
            v = m.group(2)
            out.append(({".": "wildcard", "$": "end_of_sequence", "|": "bar", "(": "parenthesis", ")": "parenthesis"}.get(v, "modifier"), v))
        pos = m.end()
    return out


def my_parse(toks):
    """Independent (left-to-right precedence) parser of the documented syntax.
    Returns the harness AST or None for anything it does not understand."""
    pos = [0]

    def peek():
        return toks[pos[0]] if pos[0] < len(toks) else None

    def alt():
        l = cat()
        while peek() == ("bar", "|"):
            pos[0] += 1
            r = cat()
            l = ("a", l, r)
        return l

    def cat():
        items = []
        while peek() is not None and peek() != ("bar", "|") and peek() != ("parenthesis", ")"):
            items.append(post())
        if not items:
            return E
        r = items[-1]
        for x in reversed(items[:-1]):
            r = ("c", x, r)
        return r

    def post():
        t = peek()
        pos[0] += 1
        if t == ("parenthesis", "("):
            x = alt()
            if peek() != ("parenthesis", ")"):
                raise ValueError("unmatched")
            pos[0] += 1
        elif t[0] == "string":
            x = ("s", t[1])
        elif t[0] == "wildcard":
            x = ANY
        elif t[0] == "end_of_sequence":
            x = EOS
        else:
            raise ValueError("unexpected %r" % (t,))
        if peek() is not None and peek()[0] == "modifier":
            x = (peek()[1], x)
            pos[0] += 1
            if peek() is not None and peek()[0] == "modifier":
                raise ValueError("two modifiers")
        return x

    try:
        r = alt()
        if pos[0] != len(toks):
            return None
        return r
    except (ValueError, TypeError):
        return None


# ---- the hypothesis of the property: `$` only where nothing mandatory follows --------
def has_eos(r):
    return r[0] == "$" or any(has_eos(x) for x in r[1:] if isinstance(x, tuple))


def null_e(r):
    k = r[0]
    if k in "e$*":
        return True
    if k in "s.":
        return False
    if k == "c":
        return null_e(r[1]) and null_e(r[2])
    return null_e(r[1]) or null_e(r[2])


def eos_ok(r):
    k = r[0]
    if k == "c":
        return eos_ok(r[1]) and eos_ok(r[2]) and (not has_eos(r[1]) or null_e(r[2]))
    if k == "a":
        return eos_ok(r[1]) and eos_ok(r[2])
    if k == "*":
        return eos_ok(r[1])
    return True


def syms_of(r, acc=None):
    acc = set() if acc is None else acc
    if r[0] == "s":
        acc.add(r[1])
    for x in r[1:]:
        if isinstance(x, tuple):
            syms_of(x, acc)
    return acc


# ----------------------------------------------------------------------------------
# Oracle: Brzozowski derivatives. Letters: symbol names and END (the end marker every
# `$` consumes; symbols and wildcard never match END).  Expressions are hash-consed
# tuples normalised by smart constructors (ACI for alternation -> finitely many states).
# ----------------------------------------------------------------------------------
END = object()
NUL = ("0",)  # empty language
FRESH = "\0fresh"  # a symbol no pattern mentions


def mk_cat(a, b):
    if a == NUL or b == NUL:
        return NUL
    if a == E:
        return b
    if b == E:
        return a
    return ("c", a, b)


def mk_alt(xs):
    s = set()
    for x in xs:
        if x[0] == "A":
            s.update(x[1])
        elif x != NUL:
            s.add(x)
    if not s:
        return NUL
    if len(s) == 1:
        return next(iter(s))
    return ("A", frozenset(s))


def conv(r):
    """desugared harness AST -> oracle expression"""
    k = r[0]
    if k in "es.$":
        return r
    if k == "c":
        return mk_cat(conv(r[1]), conv(r[2]))
    if k == "a":
        return mk_alt([conv(r[1]), conv(r[2])])
    x = conv(r[1])
    return E if x in (E, NUL) else ("*", x)


class Oracle(object):
    def __init__(self):
        self.dm, self.nm, self.em, self.vm = {}, {}, {}, {}

    def nullable(self, r):
        k = r[0]
        if k in "e*":
            return True
        if k in "s.$0":
            return False
        v = self.nm.get(r)
        if v is None:
            if k == "c":
                v = self.nullable(r[1]) and self.nullable(r[2])
            else:
                v = any(self.nullable(x) for x in r[1])
            self.nm[r] = v
        return v

    def d(self, r, x):
        k = r[0]
        if k in "e0":
            return NUL
        if k == "s":
            return E if (x is not END and x == r[1]) else NUL
        if k == ".":
            return E if x is not END else NUL
        if k == "$":
            return E if x is END else NUL
        key = (r, x)
        v = self.dm.get(key)
        if v is None:
            if k == "c":
                v = mk_cat(self.d(r[1], x), r[2])
                if self.nullable(r[1]):
                    v = mk_alt([v, self.d(r[2], x)])
            elif k == "A":
                v = mk_alt([self.d(y, x) for y in r[1]])
            else:
                v = mk_cat(self.d(r[1], x), r)
            self.dm[key] = v
        return v

    def ends(self, r):
        """exists k: END^k in L(r)"""
        v = self.em.get(r)
        if v is None:
            seen, cur, v = set(), r, False
            while cur != NUL and cur not in seen:
                if self.nullable(cur):
                    v = True
                    break
                seen.add(cur)
                cur = self.d(cur, END)
            self.em[r] = v
        return v

    def viable(self, r, alphabet):
        """exists v (symbols), k: v END^k in L(r)"""
        key = (r, alphabet)
        v = self.vm.get(key)
        if v is None:
            seen, todo, v = set([r]), [r], False
            while todo:
                cur = todo.pop()
                if self.ends(cur):
                    v = True
                    break
                for a in alphabet:
                    nx = self.d(cur, a)
                    if nx != NUL and nx not in seen:
                        seen.add(nx)
                        todo.append(nx)
            self.vm[key] = v
        return v


# ----------------------------------------------------------------------------------
# running the real code
# ----------------------------------------------------------------------------------
def impl():
    from vc2_conformance import symbol_re
    return symbol_re


ERR_CODES = [("Multiple modifiers", 1), ("Modifier before '|'", 2), ("Unmatched parentheses", 3),
             ("Modifier before '('", 4), ("Modifier at start", 5)]


def observe(sr, pattern, plan):
    """plan: nested list [(symbol, subplan), ...]; returns (complete, vn, [(sym, ok, obs)...])
    observed on the real Matcher (a shallow copy is advanced for every branch)."""
    def go(m, plan):
        vn = m.valid_next_symbols()
        kids = []
        for s, sub in plan:
            m2 = copy.copy(m)
            ok = m2.match_symbol(s)
            kids.append((s, bool(ok), go(m2, sub)))
        return (bool(m.is_complete()), sorted(vn), kids)
    return go(sr.Matcher(pattern), plan)


def full_plan(alphabet, depth):
    if depth == 0:
        return []
    sub = full_plan(alphabet, depth - 1)
    return [(a, sub) for a in alphabet]


def chain_plan(seq):
    plan = []
    for s in reversed(seq):
        plan = [(s, plan)]
    return plan


class Names(object):
    """symbol name -> positive number"""
    def __init__(self):
        self.ids = {}

    def __call__(self, name):
        if name not in self.ids:
            self.ids[name] = len(self.ids) + 1
        return self.ids[name]


def obs_codes(names, o, ok=True, out=None):
    """pre-order list of observation numbers (see Corr/C18.v)"""
    out = [] if out is None else out
    c, vn, kids = o
    mask = 0
    for s in vn:
        mask |= 1 if s == "" else (2 if s == "." else (4 << (names(s) - 1)))
    out.append((1 if c else 0) + (2 if ok else 0) + 4 * mask)
    for _s, ok2, k in kids:
        obs_codes(names, k, ok2, out)
    return out


def plan_shape(plan):
    """(depth, symbols): depth 0 = chain of symbols, else full tree over the symbols"""
    if len(plan) == 1 or not plan:
        seq, p = [], plan
        while p:
            assert len(p) == 1
            seq.append(p[0][0])
            p = p[0][1]
        return 0, seq
    d, p = 0, plan
    while p:
        d += 1
        p = p[0][1]
    return d, [s for s, _ in plan]


def coq_tokens(names, toks):
    out = []
    for k, v in toks:
        if k == "string":
            out.append("TStr %d" % names(v))
        elif k == "wildcard":
            out.append("TDot")
        elif k == "end_of_sequence":
            out.append("TDollar")
        elif k == "bar":
            out.append("TBar")
        elif k == "parenthesis":
            out.append("TLP" if v == "(" else "TRP")
        else:
            out.append("TMod " + {"?": "MQuest", "*": "MStar", "+": "MPlus"}[v])
    return "[" + ";".join(out) + "]"


def coq_re(sr, names, a):
    if a is None:
        return "Empty"
    if isinstance(a, sr.Symbol):
        if a.symbol == sr.WILDCARD:
            return "Any"
        if a.symbol == sr.END_OF_SEQUENCE:
            return "Eos"
        return "(Sym %d)" % names(a.symbol)
    if isinstance(a, sr.Star):
        return "(Star %s)" % coq_re(sr, names, a.expr)
    if isinstance(a, sr.Concatenation):
        return "(Cat %s %s)" % (coq_re(sr, names, a.a), coq_re(sr, names, a.b))
    if isinstance(a, sr.Union):
        return "(Alt %s %s)" % (coq_re(sr, names, a.a), coq_re(sr, names, a.b))
    raise ValueError("unknown AST node %r" % (a,))


def real_parse(sr, s):
    """(code, ast): 0 and the AST, or the error code."""
    try:
        return 0, sr.parse_regex(s)
    except sr.SymbolRegexSyntaxError as e:
        msg = str(e)
        for prefix, code in ERR_CODES:
            if msg.startswith(prefix):
                return code, None
        return 98, None


# ----------------------------------------------------------------------------------
# pattern enumeration
# ----------------------------------------------------------------------------------
def enum_asts(size, leaves, unary, memo):
    """all harness ASTs with exactly `size` nodes"""
    key = (size, unary)
    if key in memo:
        return memo[key]
    if size == 1:
        out = list(leaves)
    else:
        out = []
        for x in enum_asts(size - 1, leaves, unary, memo):
            for u in unary:
                out.append((u, x))
        for i in range(1, size - 1):
            for x in enum_asts(i, leaves, unary, memo):
                for y in enum_asts(size - 1 - i, leaves, unary, memo):
                    out.append(("c", x, y))
                    out.append(("a", x, y))
    memo[key] = out
    return out


def oracle_check(orc, r, obs, extra_alphabet=()):
    """Compare the observation tree with the language of the harness AST r.
    Returns a list of (path, what, observed, expected)."""
    syms = tuple(sorted(syms_of(r))) + (FRESH,)
    out = []

    def go(D, o, path):
        c, vn, kids = o
        exp_c = orc.ends(D)
        if c != exp_c:
            out.append((path, "is_complete", c, exp_c))
        if ("" in vn) != exp_c:
            out.append((path, "END_OF_SEQUENCE in valid_next_symbols", "" in vn, exp_c))
        wild = orc.viable(orc.d(D, FRESH), syms)
        if ("." in vn) != wild:
            out.append((path, "WILDCARD in valid_next_symbols", "." in vn, wild))
        for s in vn:
            if s not in ("", ".") and not orc.viable(orc.d(D, s), syms):
                out.append((path, "valid_next_symbols lists %r" % s, True, False))
        if "." not in vn:
            for s in syms[:-1]:
                if orc.viable(orc.d(D, s), syms) and s not in vn:
                    out.append((path, "valid_next_symbols omits %r" % s, False, True))
        for s, ok, k in kids:
            D2 = orc.d(D, s)
            exp = orc.viable(D2, syms)
            if ok != exp:
                out.append((path + [s], "match_symbol", ok, exp))
                if not ok:
                    go(D, k, path + [s])  # wrongly rejected: the Matcher has not advanced
                # wrongly accepted: nothing is stated about what follows
            else:
                # the Matcher does not advance on a rejected symbol
                go(D2 if ok else D, k, path + [s])

    D0 = conv(desugar(r))
    if not orc.viable(D0, syms):
        return out  # empty language (only without the hypothesis); nothing stated
    go(D0, obs, [])
    return out


def oracle_predict(orc, r, plan):
    """What the pattern language says the Matcher must answer on this plan: pre-order
    list of is_complete + 2 * accepted (None where nothing is stated)."""
    syms = tuple(sorted(syms_of(r))) + (FRESH,)
    D0 = conv(desugar(r))
    if not orc.viable(D0, syms):
        return None
    out = []

    def go(D, ok, plan):
        out.append((1 if orc.ends(D) else 0) + (2 if ok else 0))
        for s, sub in plan:
            D2 = orc.d(D, s)
            if orc.viable(D2, syms):
                go(D2, True, sub)
            else:
                go(D, False, sub)  # rejected: the Matcher does not advance

    go(D0, True, plan)
    return out


# ----------------------------------------------------------------------------------
def real_pattern_strings(sr):
    """level patterns of the CSV and every pattern-looking string literal of the package"""
    from vc2_data_tables import ParseCodes
    names = set(p.name for p in ParseCodes)
    root = os.path.dirname(sr.__file__)
    pats = []
    with open(os.path.join(root, "level_sequence_restrictions.csv")) as f:
        for row in csv.reader(f):
            if len(row) >= 3 and row[0].strip().isdigit() and my_tokens(row[2]):
                pats.append(("csv:level %s" % row[0], row[2]))
    for path in sorted(glob.glob(os.path.join(root, "**", "*.py"), recursive=True)):
        if path.endswith("symbol_re.py"):
            continue
        try:
            tree = pyast.parse(open(path).read())
        except SyntaxError:
            continue
        for node in pyast.walk(tree):
            v = None
            if isinstance(node, pyast.Constant) and isinstance(node.value, str):
                v = node.value
            if not v or len(v) > 600 or "\n" in v.strip():
                continue
            toks = my_tokens(v)
            if not toks or len(toks) < 2:
                continue
            words = [t[1] for t in toks if t[0] == "string"]
            if not words or not all(w in names for w in words):
                continue
            if not any(t[0] != "string" for t in toks) and len(words) < 2:
                continue
            pats.append(("%s:%d" % (os.path.relpath(path, root), node.lineno), v))
    seen, out = set(), []
    for src, p in pats:
        if p not in seen:
            seen.add(p)
            out.append((src, p))
    return out, sorted(names)


_W = {}
_PLANS = {}


def plan_of(d, syms):
    key = (d, tuple(syms))
    if key not in _PLANS:
        _PLANS[key] = chain_plan(list(syms)) if d == 0 else full_plan(list(syms), d)
    return _PLANS[key]


def _init_worker(ids):
    _W["sr"] = impl()
    _W["orc"] = Oracle()
    _W["ids"] = ids


TOK_INT = {"wildcard": 0, "end_of_sequence": -1, "bar": -5}


def tok_ints(names, toks):
    out = []
    for k, v in toks:
        if k == "string":
            out.append(names(v))
        elif k == "modifier":
            out.append({"?": -2, "*": -3, "+": -4}[v])
        elif k == "parenthesis":
            out.append(-6 if v == "(" else -7)
        else:
            out.append(TOK_INT[k])
    return out


def _work(job):
    """Run one (pattern, plan) on the real Matcher and on the language oracle."""
    kind, pat, r, d, syms = job
    sr, orc, ids = _W["sr"], _W["orc"], _W["ids"]
    names = ids.__getitem__
    toks = my_tokens(pat)
    if toks is None or real_parse(sr, pat)[0] != 0:
        return None
    plan = plan_of(d, syms)
    obs = observe(sr, pat, plan)
    hyp = r is not None and eos_ok(desugar(r))
    pred = oracle_predict(orc, r, plan) if hyp else None
    fails = oracle_check(orc, r, obs) if hyp else []
    flat = []

    def walk(o):
        for _s, ok, k in o[2]:
            flat.append(ok)
            walk(k)
    walk(obs)
    if len(orc.dm) > 400000:
        _W["orc"] = Oracle()
    return {"kind": kind, "pat": pat, "toks_coq": coq_tokens(names, toks), "toks_int": tok_ints(names, toks),
            "d": d, "syms": [names(x) for x in syms], "codes": obs_codes(names, obs), "pred": pred or [],
            "nodes": len(flat) + 1, "nontrivial": any(flat) and not all(flat), "hyp": hyp,
            "start": (obs[0], obs[1]), "fails": fails[:8]}


class OcamlChecker(object):
    """Optional second evaluator of the model: Corr.C18.chk_case extracted to OCaml
    (ExtrOcamlBasic only).  Used for the large enumerations of the thorough tier; the
    cases that also go through coqc/vm_compute must give the same answer."""
    MAIN = r"""
open C18model
let rec nat_of_int n = if n <= 0 then O else S (nat_of_int (n-1))
let rec pos_of_int n = if n = 1 then XH else if n land 1 = 0 then XO (pos_of_int (n lsr 1)) else XI (pos_of_int (n lsr 1))
let z_of_int n = if n = 0 then Z0 else if n > 0 then Zpos (pos_of_int n) else Zneg (pos_of_int (-n))
let tok_of_int n = match n with
  | 0 -> TDot | -1 -> TDollar | -2 -> TMod MQuest | -3 -> TMod MStar | -4 -> TMod MPlus
  | -5 -> TBar | -6 -> TLP | -7 -> TRP | s -> TStr (z_of_int s)
let () =
  let mode = if Sys.argv.(1) = "Symmetric" then Symmetric else Directed in
  let which = z_of_int (int_of_string Sys.argv.(2)) in
  let idx = ref 0 in
  (try while true do
    let line = input_line stdin in
    let a = Array.of_list (List.map int_of_string (List.filter (fun s -> s <> "") (String.split_on_char ' ' line))) in
    let p = ref 0 in
    let next () = let v = a.(!p) in incr p; v in
    let take_list f = let n = next () in List.init n (fun _ -> f (next ())) in
    let toks = take_list tok_of_int in
    let nplans = next () in
    let plans = List.init nplans (fun _ ->
      let d = nat_of_int (next ()) in
      let syms = take_list z_of_int in
      let codes = take_list z_of_int in
      let orc = take_list z_of_int in
      (((d, syms), codes), orc)) in
    if not (chk_case mode which (toks, plans)) then Printf.printf "%d\n" !idx;
    incr idx
  done with End_of_file -> ());
  Printf.printf "done %d\n" !idx
"""

    def __init__(self, ctx):
        self.ok = False
        self.dir = os.path.join(ctx.workdir, "ocaml")
        os.makedirs(self.dir, exist_ok=True)
        with open(os.path.join(self.dir, "extract.v"), "w") as f:
            f.write("From Coq Require Import Extraction ExtrOcamlBasic.\n"
                    "From VC2 Require Import Model.Regex Model.NFA Model.Matcher Corr.C18.\n"
                    'Extraction "c18model.ml" chk_case.\n')
        with open(os.path.join(self.dir, "main.ml"), "w") as f:
            f.write(self.MAIN)
        rc, out = vlib.sh(["coqc", "-Q", vlib.COQ, "VC2", "extract.v"], timeout=600, cwd=self.dir)
        if rc == 0:
            rc, out = vlib.sh(["ocamlfind", "ocamlopt", "-w", "-a", "-O3", "c18model.mli", "c18model.ml", "main.ml", "-o", "c18chk"],
                              timeout=600, cwd=self.dir)
            if rc != 0:
                rc, out = vlib.sh(["ocamlopt", "-w", "-a", "c18model.mli", "c18model.ml", "main.ml", "-o", "c18chk"], timeout=600, cwd=self.dir)
        self.ok = rc == 0
        self.msg = out[-500:]

    def run(self, mode, which, lines, jobs=12):
        """indices of failing cases, or None"""
        if not lines:
            return []
        n = max(1, min(jobs, len(lines) // 200 + 1))
        chunks = [lines[i::n] for i in range(n)]
        import concurrent.futures

        def one(k):
            p = subprocess.run([os.path.join(self.dir, "c18chk"), mode, str(which)], input="\n".join(chunks[k]) + "\n",
                               stdout=subprocess.PIPE, universal_newlines=True, timeout=3000)
            out = p.stdout.split("\n")
            if p.returncode != 0 or ("done %d" % len(chunks[k])) not in out:
                return None
            return [int(x) * n + k for x in out if x.strip().isdigit()]
        bad = []
        with concurrent.futures.ThreadPoolExecutor(max_workers=n) as ex:
            for res in ex.map(one, range(n)):
                if res is None:
                    return None
                bad.extend(res)
        return sorted(bad)


HAND_PATTERNS = [
    "a? b", "(a | b*)", "a | b*", "a* | b", "(a b)* c", "a+ b?", "(a | b)+ $", "a $", "a $ b?", "(a $)*", "($ | a)*",
    "a ()", "() a", "()", "", "(a)", "((a))", "a | ", " | a", "a | | b", "a b | c d", "a | b | c", "a (b | c)* a",
    ". * a", "(. a)* $", ".* a .*", "a? a? a? a a a", "(a* b*)* c", "(a | ) b", "a \n b", "(a+)+", "(a*)*", "(a?)?", "(a?)*",
    "$", "$ $", "$ a", "a | $", "(a | $) b", "a $ $", "($)*", "()*", "()+", "()?", "(() | a)* b",
]
MALFORMED = ["a**", "*a", "(a", "a)", "(*a)", "a|*b", "a *| b", ")(", "(", ")", "a ?+", "+", "(a))", "((a)", "a | *", "a (*)", "| *",
             "a % b", "a-b", "a,b"]


def run(ctx):
    import time
    t0 = time.time()
    timing = ctx.extra.setdefault("timing_s", {})
    sr = impl()
    orc = Oracle()
    rng = ctx.rng
    N = 5
    L = 4
    ctx.extra["rule"] = (
        "parser: every token string up to length %d over {a . $ * + ? | ( )} (exhaustive) + hand-written + the real patterns, AST/error compared with the model parser; "
        "matcher: every pattern AST up to %d nodes over leaves {a, b, ., (), $} and * (core, exhaustive; + and ? forms sampled), printed to a pattern string, x every symbol sequence "
        "up to length %d (one less for the largest pattern size) over {a,b,c} as an observation tree (is_complete, valid_next_symbols, match_symbol per branch); the level patterns of the CSV and the pattern literals of "
        "the package over all data-unit names, guided random walks up to length %d. Non-trivial = pattern with at least one accepted and one rejected symbol in its tree. "
        "Oracle: Brzozowski-derivative decision of the pattern language on the harness' own AST, on every pattern satisfying the `$` hypothesis. "
        "Thorough tier adds: every pattern AST up to 7 nodes x every sequence up to length 6 (5 for 6 nodes, 4 for 7 nodes), evaluated by the model extracted to OCaml."
        % (ctx.pick(4, 5), N, L, ctx.pick(5, 7)))
    imports = ["Model.Regex", "Model.NFA", "Model.Matcher", "Corr.C18"]

    # ---------------- parser correspondence -------------------------------------------
    names = Names()
    for n in "abc":
        names(n)
    tok_alpha = ["a", ".", "$", "*", "+", "?", "|", "(", ")"]
    strings = list(HAND_PATTERNS) + list(MALFORMED)
    maxlen = ctx.pick(4, 5)
    for n in range(0, maxlen + 1):
        for t in itertools.product(tok_alpha, repeat=n):
            strings.append(" ".join(t))
    for _ in range(ctx.pick(300, 3000)):
        strings.append(" ".join(rng.choice(tok_alpha + ["b", "a", "(", ")"]) for _ in range(rng.randrange(5, 12))))
    real_pats, du_names = real_pattern_strings(sr)
    for n in du_names:
        names(n)
    strings += [p for _, p in real_pats]
    pcases, pmeta = [], []
    for s in strings:
        toks = my_tokens(s)
        try:
            real_toks = [(t, v) for (t, v, _) in sr.tokenize_regex(s)]
        except sr.SymbolRegexSyntaxError:
            real_toks = None
        if toks != real_toks:
            # the tokenizer is specified by TOKEN_REGEX; my_tokens is the harness' reading of it
            if real_toks is not None and toks is not None:
                ctx.violation("tokenize_regex-differs", {"pattern": s}, "tokenize_regex disagrees with the documented token grammar",
                              observed=repr(real_toks), expected=repr(toks))
            continue
        if toks is None:
            ctx.count(1, bucket="parser:untokenizable")
            continue
        code, a = real_parse(sr, s)
        pcases.append("(%s,%d,%s)" % (coq_tokens(names, toks), code, coq_re(sr, names, a) if code == 0 else "Empty"))
        pmeta.append(s)
        ctx.count(1, key=("parse", s) if code == 0 and a is not None else None, bucket="parser:ok" if code == 0 else "parser:error")
        # independent parser: same language? (checked through the matcher below for the enumerated ones)
    timing["parser_cases"] = round(time.time() - t0, 1)
    bad = ctx.coq_check_cases("parse", imports, "chk_parse", pcases, shard=500)
    timing["parser_coq"] = round(time.time() - t0, 1)
    if bad:
        ctx.obligation("corr:parse_regex agrees with the model parser", False, "corr-shard",
                       "differs on %r" % [pmeta[i] for i in bad[:8]])

    # ---------------- matcher cases ------------------------------------------------------
    # job = (kind, pattern string, harness AST or None, depth, symbols): depth 0 = the symbols are
    # fed in sequence, depth d = full tree of all sequences up to length d over the symbols
    jobs, big_jobs = [], []
    memo = {}
    leaves = [("s", "a"), ("s", "b"), ANY, E, EOS]
    abc = ["a", "b", "c"]
    for size in range(1, N + 1):
        for r in enum_asts(size, leaves, ("*",), memo):
            jobs.append(("enum", show(r), r, L if size < N else L - 1, abc))
    if not ctx.quick:
        # thorough: up to 7 nodes / length 6, evaluated by the extracted model (see OcamlChecker)
        for size, depth in ((1, 6), (2, 6), (3, 6), (4, 6), (5, 6), (6, 5), (7, 4)):
            for r in enum_asts(size, leaves, ("*",), memo):
                big_jobs.append(("enum-big", show(r), r, depth, abc))
    # sugar forms (+, ?): sampled
    memo2 = {}
    sugar = []
    for size in range(2, N + 1):
        sugar += [r for r in enum_asts(size, leaves, ("*", "+", "?"), memo2) if "+" in show(r) or "?" in show(r)]
    rng.shuffle(sugar)
    for r in sugar[: ctx.pick(400, 3000)]:
        jobs.append(("sugar", show(r), r, L - 1, abc))
    if not ctx.quick:
        for r in sugar[3000:40000]:
            big_jobs.append(("sugar-big", show(r), r, 5, abc))

    # a few bigger random ones
    def rand_ast(n):
        if n <= 1:
            return rng.choice(leaves[:4] + [("s", "a"), ("s", "b"), ("s", "c")])
        k = rng.choice("ca*+?ca")
        if k in "*+?":
            return (k, rand_ast(n - 1))
        i = rng.randrange(1, n - 1) if n > 2 else 1
        return (k, rand_ast(i), rand_ast(max(1, n - 1 - i)))
    for i in range(ctx.pick(150, 6000)):
        r = rand_ast(rng.randrange(N + 1, N + 6))
        if rng.random() < 0.3:
            r = ("c", r, rng.choice([EOS, ("c", EOS, ("?", ("s", "b")))]))
        (jobs if i < 600 else big_jobs).append(("random" if i < 600 else "random-big", show(r), r, 3 if i < 600 else 5, abc))
    for s in HAND_PATTERNS:
        toks = my_tokens(s)
        jobs.append(("hand", s, my_parse(toks) if toks is not None else None, L, abc))
    # real patterns over the data-unit names: random walks biased to valid next symbols
    walk_len = ctx.pick(5, 7)
    for src, p in real_pats:
        r = my_parse(my_tokens(p))
        jobs.append(("real:" + src, p, r, 2, du_names))
        for _ in range(ctx.pick(40, 300)):
            m = sr.Matcher(p)
            seq = []
            for _i in range(walk_len):
                vn = sorted(x for x in m.valid_next_symbols() if x not in ("", "."))
                s = rng.choice(vn) if vn and rng.random() < 0.75 else rng.choice(du_names)
                seq.append(s)
                m.match_symbol(s)
            jobs.append(("real:" + src, p, r, 0, seq))
    # corpus of earlier failures
    corpus = os.path.join(vlib.VERIF, "corpus", "C18", "patterns.txt")
    if os.path.exists(corpus):
        for line in open(corpus):
            line = line.rstrip("\n")
            if line and not line.startswith("#"):
                toks = my_tokens(line)
                if toks is not None:
                    jobs.insert(0, ("corpus", line, my_parse(toks), L, abc))
    for j in jobs + big_jobs:  # number every symbol name before the workers start
        for k, v in (my_tokens(j[1]) or []):
            if k == "string":
                names(v)
        for x in j[4]:
            names(x)

    nbig0 = len(jobs)
    pool = multiprocessing.get_context("fork").Pool(min(vlib.NPROC, 14), initializer=_init_worker, initargs=(dict(names.ids),))
    try:
        results = pool.map(_work, jobs + big_jobs, chunksize=32)
    finally:
        pool.close()
        pool.join()

    # one case per (kind, pattern): all its plans together
    allc, by_pat = [], {}
    oracle_fail = {}
    n_oracle = 0
    for k, res in enumerate(results):
        if res is None:
            continue
        key = (res["kind"], res["pat"])
        if key not in by_pat:
            by_pat[key] = len(allc)
            allc.append({"kind": res["kind"], "pat": res["pat"], "toks_coq": res["toks_coq"], "toks_int": res["toks_int"],
                         "plans": [], "big": k >= nbig0})
        idx = by_pat[key]
        allc[idx]["plans"].append(res)
        ctx.count(res["nodes"], key=("m", res["pat"]) if res["nontrivial"] else None,
                  bucket=res["kind"].split(":")[0] + (":hyp" if res["hyp"] else ":nohyp"))
        if idx < 3 or (res["kind"].startswith("real") and len(ctx.samples) < 6 and res["d"] == 0):
            ctx.sample({"pattern": res["pat"], "kind": res["kind"], "plan": [res["d"], res["syms"]],
                        "is_complete_at_start": res["start"][0], "valid_next_at_start": res["start"][1]})
        if res["hyp"]:
            n_oracle += 1
            if res["fails"]:
                oracle_fail.setdefault(idx, []).extend(res["fails"])
    meta = [(c["kind"], c["pat"]) for c in allc]

    def coq_lit(c):
        return "(%s,[%s])" % (c["toks_coq"], ";".join("(%d%%nat,%s,%s,%s)" % (r_["d"], clist(r_["syms"]), clist(r_["codes"]), clist(r_["pred"]))
                                                     for r_ in c["plans"]))

    def int_line(c):
        out = [len(c["toks_int"])] + c["toks_int"] + [len(c["plans"])]
        for r_ in c["plans"]:
            out += [r_["d"], len(r_["syms"])] + r_["syms"] + [len(r_["codes"])] + r_["codes"] + [len(r_["pred"])] + r_["pred"]
        return " ".join(str(x) for x in out)

    timing["observe_and_oracle"] = round(time.time() - t0, 1)
    ctx.extra["oracle_patterns"] = n_oracle
    ctx.exhaustive = True

    small = [i for i, c in enumerate(allc) if not c["big"]]
    big = [i for i, c in enumerate(allc) if c["big"]]
    ocaml = None
    if big:
        ocaml = OcamlChecker(ctx)
        if not ocaml.ok:
            ctx.note("OCaml extraction of the model not available (%s): the large enumeration is subsampled into coqc shards" % ocaml.msg[-200:])
            rng.shuffle(big)
            small += big[:4000]
            big, ocaml = [], None
    sh = ctx.pick(130, 200)

    def check(name, mode_, which, idxs):
        """indices (into allc) where the check fails; small cases by coqc/vm_compute, big ones by the extracted model"""
        sm = [i for i in idxs if not allc[i]["big"] or ocaml is None]
        bg = [i for i in idxs if allc[i]["big"] and ocaml is not None]
        bad = []
        if sm:
            b = ctx.coq_check_cases(name, imports, "chk_case %s %d" % (mode_, which), [coq_lit(allc[i]) for i in sm], ty="case_t", shard=sh, timeout=2400)
            if b is None:
                return None
            bad += [sm[i] for i in b]
        if bg:
            b = ocaml.run(mode_, which, [int_line(allc[i]) for i in bg])
            ctx.obligation("corr:%s (extracted model, %d cases)" % (name, len(bg)), b is not None, "corr-shard",
                           "%d mismatches" % len(b) if b is not None else "extracted checker failed")
            if b is None:
                return None
            ctx.corr_cases += len(bg)
            ctx.corr_mismatches += len(b)
            bad += [bg[i] for i in b]
        return sorted(bad)

    bad_any = check("matcher", "Directed", 2, small + big)
    if ocaml is not None and bad_any is not None:
        # the extracted model and vm_compute must agree on the cases both evaluate
        b2 = ocaml.run("Directed", 2, [int_line(allc[i]) for i in small])
        same = b2 is not None and [small[i] for i in b2] == [i for i in bad_any if not allc[i]["big"]]
        ctx.obligation("corr:extracted model agrees with vm_compute on the %d shared cases" % len(small), same, "corr-shard", "")
    mode = "directed"
    bad_dir, bad_sym, bad_orc = [], [], []
    if bad_any:
        bad_dir = check("matcher_impl_vs_directed", "Directed", 0, bad_any) or []
        bad_orc = check("matcher_oracle_vs_directed", "Directed", 1, bad_any) or []
        if bad_dir:
            bs = check("matcher_impl_vs_symmetric", "Symmetric", 0, bad_dir)
            bad_sym = bs or []
            if bs is not None and not bad_sym:
                mode = "symmetric"
    if bad_orc:
        ctx.obligation("corr:language oracle agrees with the Directed model (proved equal to lang)", False, "corr-shard",
                       "the harness' derivative oracle and the model differ on %r" % [meta[i][1] for i in bad_orc[:8]])
    ncases = len(allc)
    ctx.extra["eps_mode_of_working_tree"] = mode if not bad_sym else "neither"
    ctx.note("working tree follows empty transitions: %s (%d of %d cases differ from the Directed model, %d of those also from the Symmetric model)"
             % (ctx.extra["eps_mode_of_working_tree"], len(bad_dir), ncases, len(bad_sym)))

    timing["matcher_coq"] = round(time.time() - t0, 1)
    # ---- classify
    reported = 0
    bad_dir_set, bad_sym_set = set(bad_dir), set(bad_sym)
    def best(i):
        return min(oracle_fail[i], key=lambda f: (f[1] != "match_symbol", len(f[0])))
    order = sorted(oracle_fail, key=lambda i: (best(i)[1] != "match_symbol", len(best(i)[0]), len(meta[i][1]), i))
    for i in order:
        kind, pat = meta[i]
        path, what, got, exp = best(i)
        if mode == "symmetric" and i in bad_dir_set:
            # every difference from the Directed model is reproduced by the Symmetric model
            key = "nfa-epsilon-transitions-bidirectional"
            desc = ("Matcher(%r) after %r: %s is %r, the pattern language says %r; reproduced by the model with empty transitions followed in "
                    "both directions (NFANode.add_transition / equivalent_nodes)" % (pat, path, what, got, exp))
        else:
            key = "matcher-differs-from-language:" + what.split(" ")[0]
            desc = "Matcher(%r) after %r: %s is %r, the pattern language says %r" % (pat, path, what, got, exp)
        if reported < 12:
            ctx.violation(key, {"pattern": pat, "sequence": path, "what": what}, desc, observed=got, expected=exp)
            reported += 1
    unexplained = [i for i in bad_dir if i not in oracle_fail and (i in bad_sym_set or mode != "symmetric")]
    if unexplained:
        ctx.obligation("corr:Matcher agrees with the model", False, "corr-shard",
                       "model and implementation differ (property holds there) on %r" % [meta[i][1] for i in unexplained[:8]])
    if mode == "symmetric" and not oracle_fail:
        ctx.obligation("corr:Matcher agrees with the Directed model", False, "corr-shard",
                       "implementation follows empty transitions both ways on %r" % [meta[i][1] for i in bad_dir[:8]])
    ctx.trusted.append("C18: symbol names are numbered by the harness; tokenize_regex is compared with the harness' reading of TOKEN_REGEX (ASCII), "
                       "not modelled in Coq; Matcher objects are branched with copy.copy")
    ctx.trusted.append("C18 oracle: Brzozowski derivatives in tools/harness/C18.py over the harness' own parser/AST (independent of Model/NFA.v)")


def replay(ctx, data):
    sr = impl()
    orc = Oracle()
    inp = data["input"]
    pat, seq = inp["pattern"], inp.get("sequence", [])
    print("replaying", data["key"], inp)
    r = my_parse(my_tokens(pat))
    if r is None:
        print("pattern not understood by the harness parser")
        return 0
    obs = observe(sr, pat, chain_plan(seq))
    fails = oracle_check(orc, r, obs, extra_alphabet=seq) if eos_ok(desugar(r)) else []
    m = sr.Matcher(pat)
    for s in seq:
        print("  match_symbol(%r) -> %r ; is_complete %r ; valid_next %r" % (s, m.match_symbol(s), m.is_complete(), sorted(m.valid_next_symbols())))
    for f in fails:
        print("  after %r: %s observed %r, language says %r" % f)
    print("property violated on this input:", bool(fails))
    return 1 if fails else 0
