"""C14 harness: lossy encoding fills slices to the byte budget with the smallest qindex.

Correspondence (tie C) of Model/EncoderSlices.v with the real
  encoder.pictures.quantize_to_fit / calculate_coeffs_bits / calculate_hq_length_field,
  make_transform_data_hq_lossy, make_transform_data_ld_lossy
on synthetic coefficient sets and on the coefficients the real transform_and_slice_picture
produces for random pictures; and the property oracle on the implementation: the REAL encoder
(make_sequence) on random lossy configurations, minimality re-checked by trying every smaller
admissible index with the real quantize_coeffs / calculate_coeffs_bits against an independently
computed slice budget, 8-bit length fields, slice sizes measured on the serialised bytes, HQ total
against picture_bytes, validator verdict and deserialised slices against the encoder's."""
import random

from vlib import cz, clist, copt

import common


def impl():
    from vc2_conformance import encoder
    from vc2_conformance.encoder import pictures as P
    from vc2_conformance.encoder import exceptions as X
    from vc2_conformance.bitstream import vc2 as V
    from vc2_conformance.bitstream.exceptions import OutOfRangeError
    from vc2_data_tables import WaveletFilters, ColorDifferenceSamplingFormats
    return encoder, P, X, V, OutOfRangeError, WaveletFilters, ColorDifferenceSamplingFormats


# ------------------------------------------------------------------------------- literals
def cc_lit(cc):
    return "(%s, %s)" % (clist(cc[0]), clist(cc[1]))


def sc_lit(sc):
    return "(%s, %s, %s)" % (cc_lit(sc[0]), cc_lit(sc[1]), cc_lit(sc[2]))


def rows_lit(tc):
    return "[" + "; ".join("[" + "; ".join(sc_lit(sc) for sc in row) + "]" for row in tc) + "]"


def slice_obs_lit(q, lens, lists):
    return "(%s, %s, [%s])" % (cz(q), clist(lens), "; ".join(clist(l) for l in lists))


def hq_obs(td):
    return [(s["qindex"], [s["slice_y_length"], s["slice_c1_length"], s["slice_c2_length"]],
             [list(s["y_transform"]), list(s["c1_transform"]), list(s["c2_transform"])]) for s in td["hq_slices"]]


def ld_obs(td):
    return [(s["qindex"], [s["slice_y_length"]], [list(s["y_transform"]), list(s["c_transform"])]) for s in td["ld_slices"]]


def plain_tc(tc):
    """real SliceCoeffs rows -> nested tuples of lists"""
    return [[tuple((list(c.coeff_values), list(c.quant_matrix_values)) for c in (sc.Y, sc.C1, sc.C2)) for sc in row] for row in tc]


def real_tc(P, tc):
    return [[P.SliceCoeffs(*[P.ComponentCoeffs(list(v), list(m)) for (v, m) in sc]) for sc in row] for row in tc]


# ------------------------------------------------------------------------------- generators
def rand_coeff(rng, mag):
    if mag == 0:
        v = rng.choice([0, 0, 0, 1, -1, 2, -3, 7])
    elif mag == 1:
        v = rng.randint(-5000, 5000)
    elif mag == 2:
        v = rng.choice([1, -1]) * ((1 << rng.randrange(1, 40)) + rng.randrange(-1, 2))
    else:
        v = rng.choice([0, 0, 0, 0, rng.randint(-300, 300)])
    return v


def rand_cc(rng, n, mag, qmax):
    vals = [rand_coeff(rng, mag) for _ in range(n)]
    if rng.random() < 0.5:  # trailing zeros
        k = rng.randint(0, n)
        vals[n - k:] = [0] * k
    return (vals, [rng.randint(0, qmax) for _ in range(n)])


def synthetic_tc(rng):
    sx, sy = rng.choice([1, 1, 2, 3, 4]), rng.choice([1, 1, 2, 3])
    mag = rng.choice([0, 1, 1, 2, 3])
    qmax = rng.choice([0, 0, 4, 9])
    rows = []
    for _ in range(sy):
        row = []
        for _ in range(sx):
            ny = rng.randint(0, 10)
            nc = rng.randint(0, 6)
            nc2 = nc if rng.random() < 0.8 else rng.randint(0, 6)  # interleave() truncates to the shorter
            row.append((rand_cc(rng, ny, mag, qmax), rand_cc(rng, nc, mag, qmax), rand_cc(rng, nc2, mag, qmax)))
        rows.append(row)
    return rows


BOUNDARY_QINDICES = [126, 127, 128, 254, 255, 256]


def quant_factor(idx):
    from vc2_conformance.pseudocode.quantization import quant_factor as qf
    return qf(idx)


def boundary_coeff(rng, Q, qm=0, level=0):
    """a value that index Q (matrix entry qm) quantises to `level` but index Q-1 to something longer:
    level 0: 0 at Q, non-zero at Q-1;  level 1: +-1 (4 bits) at Q, +-2 (6 bits) at Q-1"""
    from vc2_conformance.pseudocode.quantization import forward_quant
    idx = max(0, Q - qm)
    c = ((level + 1) * quant_factor(idx) - 1) // 4
    assert abs(forward_quant(c, idx)) == level and abs(forward_quant(c, max(0, idx - 1))) > level
    return rng.choice([1, -1]) * c


def boundary_tc(rng, profile):
    """(coeffs, picture_bytes, minimum_qindex, minimum_slice_size_scaler): a slice grid in which at least one slice fits at
    exactly Q (in 126..128 for LD, 254..256 for HQ) and not at Q-1; the budget leaves room for nothing (LD/HQ) or for one
    4-bit code (LD)"""
    Q = rng.choice([126, 127, 127, 128] if profile == "ld" else [254, 255, 255, 256])
    sx, sy = rng.choice([1, 1, 2, 3]), rng.choice([1, 1, 2])
    n = sx * sy
    level = 1 if (profile == "ld" and rng.random() < 0.4) else 0
    hot = rng.randrange(n)
    rows = []
    for y in range(sy):
        row = []
        for x in range(sx):
            if y * sx + x == hot or rng.random() < 0.5:
                qm = rng.choice([0, 0, 1, 3])
                ny = rng.randint(0, 2)
                yv = [boundary_coeff(rng, Q, qm, level)] + [0] * ny
                yq = [qm] + [rng.randint(0, 4) for _ in range(ny)]
                if level == 0 and rng.random() < 0.5:  # more values that also vanish at Q (or earlier)
                    yv.insert(0, boundary_coeff(rng, Q - rng.randint(0, 9), 0, 0))
                    yq.insert(0, 0)
            else:
                yv, yq = [0] * rng.randint(0, 3), [0] * 3
                yq = yq[:len(yv)]
            nc = rng.randint(0, 2)
            c1 = ([boundary_coeff(rng, Q - rng.randint(0, 5), 0, 0) if (level == 0 and rng.random() < 0.3) else 0 for _ in range(nc)], [0] * nc)
            c2 = ([0] * nc, [rng.randint(0, 2) for _ in range(nc)])
            row.append(((yv, yq), c1, c2))
        rows.append(row)
    if profile == "ld":
        pb = n * (2 if level else 1)  # payload 5 bits: one 4-bit code fits, a 6-bit one does not / payload 1 bit
    else:
        pb = 4 * n
    minq = rng.choice([0, 0, 3, Q - 2, Q - 1, Q, Q + 1]) if rng.random() < 0.7 else rng.choice(BOUNDARY_QINDICES)
    return rows, pb, minq, rng.choice([1, 1, 2])


def pb_choices(profile, n, rng):
    """picture_bytes from below the minimum upward, incl. values forcing slice_size_scaler > 1"""
    if profile == "hq":
        lo = 4 * n
        return rng.choice([
            lo - rng.randint(1, 4), lo, lo + rng.randint(0, 3 * n), lo + rng.randint(0, 60), n * rng.randint(4, 300),
            n * (259 + rng.randint(-2, 2)) + rng.randint(-2, 2), n * (259 + rng.randint(0, 1200)) + rng.randint(0, n),
            n * (514 + rng.randint(-2, 2)) + rng.randint(-2, 2), n * rng.randint(260, 3000) + rng.randint(0, 2 * n)])
    lo = n
    return rng.choice([lo - 1, lo, lo + rng.randint(0, 2 * n), n * rng.randint(1, 8) + rng.randint(0, n),
                       n * rng.randint(1, 200) + rng.randint(0, n), n * rng.randint(1, 40)])


# ------------------------------------------------------------------------------- correspondence
def corr_function_level(ctx, I):
    encoder, P, X, V, OOR, WF, CDF = I
    rng = ctx.rng
    hq_cases, ld_cases, hq_meta, ld_meta = [], [], [], []

    def add(tc, pb, minq, mins, profile, src):
        if profile == "hq":
            try:
                s, td = P.make_transform_data_hq_lossy(pb, real_tc(P, tc), minq, mins)
                ob = hq_obs(td)
                obs = "(Some (%s, [%s]))" % (cz(s), "; ".join(slice_obs_lit(*o) for o in ob))
                key = ("hq", pb, minq, mins, repr(tc)) if any(o[0] > minq for o in ob) else None
                ctx.count(1, key=key, bucket="corr-hq-" + src + ("-scaler>1" if s > 1 else ""))
            except X.InsufficientHQPictureBytesError:
                obs = "None"
                ctx.count(1, bucket="corr-hq-" + src + "-insufficient")
            hq_cases.append("(%s, %s, %s, %s, %s)" % (cz(pb), rows_lit(tc), cz(minq), cz(mins), obs))
            hq_meta.append((pb, tc, minq, mins))
        else:
            try:
                td = P.make_transform_data_ld_lossy(pb, real_tc(P, tc), minq)
                ob = ld_obs(td)
                obs = "(Some [%s])" % "; ".join(slice_obs_lit(*o) for o in ob)
                key = ("ld", pb, minq, repr(tc)) if any(o[0] > minq for o in ob) else None
                ctx.count(1, key=key, bucket="corr-ld-" + src)
            except X.InsufficientLDPictureBytesError:
                obs = "None"
                ctx.count(1, bucket="corr-ld-" + src + "-insufficient")
            ld_cases.append("(%s, %s, %s, %s)" % (cz(pb), rows_lit(tc), cz(minq), obs))
            ld_meta.append((pb, tc, minq))

    # synthetic coefficient sets
    for _ in range(ctx.pick(240, 5000)):
        tc = synthetic_tc(rng)
        n = len(tc) * len(tc[0])
        profile = rng.choice(["hq", "ld"])
        pb = pb_choices(profile, n, rng)
        if pb < 0:
            continue
        minq = rng.choice(BOUNDARY_QINDICES) if rng.random() < 0.3 else rng.choice([0, 0, 0, 1, 5, 20, 60, 130, 260])
        add(tc, pb, minq, rng.choice([1, 1, 1, 2, 3, 10, 0]), profile, "synthetic")
    # slices whose smallest fitting index is exactly at / next to the largest index the qindex field can hold
    for _ in range(ctx.pick(60, 900)):
        profile = rng.choice(["hq", "ld"])
        tc, pb, minq, mins = boundary_tc(rng, profile)
        add(tc, pb, minq, mins, profile, "boundary")
    # coefficients of real pictures
    for _ in range(ctx.pick(80, 1500)):
        kw = common.random_small_config(rng, lossless=False, max_w=12, max_h=8, deep=rng.random() < 0.2)
        cf = common.make_codec_features(**kw)
        pic = common.random_picture(cf, rng)
        tc = plain_tc(P.transform_and_slice_picture(cf, pic))
        n = kw["slices_x"] * kw["slices_y"]
        pb = pb_choices(kw["profile"], n, rng) if rng.random() < 0.8 else kw["picture_bytes"]
        if pb < 0:
            continue
        add(tc, pb, rng.choice([0, 0, 0, 3, 17]), rng.choice([1, 1, 2, 5]), kw["profile"], "picture")
    ctx.sample({"hq_case": hq_cases[0][:400]})
    ctx.sample({"ld_case": ld_cases[0][:400]})

    imports = ["Base.PyZ", "Model.EncoderSlices", "Corr.C14"]
    bad = ctx.coq_check_cases("hq_lossy", imports, "check_hq_lossy", hq_cases, shard=12)
    for i in (bad or []):
        pb, tc, minq, mins = hq_meta[i]
        ctx.obligation("corr:make_transform_data_hq_lossy agrees with the model", False, "corr-shard",
                       "differ at picture_bytes=%d minimum_qindex=%d minimum_slice_size_scaler=%d coeffs=%r" % (pb, minq, mins, tc))
        oracle_function_level(ctx, I, "hq", pb, tc, minq, mins)
    bad = ctx.coq_check_cases("ld_lossy", imports, "check_ld_lossy", ld_cases, shard=12)
    for i in (bad or []):
        pb, tc, minq = ld_meta[i]
        ctx.obligation("corr:make_transform_data_ld_lossy agrees with the model", False, "corr-shard",
                       "differ at picture_bytes=%d minimum_qindex=%d coeffs=%r" % (pb, minq, tc))
        oracle_function_level(ctx, I, "ld", pb, tc, minq, 1)

    # quantize_to_fit / calculate_coeffs_bits / calculate_hq_length_field directly
    cases, meta = [], []
    for _ in range(ctx.pick(240, 4000)):
        nsets = rng.randint(1, 3)
        mag = rng.choice([0, 1, 2, 3])
        sets = [rand_cc(rng, rng.randint(0, 9), mag, rng.choice([0, 5])) for _ in range(nsets)]
        align = rng.choice([1, 1, 8, 16, 24, 3, 40])
        minq = rng.choice([0, 0, 2, 9, 40])
        target = rng.choice([0, 1, 3, align, align * rng.randint(0, 12), rng.randint(0, 400)])
        q, qs = P.quantize_to_fit(target, [P.ComponentCoeffs(*s) for s in sets], align, minq)
        bits = [P.calculate_coeffs_bits(x) for x in qs]
        lens = [P.calculate_hq_length_field(x, 3) for x in qs]
        cases.append("(%s, [%s], %s, %s, (%s, [%s]), %s, %s)" % (
            cz(target), "; ".join(cc_lit(s) for s in sets), cz(align), cz(minq), cz(q), "; ".join(clist(x) for x in qs),
            clist(bits), clist(lens)))
        meta.append((target, sets, align, minq))
        ctx.count(1, key=("qtf", target, repr(sets), align, minq) if q > minq else None, bucket="corr-quantize_to_fit")
    bad = ctx.coq_check_cases("qtf", imports, "check_qtf", cases, shard=40)
    for i in (bad or []):
        ctx.obligation("corr:quantize_to_fit agrees with the model", False, "corr-shard", "differ at %r" % (meta[i],))
        target, sets, align, minq = meta[i]
        check_minimal(ctx, I, "quantize_to_fit", {"target": target, "sets": sets, "align": align, "minq": minq}, target, sets, align, minq,
                      *P.quantize_to_fit(target, [P.ComponentCoeffs(*s) for s in sets], align, minq))


# ------------------------------------------------------------------------------- oracle pieces
def total_bits(P, q, sets, align):
    t = 0
    for (vals, qms) in sets:
        b = P.calculate_coeffs_bits(P.quantize_coeffs(q, vals, qms))
        t += ((b + align - 1) // align) * align
    return t


def check_minimal(ctx, I, where, inp, target, sets, align, minq, q, qs):
    """the property's first clause on one slice, with the real quantiser and bit counter"""
    encoder, P, X, V, OOR, WF, CDF = I
    ok = True
    if q < minq:
        ctx.violation(where + "-qindex-below-minimum", inp, "qindex %d below the requested minimum %d" % (q, minq), observed=q)
        ok = False
    if total_bits(P, q, sets, align) > target:
        ctx.violation(where + "-does-not-fit", inp, "coefficients quantised with the chosen qindex %d take %d bits > budget %d" % (
            q, total_bits(P, q, sets, align), target), observed=q)
        ok = False
    for q2 in range(minq, q):
        if total_bits(P, q2, sets, align) <= target:
            ctx.violation(where + "-non-minimal-qindex", inp, "qindex %d chosen but %d (>= minimum %d) already fits the budget of %d bits" % (
                q, q2, minq, target), observed=q, expected=q2)
            ok = False
            break
    if [list(x) for x in qs] != [P.quantize_coeffs(q, v, m) for (v, m) in sets]:
        ctx.violation(where + "-coefficients-not-quantised-with-qindex", inp, "slice coefficients are not quantize_coeffs(qindex, ...)", observed=q)
        ok = False
    return ok


def no_index_fits(P, target, sets, align, minq, top):
    return all(total_bits(P, q, sets, align) > target for q in range(minq, top + 1))


def slice_budgets(n, num, den):
    """floor((k+1)*num/den) - floor(k*num/den), computed here (not with slice_bytes)"""
    return [((k + 1) * num) // den - (k * num) // den for k in range(n)]


def intlog2(n):
    return (n - 1).bit_length()


def oracle_slices(ctx, I, where, inp, profile, pb, tc, minq, s, slices):
    """The per-slice clauses of the property on real slices (dicts) given the real coefficients tc.
    Returns the list of expected slice sizes in bytes."""
    encoder, P, X, V, OOR, WF, CDF = I
    flat = [sc for row in tc for sc in row]
    n = len(flat)
    sizes = []
    if len(slices) != n:
        ctx.violation(where + "-slice-count", inp, "%d slices for %d coefficient groups" % (len(slices), n))
        return None
    if profile == "hq":
        budgets = slice_budgets(n, pb - 4 * n, n * s)
        for k, (sl, sc) in enumerate(zip(slices, flat)):
            lens = [sl["slice_y_length"], sl["slice_c1_length"], sl["slice_c2_length"]]
            if any(not (0 <= l <= 255) for l in lens):
                ctx.violation(where + "-hq-length-field-not-8-bit", dict(inp, slice=k), "length fields %r of slice %d" % (lens, k), observed=lens)
            if sum(lens) != budgets[k]:
                ctx.violation(where + "-hq-slice-budget", dict(inp, slice=k), "length fields of slice %d sum to %d, budget %d units" % (k, sum(lens), budgets[k]),
                              observed=sum(lens), expected=budgets[k])
            need = [P.calculate_hq_length_field(list(sl[t]), s) for t in ("y_transform", "c1_transform", "c2_transform")]
            if lens[0] != need[0] or lens[1] != need[1] or lens[2] < need[2]:
                ctx.violation(where + "-hq-length-too-short", dict(inp, slice=k), "length fields %r but the coefficients need %r" % (lens, need))
            check_minimal(ctx, I, where, dict(inp, slice=k), 8 * s * budgets[k], list(sc), 8 * s, minq, sl["qindex"],
                          [sl["y_transform"], sl["c1_transform"], sl["c2_transform"]])
            sizes.append(4 + s * sum(lens))
        tot = sum(sizes)
        if not (0 <= pb - tot < s):
            ctx.violation(where + "-hq-total-vs-picture_bytes", inp, "HQ slice data totals %d bytes, picture_bytes %d, slice_size_scaler %d" % (tot, pb, s),
                          observed=tot, expected="within %d below %d" % (s, pb))
    else:
        budgets = slice_budgets(n, pb, n)
        for k, (sl, sc) in enumerate(zip(slices, flat)):
            sb = budgets[k]
            lb = intlog2(8 * sb - 7)
            payload = 8 * sb - 7 - lb
            c = (P.interleave(sc[1][0], sc[2][0]), P.interleave(sc[1][1], sc[2][1]))
            check_minimal(ctx, I, where, dict(inp, slice=k), payload, [sc[0], c], 1, minq, sl["qindex"], [sl["y_transform"], sl["c_transform"]])
            yl = sl["slice_y_length"]
            if not (0 <= yl < (1 << lb)) or yl != P.calculate_coeffs_bits(list(sl["y_transform"])):
                ctx.violation(where + "-ld-slice_y_length", dict(inp, slice=k), "slice_y_length %d, field of %d bits, luma needs %d bits" % (
                    yl, lb, P.calculate_coeffs_bits(list(sl["y_transform"]))), observed=yl)
            if yl + P.calculate_coeffs_bits(list(sl["c_transform"])) > payload:
                ctx.violation(where + "-ld-slice-overflows", dict(inp, slice=k), "slice %d needs more than its %d bytes" % (k, sb))
            sizes.append(sb)
        if sum(sizes) != pb:
            ctx.violation(where + "-ld-total", inp, "slice_bytes sum to %d, picture_bytes %d" % (sum(sizes), pb))
    return sizes


def oracle_function_level(ctx, I, profile, pb, tc, minq, mins):
    """decide a correspondence mismatch with the property oracle on the packers themselves"""
    encoder, P, X, V, OOR, WF, CDF = I
    inp = {"level": "function", "profile": profile, "picture_bytes": pb, "coeffs": tc, "minimum_qindex": minq, "minimum_slice_size_scaler": mins}
    n = len(tc) * len(tc[0])
    try:
        if profile == "hq":
            s, td = P.make_transform_data_hq_lossy(pb, real_tc(P, tc), minq, mins)
            slices = td["hq_slices"]
        else:
            s, td = 1, P.make_transform_data_ld_lossy(pb, real_tc(P, tc), minq)
            slices = td["ld_slices"]
    except (X.InsufficientHQPictureBytesError, X.InsufficientLDPictureBytesError):
        return check_insufficient(ctx, I, "packer", inp, profile, pb, tc, minq, mins)
    top = 255 if profile == "hq" else 127
    for k, sl in enumerate(slices):
        if sl["qindex"] > top:
            ctx.violation(("hq-qindex-exceeds-8-bits" if profile == "hq" else "ld-qindex-exceeds-7-bits"), dict(inp, slice=k),
                          "slice %d gets qindex %d which does not fit the %d-bit qindex field" % (k, sl["qindex"], 8 if profile == "hq" else 7),
                          observed=sl["qindex"], expected="<= %d or Insufficient*PictureBytesError" % top)
    oracle_slices(ctx, I, "packer", inp, profile, pb, tc, minq, s, slices)


def check_insufficient(ctx, I, where, inp, profile, pb, tc, minq, mins):
    """The encoder refused: legitimate only if picture_bytes is below the minimum or some slice has
    no admissible index that fits (the property says nothing then)."""
    encoder, P, X, V, OOR, WF, CDF = I
    flat = [sc for row in tc for sc in row]
    n = len(flat)
    if profile == "hq":
        if pb < 4 * n:
            return
        s = max(P.get_safe_lossy_hq_slice_size_scaler(pb, n), mins)
        budgets = slice_budgets(n, pb - 4 * n, n * s)
        for k, sc in enumerate(flat):
            if no_index_fits(P, 8 * s * budgets[k], list(sc), 8 * s, minq, 255):
                return
    else:
        budgets = slice_budgets(n, pb, n)
        for k, sc in enumerate(flat):
            payload = 8 * budgets[k] - 7 - intlog2(8 * budgets[k] - 7)
            if payload < 0:
                return
            c = (P.interleave(sc[1][0], sc[2][0]), P.interleave(sc[1][1], sc[2][1]))
            if no_index_fits(P, payload, [sc[0], c], 1, minq, 127):
                return
    # every slice has an admissible index that fits: which is the smallest one, per slice?
    top = 255 if profile == "hq" else 127
    firsts = []
    for k, sc in enumerate(flat):
        if profile == "hq":
            t, sets, al = 8 * s * budgets[k], list(sc), 8 * s
        else:
            t, sets, al = 8 * budgets[k] - 7 - intlog2(8 * budgets[k] - 7), [sc[0], (P.interleave(sc[1][0], sc[2][0]), P.interleave(sc[1][1], sc[2][1]))], 1
        firsts.append(next(q for q in range(minq, top + 1) if total_bits(P, q, sets, al) <= t))
    if max(firsts) == top:
        ctx.violation(where + "-refuses-although-max-qindex-fits", inp,
                      "Insufficient*PictureBytesError although every slice fits with a representable index: smallest fitting indices %r, "
                      "the qindex field holds up to %d" % (firsts, top), observed="Insufficient*PictureBytesError", expected="qindex %r" % (firsts,))
    else:
        ctx.violation(where + "-refuses-encodable-picture", inp,
                      "Insufficient*PictureBytesError although every slice has an admissible index that fits: %r" % (firsts,))


# ------------------------------------------------------------------------------- full stack
class SliceMeter(object):
    """records the writer position around every slice while the REAL serialiser runs"""

    def __init__(self, V):
        self.V = V
        self.rec = []

    def __enter__(self):
        self.orig = {}
        for name in ("ld_slice", "hq_slice"):
            self.orig[name] = getattr(self.V, name)
            setattr(self.V, name, self.wrap(self.orig[name]))
        return self

    def wrap(self, orig):
        def w(serdes, state, sx, sy):
            a = serdes.io.tell()
            r = orig(serdes, state, sx, sy)
            b = serdes.io.tell()
            self.rec.append((b[0] * 8 + 7 - b[1]) - (a[0] * 8 + 7 - a[1]))
            return r
        return w

    def __exit__(self, *a):
        for name, f in self.orig.items():
            setattr(self.V, name, f)


def get_pictures(seq, profile):
    """[(slices, slice_size_scaler)] per coded picture, in stream order"""
    name = "hq_slices" if profile == "hq" else "ld_slices"
    out = []
    for du in seq["data_units"]:
        if "picture_parse" in du:
            wt = du["picture_parse"]["wavelet_transform"]
            out.append([list(wt["transform_data"][name]), wt["transform_parameters"]["slice_parameters"].get("slice_size_scaler")])
        elif "fragment_parse" in du:
            fp = du["fragment_parse"]
            if "transform_parameters" in fp:
                out.append([[], fp["transform_parameters"]["slice_parameters"].get("slice_size_scaler")])
            if "fragment_data" in fp:
                out[-1][0] += list(fp["fragment_data"][name])
    return out


def build(I, inp):
    """config + picture from a JSON-able input"""
    encoder, P, X, V, OOR, WF, CDF = I
    kw = dict(inp["config"])
    kw["wavelet_index"] = WF(kw["wavelet_index"])
    kw["wavelet_index_ho"] = WF(kw["wavelet_index_ho"])
    kw["color_diff_format"] = CDF(kw["color_diff_format"])
    if kw.get("quantization_matrix") is not None:
        kw["quantization_matrix"] = dict((int(l), v) for l, v in kw["quantization_matrix"].items())
    cf = common.make_codec_features(**kw)
    prng = random.Random(inp["picture_seed"])
    # a sequence of field pictures must hold whole frames
    if inp.get("picture_const") is not None:
        # constant planes: coefficient value + mid-level per component (depth 0 transform: the coefficients are the pixels)
        pics = []
        for i in range(2 if kw.get("fields") else 1):
            pic = dict((c, [[inp["picture_const"][c] + (1 << (depth - 1))] * w for _ in range(h)]) for c, (w, h, depth) in common.dims(cf).items())
            pic["pic_num"] = i
            pics.append(pic)
        return kw, cf, pics
    pics = [common.random_picture(cf, prng, inp["picture_kind"], pic_num=i) for i in range(2 if kw.get("fields") else 1)]
    return kw, cf, pics


def oracle_full_stack(ctx, I, inp, verbose=False):
    """runs the real encoder + serialiser + validator on one configuration; reports violations; returns a bucket name"""
    encoder, P, X, V, OOR, WF, CDF = I
    kw, cf, pics = build(I, inp)
    profile, pb = kw["profile"], kw["picture_bytes"]
    minq, mins = inp["minimum_qindex"], inp["minimum_slice_size_scaler"]
    tcs = [plain_tc(P.transform_and_slice_picture(cf, pic)) for pic in pics]
    try:
        seq = encoder.make_sequence(cf, pics, minimum_qindex=minq, minimum_slice_size_scaler=mins)
    except (X.InsufficientHQPictureBytesError, X.InsufficientLDPictureBytesError):
        # legitimate if it is for at least one of the pictures
        before = len(ctx.violations)
        for tc in tcs:
            check_insufficient(ctx, I, "encoder", inp, profile, pb, tc, minq, mins)
        if len(ctx.violations) - before < len(tcs):
            del ctx.violations[before:]
        if verbose:
            print("encoder raised Insufficient*PictureBytesError")
        return "insufficient"
    coded = get_pictures(seq, profile)
    top = 255 if profile == "hq" else 127
    over = [sl["qindex"] for (slices, _) in coded for sl in slices if sl["qindex"] > top]
    sizes, slices_all = [], []
    for (slices, s), tc in zip(coded, tcs):
        if profile == "ld":
            s = 1
        if verbose:
            print("qindex per slice:", [sl["qindex"] for sl in slices], "slice_size_scaler:", s)
        sz = oracle_slices(ctx, I, "encoder", inp, profile, pb, tc, minq, s, slices)
        sizes = None if (sz is None or sizes is None) else sizes + sz
        slices_all += slices
    slices = slices_all
    if over:
        ctx.violation("hq-qindex-exceeds-8-bits" if profile == "hq" else "ld-qindex-exceeds-7-bits", inp,
                      "the encoder picks qindex %r, which does not fit the %d-bit qindex field" % (over, 8 if profile == "hq" else 7),
                      observed=over, expected="<= %d or Insufficient*PictureBytesError" % top)
        return "qindex-too-wide"
    with SliceMeter(V) as meter:
        try:
            data = common.serialise([seq])
        except Exception as e:
            if isinstance(e, OOR) and over:
                ctx.violation("hq-qindex-exceeds-8-bits" if profile == "hq" else "ld-qindex-exceeds-7-bits", inp,
                              "the encoder picks qindex %r, which does not fit the %d-bit qindex field; serialising raises %s: %s" % (
                                  over, 8 if profile == "hq" else 7, type(e).__name__, e),
                              observed=over, expected="<= %d or Insufficient*PictureBytesError" % top)
            else:
                ctx.violation("encoder-output-not-serialisable:" + type(e).__name__, inp, "serialising the encoder's output raises %r" % (e,))
            if verbose:
                print("serialising raised", repr(e))
            return "serialise-raises"
    if sizes is not None:
        want = [8 * b for b in sizes]
        if meter.rec != want:
            ctx.violation("encoder-slice-sizes-on-the-wire", inp, "serialised slice sizes (bits) %r, computed %r" % (meter.rec[:12], want[:12]),
                          observed=meter.rec[:50], expected=want[:50])
    verdict, exc, pics, _ = common.validate(data)
    if verdict != "accept":
        ctx.violation("encoder-stream-rejected:" + verdict, inp, "the validator says %s: %r" % (verdict, exc))
        return "rejected"
    stream, exc = common.deserialise(data)
    got = [sl for (sls, _) in get_pictures(stream["sequences"][0], profile) for sl in sls]
    keys = ("qindex", "slice_y_length", "slice_c1_length", "slice_c2_length", "y_transform", "c1_transform", "c2_transform") if profile == "hq" \
        else ("qindex", "slice_y_length", "y_transform", "c_transform")
    for k, (a, b) in enumerate(zip(slices, got)):
        for key in keys:
            va, vb = a[key], b[key]
            if (list(va) if isinstance(va, (list, tuple)) else va) != (list(vb) if isinstance(vb, (list, tuple)) else vb):
                ctx.violation("encoder-slice-changed-by-serialisation", dict(inp, slice=k), "%s of slice %d differs after serialise/deserialise (truncated block?)" % (key, k))
                return "truncated"
    if verbose:
        print("slice sizes (bytes):", [b // 8 for b in meter.rec][:40], "total", sum(meter.rec) // 8, "picture_bytes", pb)
    return "ok" + ("-scaler>1" if s > 1 else "") + ("-q>min" if any(sl["qindex"] > minq for sl in slices) else "")


def search_full_stack(ctx, I):
    rng = ctx.rng
    # the configuration that exposed the qindex field overflow (fixed by fixes/C14-qindex-field-overflow.diff), first
    fixed = []
    for prof, pb, bits in (("ld", 2, 30), ("ld", 2, 32), ("hq", 8, 64), ("ld", 6, 31)):
        kw = dict(profile=prof, picture_bytes=pb, slices_x=2, slices_y=1, frame_width=8, frame_height=4, dwt_depth=1,
                  luma_excursion=(1 << bits) - 1, color_diff_excursion=(1 << bits) - 1, color_diff_offset=0)
        cf = common.make_codec_features(**kw)
        full = dict(profile=prof, lossless=False, picture_bytes=pb, wavelet_index=cf["wavelet_index"], wavelet_index_ho=cf["wavelet_index_ho"],
                    dwt_depth=1, dwt_depth_ho=0, slices_x=2, slices_y=1, fragment_slice_count=0, frame_width=8, frame_height=4,
                    color_diff_format=cf["video_parameters"]["color_diff_format_index"], fields=False, interlaced=False, luma_offset=0,
                    luma_excursion=(1 << bits) - 1, color_diff_offset=0, color_diff_excursion=(1 << bits) - 1, quantization_matrix=None)
        fixed.append({"config": common.describe_config(full), "picture_kind": "extremes", "picture_seed": 1,
                      "minimum_qindex": 0, "minimum_slice_size_scaler": 1})
    # pictures whose only non-zero coefficients need exactly index Q (depth-0 transform, constant planes, no room for any code)
    for prof, Qs in (("ld", (126, 127, 128)), ("hq", (254, 255, 256))):
        for Q in Qs:
            for (sx, sy, frag, minq) in ((2, 1, 0, 0), (1, 2, 1, Q - 1), (3, 1, 0, Q)):
                c = abs(boundary_coeff(rng, Q))
                depth = c.bit_length() + 2
                n = sx * sy
                kw = dict(profile=prof, lossless=False, picture_bytes=(n if prof == "ld" else 4 * n), wavelet_index=rng.choice(common.WAVELETS),
                          dwt_depth=0, dwt_depth_ho=0, slices_x=sx, slices_y=sy, fragment_slice_count=frag, frame_width=2 * sx, frame_height=2 * sy,
                          color_diff_format=common.ColorDifferenceSamplingFormats.color_4_4_4, fields=False, interlaced=False, luma_offset=0,
                          luma_excursion=(1 << depth) - 1, color_diff_offset=0, color_diff_excursion=(1 << depth) - 1,
                          quantization_matrix=common.flat_quant_matrix(0, 0))
                kw["wavelet_index_ho"] = kw["wavelet_index"]
                fixed.append({"config": common.describe_config(kw), "picture_kind": "const", "picture_seed": 0,
                              "picture_const": {"Y": rng.choice([1, -1]) * c, "C1": 0, "C2": rng.choice([0, c // 7])},
                              "minimum_qindex": minq, "minimum_slice_size_scaler": 1})
    for inp in fixed:
        b = oracle_full_stack(ctx, I, inp)
        ctx.count(1, key=("fixed", repr(inp)), bucket="stack-boundary-" + b)
    for i in range(ctx.pick(450, 6000)):
        kw = common.random_small_config(rng, lossless=False, deep=rng.random() < 0.15)
        n = kw["slices_x"] * kw["slices_y"]
        if rng.random() < 0.85:
            kw["picture_bytes"] = pb_choices(kw["profile"], n, rng)
        if kw["picture_bytes"] < 0:
            continue
        inp = {"config": common.describe_config(kw), "picture_kind": rng.choice(["noise", "zeros", "max", "mid", "extremes", "ramp", "noise", "extremes"]),
               "picture_seed": rng.randrange(1 << 30), "minimum_qindex": rng.choice(BOUNDARY_QINDICES) if rng.random() < 0.25 else rng.choice([0, 0, 0, 0, 1, 4, 15, 40, 100]),
               "minimum_slice_size_scaler": rng.choice([1, 1, 1, 2, 3, 7])}
        b = oracle_full_stack(ctx, I, inp)
        ctx.count(1, key=("stack", repr(inp)) if b.endswith("q>min") else None, bucket="stack-%s-%s" % (kw["profile"], b))
        if i < 2:
            ctx.sample(inp)


def run(ctx):
    I = impl()
    ctx.extra["rule"] = (
        "correspondence: the real make_transform_data_hq_lossy / make_transform_data_ld_lossy / quantize_to_fit / calculate_coeffs_bits / "
        "calculate_hq_length_field vs Model/EncoderSlices.v on (a) synthetic slice coefficient sets (1-4 x 1-3 slices, 0-10 coefficients per "
        "component, magnitudes up to 2^40, per-coefficient matrix values, unequal C1/C2 lengths) and (b) the coefficients the real "
        "transform_and_slice_picture yields for random small configurations and pictures; picture_bytes from below the minimum upward incl. "
        "values around the slice_size_scaler thresholds, minimum_qindex 0..260 (30% in {126,127,128,254,255,256}), minimum_slice_size_scaler 0..10, "
        "and (c) boundary grids built from quant_factor so that a slice fits at exactly Q in 126..128 (LD) / 254..256 (HQ) and not at Q-1; compares scaler, per-slice "
        "qindex, length fields and coefficient lists (or the Insufficient error).  A case is non-trivial when some slice needs qindex > minimum.  "
        "oracle: real make_sequence on random lossy configurations (both profiles, fragments, fields, all wavelets, bit depths to 32) x picture "
        "kinds x picture_bytes sweep x overrides: minimality by exhaustive re-quantisation of every smaller admissible index, 8-bit fields, "
        "budget sums, slice sizes measured on the serialised bytes, validator accepts, deserialised slices equal the encoder's.")
    import time
    t0 = time.time()
    corr_function_level(ctx, I)
    t1 = time.time()
    search_full_stack(ctx, I)
    ctx.note("timing: correspondence %.0fs, full-stack oracle %.0fs" % (t1 - t0, time.time() - t1))
    ctx.trusted.append("Gen/Quant.v, Gen/ExpGolombLen.v, Gen/SliceSizes.v, Gen/EncBudget.v, Gen/VC2Math.v regenerated from /repo by the translator on this run")
    ctx.trusted.append("HQ slice wire format 4 + scaler*(y+c1+c2 lengths) bytes and LD slice = slice_bytes bytes are measured on the real serialiser, not modelled")
    ctx.note("model describes the repaired encoder (fixes/C14-qindex-field-overflow.diff): qindex beyond the field width -> Insufficient*PictureBytesError")


def replay(ctx, data):
    I = impl()
    inp = data["input"]
    print("replaying", data.get("key"), {k: v for k, v in inp.items() if k != "coeffs"})
    before = len(ctx.violations)
    if inp.get("level") == "function":
        oracle_function_level(ctx, I, inp["profile"], inp["picture_bytes"], [[tuple((list(c[0]), list(c[1])) for c in sc) for sc in row] for row in inp["coeffs"]],
                              inp["minimum_qindex"], inp["minimum_slice_size_scaler"])
    elif "config" in inp:
        oracle_full_stack(ctx, I, inp, verbose=True)
    else:
        encoder, P = I[0], I[1]
        sets = [(list(s[0]), list(s[1])) for s in inp["sets"]]
        q, qs = P.quantize_to_fit(inp["target"], [P.ComponentCoeffs(*s) for s in sets], inp["align"], inp["minq"])
        print("quantize_to_fit ->", q)
        check_minimal(ctx, I, "quantize_to_fit", inp, inp["target"], sets, inp["align"], inp["minq"], q, qs)
    for v in ctx.violations[before:]:
        print("VIOLATED:", v["key"], "-", v["description"])
    bad = len(ctx.violations) > before
    print("property violated on this input:", bad)
    return 1 if bad else 0
