"""C09 harness: every decoded picture is well-formed.

Oracle (implementation): streams from the real encoder for many formats (odd sizes, 4:4:4/4:2:2/4:2:0, fields, all
wavelets incl. asymmetric, fragments), slices re-packed with extreme / random / dangling coefficients (valid
lengths) -> real validator with an output-picture callback -> per component exact width x height (computed
independently from the coded frame size, colour format and picture coding mode, and compared with
dimensions_and_depths), every sample a Python int in [0, 2^depth - 1], pic_num equal to the coded number, exactly one
picture per picture data unit and per completed fragmented picture (counted independently from the deserialised
description).
Correspondence (tie C): Model/Picture.v finish_component (pad removal, clip, offset) and mk_dims vs the real
functions on random arrays; Model run (picture_decode call sites, fragment counters) vs the real validator on the
unit lists of the generated streams and of mutants with a fragment dropped / duplicated.
"""
import io
import copy

from vlib import cz, clist, cbool

import C08 as H


MODELLED_REJECTIONS = (
    "SequenceContainsIncompleteFragmentedPicture", "TooManySlicesInFragmentedPicture",
    "PictureInterleavedWithFragmentedPicture", "FragmentedPictureRestarted", "PictureNumberChangedMidFragmentedPicture",
)


def validate(data):
    """real validator with the output callback -> (verdict, [(picture, video_parameters, picture_coding_mode)])"""
    I = H.impl()
    pictures = []

    def cb(picture, video_parameters, picture_coding_mode):
        pictures.append((copy.deepcopy(picture), copy.deepcopy(video_parameters), picture_coding_mode))

    state = I.State(_output_picture_callback=cb)
    try:
        with H.Watchdog(60):
            I.decoder.init_io(state, io.BytesIO(data))
            I.decoder.parse_stream(state)
        return "accept", pictures
    except I.decoder.ConformanceError as e:
        return "conformance:" + type(e).__name__, pictures
    except Exception as e:
        return "crash:" + type(e).__name__, pictures


def abstract_units(context):
    """per sequence: the data units as [0,pn] | [1,pn,slices] | [2,pn,count] | [3] from the DESERIALISED description"""
    seqs = []
    for seq in context["sequences"]:
        us = []
        for du in seq["data_units"]:
            if "picture_parse" in du:
                us.append([0, du["picture_parse"]["picture_header"]["picture_number"]])
            elif "fragment_parse" in du:
                fp = du["fragment_parse"]
                fh = fp["fragment_header"]
                if fh["fragment_slice_count"] == 0:
                    sp = fp["transform_parameters"]["slice_parameters"]
                    us.append([1, fh["picture_number"], sp["slices_x"] * sp["slices_y"]])
                else:
                    us.append([2, fh["picture_number"], fh["fragment_slice_count"]])
            else:
                us.append([3])
        seqs.append(us)
    return seqs


def expected_picture_numbers(units):
    """independent count: a picture per picture unit, and per fragmented picture whose slice counts add up"""
    out = []
    pending = None
    for u in units:
        if u[0] == 0:
            out.append(u[1])
        elif u[0] == 1:
            pending = [u[1], u[2], 0]
        elif u[0] == 2 and pending is not None:
            pending[2] += u[2]
            if pending[2] == pending[1]:
                out.append(pending[0])
                pending = None
    return out


def expected_dims(desc):
    """{comp: (w, h, depth)} straight from the configuration that was encoded (not via the code base)"""
    w, h = desc["frame_width"], desc["frame_height"]
    cw, ch = w, h
    if desc["color_diff_format"] == 1:
        cw //= 2
    elif desc["color_diff_format"] == 2:
        cw //= 2
        ch //= 2
    if desc["fields"]:
        h //= 2
        ch //= 2
    ld = int(desc["luma_excursion"]).bit_length()
    cd = int(desc["color_diff_excursion"]).bit_length()
    return {"Y": (w, h, ld), "C1": (cw, ch, cd), "C2": (cw, ch, cd)}


def check_pictures(desc, data):
    """the property on one stream -> (status, failures, info)"""
    I = H.impl()
    from vc2_conformance.dimensions_and_depths import compute_dimensions_and_depths
    verdict, pictures = validate(data)
    if verdict != "accept":
        return "skip:" + verdict, [], {}
    fails = []
    d = H.run_deserialiser(data)
    exp_nums = None
    if d["exc"] is None and d["context"] is not None:
        exp_nums = [n for us in abstract_units(d["context"]) for n in expected_picture_numbers(us)]
        got = [p[0].get("pic_num") for p in pictures]
        if len(got) != len(exp_nums):
            fails.append(("picture-count", "pictures output vs picture units + completed fragmented pictures", len(got), len(exp_nums)))
        elif got != exp_nums:
            fails.append(("picture-number", "pic_num differs from the coded picture number", got, exp_nums))
    exp = expected_dims(desc)
    for i, (pic, vp, pcm) in enumerate(pictures):
        dd = compute_dimensions_and_depths(vp, pcm)
        for c in ("Y", "C1", "C2"):
            w, h, depth = exp[c]
            if (dd[c].width, dd[c].height, dd[c].depth_bits) != (w, h, depth):
                fails.append(("dimensions_and_depths-disagrees", "picture %d %s" % (i, c), [dd[c].width, dd[c].height, dd[c].depth_bits], [w, h, depth]))
            a = pic.get(c)
            if not isinstance(a, list) or len(a) != h or any((not isinstance(r, list)) or len(r) != w for r in a):
                fails.append(("shape", "picture %d component %s is not %dx%d" % (i, c, w, h),
                              [len(a) if isinstance(a, list) else None, sorted(set(len(r) for r in a if isinstance(r, list)))[:4] if isinstance(a, list) else None], [h, w]))
                continue
            top = (1 << depth) - 1
            for y, r in enumerate(a):
                for x, v in enumerate(r):
                    if type(v) is not int or not (0 <= v <= top):
                        fails.append(("sample-range", "picture %d %s[%d][%d] = %r not an int in [0, %d]" % (i, c, y, x, v, top), repr(v), "0..%d" % top))
                        break
                else:
                    continue
                break
        if set(pic.keys()) != {"Y", "C1", "C2", "pic_num"}:
            fails.append(("picture-keys", "picture %d has keys %r" % (i, sorted(pic.keys())), sorted(pic.keys()), ["C1", "C2", "Y", "pic_num"]))
    return "checked", fails, {"pictures": len(pictures), "units": d}


def real_finish(g, comp, arr):
    """real set_coding_parameters + idwt_pad_removal + clip_component + offset_component"""
    I = H.impl()
    from vc2_conformance.pseudocode import picture_decoding as pd
    from vc2_conformance.pseudocode.video_parameters import VideoParameters, set_coding_parameters
    from vc2_data_tables import PictureCodingModes, ColorDifferenceSamplingFormats
    vp = VideoParameters(frame_width=g[0], frame_height=g[1], color_diff_format_index=ColorDifferenceSamplingFormats(g[2]),
                         luma_excursion=g[4], color_diff_excursion=g[5])
    st = I.State(picture_coding_mode=PictureCodingModes(g[3]))
    set_coding_parameters(st, vp)
    a = copy.deepcopy(arr)
    c = ["Y", "C1", "C2"][comp]
    pd.idwt_pad_removal(st, a, c)
    pd.clip_component(st, a, c)
    pd.offset_component(st, a, c)
    dl = [st["luma_width"], st["luma_height"], st["color_diff_width"], st["color_diff_height"], st["luma_depth"], st["color_diff_depth"]]
    return dl, a


def mutate_fragments(rng, seq):
    """drop or duplicate one slice-bearing fragment data unit of an encoder-made Sequence (before autofill)"""
    idx = [i for i, du in enumerate(seq["data_units"]) if "fragment_parse" in du and "fragment_data" in du["fragment_parse"]]
    if not idx:
        return None
    i = rng.choice([idx[-1], rng.choice(idx)])
    if rng.random() < 0.5:
        del seq["data_units"][i]
        return "drop"
    seq["data_units"].insert(i + 1, copy.deepcopy(seq["data_units"][i]))
    return "dup"


def run(ctx):
    I = H.impl()
    C = I.common
    rng = ctx.rng
    import hashlib
    import time
    t0 = time.time()
    ctx.extra["rule"] = (
        "oracle: C08's stream generator (random small codec configurations: odd sizes, 4:4:4/4:2:2/4:2:0, fields, all wavelets, "
        "asymmetric depths, fragments, custom matrices, excursions 1..2^16) with slices re-packed in place (random qindex up to 127/255, "
        "random bits, coded random/extreme magnitudes up to 2^40, dangling values) or at description level; only accepted streams count; "
        "non-trivial = at least one output picture, distinct by content hash.  correspondence: random arrays (incl. extreme values, "
        "arrays larger/smaller than the picture) through finish_component; unit lists of the streams and of fragment drop/duplicate mutants.")
    n_streams = ctx.pick(100, 2500)
    unit_cases, unit_meta = [], []
    accepted = 0
    for label, desc, data in H.gen_streams(ctx, n_streams):
        if len(ctx.violations) >= 6:
            break
        status, fails, info = check_pictures(desc, data)
        if status != "checked":
            ctx.count(1, bucket="not-accepted:" + status.split(":", 1)[1])
            continue
        accepted += 1
        ctx.count(1, key=hashlib.sha1(data).hexdigest()[:16] if info["pictures"] else None, bucket=label.replace("corpus:", ""))
        if accepted <= 3:
            ctx.sample({"label": label, "config": desc, "bytes": len(data), "pictures": info["pictures"]})
        for key, descr, obs, exp in fails:
            ctx.violation(key, {"kind": "stream", "label": label, "config": desc, "hex": data.hex()}, descr,
                          observed=H.plain(obs), expected=H.plain(exp))
    if accepted == 0:
        ctx.obligation("harness:C09 generated no accepted stream", False, "harness", "")
    t_streams = time.time() - t0

    # ---- correspondence 2: picture_decode call sites on unit lists (fragment-heavy streams + mutants)
    made = 0
    attempts = 0
    while made < ctx.pick(70, 600) and attempts < 2000:
        attempts += 1
        kw = C.random_small_config(rng, max_w=8, max_h=6)
        if rng.random() < 0.8:
            kw["fragment_slice_count"] = rng.randint(1, kw["slices_x"] * kw["slices_y"] + 1)
        if not kw["lossless"] and kw["picture_bytes"] is not None and kw["picture_bytes"] > 3000:
            kw["picture_bytes"] = kw["slices_x"] * kw["slices_y"] * rng.randint(8, 40)
        try:
            cf = C.make_codec_features(**kw)
            npics = 2 if kw["fields"] else rng.choice([1, 2, 3])
            seq = I.encoder.make_sequence(cf, [C.random_picture(cf, rng, kind="mid") for _ in range(npics)])
            mut = mutate_fragments(rng, seq) if rng.random() < 0.6 else "none"
            if mut is None:
                mut = "none"
            data = C.serialise([seq])
        except Exception:
            continue
        verdict, pictures = validate(data)
        d = H.run_deserialiser(data)
        if d["context"] is None:
            continue
        try:
            useqs = abstract_units(d["context"])
        except Exception:
            continue
        if len(useqs) != 1:
            continue
        if verdict == "accept":
            acc = True
        elif verdict.split(":", 1)[1] in MODELLED_REJECTIONS or verdict.startswith("crash:"):
            # an internal exception of the validator is "not accepted": the model must not accept these units either
            acc = False
        else:
            ctx.count(1, bucket="units:skipped:" + verdict.split(":", 1)[1])
            continue
        made += 1
        nums = [p[0]["pic_num"] for p in pictures] if acc else []
        unit_cases.append("(%s, %s, %s)" % (clist(useqs[0], clist), cbool(acc), clist(nums)))
        unit_meta.append((useqs[0], verdict, nums, data))
        ctx.count(1, key=("units", repr(useqs[0])) if any(u[0] in (1, 2) for u in useqs[0]) else None,
                  bucket="units:%s:%s" % (mut, verdict.split(":")[-1]))
        # the implementation-side statement again on these (accepted) streams
        if acc:
            expn = expected_picture_numbers(useqs[0])
            if nums != expn:
                ctx.violation("picture-count" if len(nums) != len(expn) else "picture-number",
                              {"kind": "stream", "label": "units/" + mut, "config": C.describe_config(kw), "hex": data.hex()},
                              "pictures output vs coded pictures", observed=nums, expected=expn)
    bad = ctx.coq_check_cases("units", ["Model.Picture", "Corr.C09"], "chk_units_case", unit_cases, ty="units_case", shard=300)
    for i in (bad or []):
        us, verdict, nums, data = unit_meta[i]
        ctx.obligation("corr:picture_decode call sites model vs implementation", False, "corr-shard",
                       "units %r: validator %s pictures %r" % (us, verdict, nums))

    # ---- correspondence 1: pad removal + clip + offset, dimensions and depths
    fin_cases = []
    for _ in range(ctx.pick(260, 3000)):
        cdf = rng.randrange(3)
        pcm = rng.randrange(2)
        fw = rng.randint(1, 9)
        fh = rng.randint(1, 9)
        def exc():
            # boundary values of the depth computation: 2^k-2, 2^k-1, 2^k, 2^k+1 for every k up to 64
            if rng.random() < 0.6:
                return max(1, (1 << rng.randint(1, 64)) + rng.choice([-2, -1, -1, -1, 0, 1]))
            return rng.choice([1, 2, 3, 255, 256, 511, 1023, rng.randint(1, 70000)])
        g = [fw, fh, cdf, pcm, exc(), exc()]
        comp = rng.randrange(3)
        ah = rng.choice([fh, fh + rng.randint(0, 4), rng.randint(0, 12)])
        aw = rng.choice([fw, fw + rng.randint(0, 4), rng.randint(1, 12)])

        def val():
            k = rng.randrange(4)
            return rng.randrange(-3, 4) if k == 0 else rng.randrange(-70000, 70000) if k == 1 else \
                rng.choice([-1, 1]) * (1 << rng.randrange(0, 80)) if k == 2 else rng.randrange(-600, 600)
        arr = [[val() for _ in range(aw)] for _ in range(ah)]
        try:
            dl, out = real_finish(g, comp, arr)
        except Exception as e:
            ctx.note("real pad removal/clip/offset raised %r on %r" % (e, g))
            continue
        fin_cases.append("(%s, %s, %s, %s, %s)" % (clist(g), cz(comp), clist(arr, clist), clist(dl), clist(out, clist)))
        ctx.count(1, key=("fin", repr((g, comp, arr))) if arr and any(any(r) for r in arr) else None, bucket="finish_component")
        # property on the implementation for these arbitrary arrays too (when at least picture sized)
        depth = dl[4] if comp == 0 else dl[5]
        # the depth is computed independently: intlog2(excursion + 1) = bit_length(excursion)
        ind_depth = int(g[4] if comp == 0 else g[5]).bit_length()
        if depth != ind_depth:
            ctx.violation("component-depth-wrong", {"kind": "array", "g": g, "comp": comp, "array": arr},
                          "video_depth gives %d bits for excursion %d (expected %d): samples may exceed 2^depth-1" % (
                              depth, g[4] if comp == 0 else g[5], ind_depth), observed=depth, expected=ind_depth)
        depth = ind_depth
        w, h = (dl[0], dl[1]) if comp == 0 else (dl[2], dl[3])
        if ah >= h and aw >= w:
            ok = len(out) == h and all(len(r) == w for r in out) and all(type(v) is int and 0 <= v < (1 << depth) for r in out for v in r)
            if not ok:
                ctx.violation("component-malformed", {"kind": "array", "g": g, "comp": comp, "array": arr},
                              "pad removal + clip + offset of an arbitrary array is not a %dx%d array of %d bit samples" % (w, h, depth),
                              observed=H.plain(out), expected=None)
    bad = ctx.coq_check_cases("finish", ["Model.Picture", "Corr.C09"], "chk_finish_case", fin_cases, ty="finish_case", shard=140)
    if bad:
        ctx.obligation("corr:finish_component model vs implementation", False, "corr-shard", "cases %r e.g. %s" % (bad[:5], fin_cases[bad[0]][:600]))
    ctx.trusted.append("the inverse wavelet transform itself is covered by C11; here its output is arbitrary")
    ctx.trusted.append("clip and intlog2 come from coq/Gen/VC2Math.v (regenerated from /repo on this run)")
    ctx.note("%d accepted streams checked in %.0fs, %d unit lists, %d arrays" % (accepted, t_streams, len(unit_cases), len(fin_cases)))


def replay(ctx, data):
    inp = data["input"]
    print("replaying", data.get("key"), inp.get("kind"))
    if inp.get("kind") == "array":
        dl, out = real_finish(inp["g"], inp["comp"], inp["array"])
        depth = dl[4] if inp["comp"] == 0 else dl[5]
        w, h = (dl[0], dl[1]) if inp["comp"] == 0 else (dl[2], dl[3])
        ok = len(out) == h and all(len(r) == w for r in out) and all(type(v) is int and 0 <= v < (1 << depth) for r in out for v in r)
        print("dims/depths", dl, "result", out)
        print("property violated on this input:", not ok)
        return 0 if ok else 1
    b = bytes.fromhex(inp["hex"])
    status, fails, info = check_pictures(inp["config"], b)
    print("status:", status)
    for f in fails:
        print("FAIL", f[0], f[1], "observed", H.plain(f[2]), "expected", H.plain(f[3]))
    print("property violated on this input:", bool(fails))
    return 1 if fails else 0
