"""C08, header part: ties the description programs of coq/Model/SerDesVC2Headers.v (picture_header,
transform_parameters with extended_transform_parameters / slice_parameters / quant_matrix, parse_info) to the REAL
vc2_conformance.bitstream.vc2 functions run under a REAL Deserialiser.

run(ctx) is called at the end of tools/harness/C08.py's run().  Every case = (program term, bytes); the real function
is run on the bytes (values of the resulting context, bits consumed, verify_complete outcome or the failure class) and
coqc evaluates  obs_des (run_des <program> bits)  of Model/SerDes.v on the same bytes (Corr/C21.v observation
vocabulary).  Inputs are hand-packed bit strings: every field drawn independently (valid values, boundary values,
huge exp-Golomb values, zero slice counts), major_version 1/2/3, both profiles and neither, custom quantisation
matrices of the right / wrong length, then bit-level mutants and truncations, and pure random bytes.
(dwt_depth / dwt_depth_ho stay <= 8: the model program counts the custom matrix entries in unary.)"""
from __future__ import print_function

import importlib
from io import BytesIO

import vlib
from vlib import cz, cbool, clist

IMPORTS = ["Model.SerDes", "Model.SerDesVC2", "Model.SerDesVC2Headers", "Corr.C21"]

ERR = {
    "ReusedTargetError": 1, "ListTargetExhaustedError": 2, "ListTargetContainsNonListError": 3,
    "UnusedTargetError": 4, "UnclosedBoundedBlockError": 5, "UnclosedNestedContextError": 6,
    "KeyError": 7, "OutOfRangeError": 8, "ValueError": 9, "EOFError": 10, "TypeError": 11,
    "AttributeError": 11, "IndexError": 12, "Exception": 12,
}
NAMES = {
    "picture_number": 200, "wavelet_index": 201, "dwt_depth": 202, "extended_transform_parameters": 203,
    "asym_transform_index_flag": 204, "wavelet_index_ho": 205, "asym_transform_flag": 206, "dwt_depth_ho": 207,
    "slice_parameters": 208, "slices_x": 209, "slices_y": 210, "slice_bytes_numerator": 211,
    "slice_bytes_denominator": 212, "slice_prefix_bytes": 213, "slice_size_scaler": 214,
    "custom_quant_matrix": 216, "padding": 220, "_offset": 221, "parse_info_prefix": 222, "parse_code": 223,
    "next_parse_offset": 224, "previous_parse_offset": 225, "pre": 230, "pi": 231,
}
TYPE_NAMES = {"dict": 0, "PictureHeader": 40, "TransformParameters": 41, "ExtendedTransformParameters": 42,
              "SliceParameters": 43, "QuantMatrix": 44, "ParseInfo": 45}

_I = {}


def impl():
    if _I:
        return _I
    _I["bs"] = importlib.import_module("vc2_conformance.bitstream")
    _I["vc2"] = importlib.import_module("vc2_conformance.bitstream.vc2")
    _I["State"] = importlib.import_module("vc2_conformance.pseudocode.state").State
    _I["bitarray"] = importlib.import_module("bitarray").bitarray
    return _I


def name_of(k, parent_type):
    # "quant_matrix" names both the subcontext of TransformParameters (215) and the list inside it (217)
    if k == "quant_matrix":
        return 217 if parent_type == "QuantMatrix" else 215
    return NAMES[k]


def vtree(o, parent_type=None):
    I = impl()
    if isinstance(o, bool):
        return ["B", bool(o)]
    if isinstance(o, int):
        return ["I", int(o)]
    if isinstance(o, I["bitarray"]):
        return ["Bits", [int(b) for b in o.tolist()]]
    if isinstance(o, (bytes, bytearray)):
        return ["Bytes", list(bytearray(o))]
    if isinstance(o, list):
        return ["L", [vtree(x, parent_type) for x in o]]
    if isinstance(o, dict):
        ty = type(o).__name__
        return ["C", TYPE_NAMES[ty], [[name_of(k, ty), vtree(v, ty)] for k, v in o.items()]]
    raise ValueError("uncanonicalisable %r" % (o,))


def cval(v):
    k = v[0]
    if k == "I":
        return "(VI %s)" % cz(v[1])
    if k == "B":
        return "(VB %s)" % cbool(v[1])
    if k == "Bits":
        return "(VBits %s)" % clist(v[1], cbool)
    if k == "Bytes":
        return "(VBytes %s)" % clist(v[1])
    if k == "L":
        return "(VL %s)" % clist(v[1], cval)
    return "(VC %s %s)" % (cz(v[1]), clist(v[2], lambda kv: "(%s, %s)" % (cz(kv[0]), cval(kv[1]))))


def cobs(o):
    if o[0] == "err":
        return "(ObsErr %s)" % cz(o[1])
    return "(ObsOk %s %s %s)" % (clist(o[1]), cval(o[2]), cz(o[3]))


def real_des(driver, data):
    """the real function under a real Deserialiser -> observation in the vocabulary of Corr/C21.v [obs]"""
    bs = impl()["bs"]
    r = bs.BitstreamReader(BytesIO(bytes(bytearray(data))))
    d = bs.Deserialiser(r)
    try:
        driver(d)
    except Exception as e:  # noqa
        return ["err", ERR.get(type(e).__name__, 100)]
    try:
        d.verify_complete()
        v = 0
    except Exception as e:  # noqa
        v = ERR.get(type(e).__name__, 100)
    return ["ok", [bs.to_bit_offset(*r.tell())], vtree(d.context), v]


# ---------------------------------------------------------------------------------------------------------
# hand-packed bit strings
# ---------------------------------------------------------------------------------------------------------
def exp_golomb(v):
    out = []
    for ch in bin(v + 1)[3:]:
        out += [0, int(ch)]
    return out + [1]


def bytes_of(bits):
    bits = list(bits) + [0] * (-len(bits) % 8)
    return [int("".join(str(b) for b in bits[i:i + 8]), 2) for i in range(0, len(bits), 8)]


def bits_of(data):
    return [(b >> (7 - i)) & 1 for b in data for i in range(8)]


HUGE = [1 << 16, (1 << 32) - 1, 1 << 32, (1 << 64) + 5, 1 << 130]


def synth_transform_parameters(rng, major, ld, hq):
    b = []
    u = lambda v: b.extend(exp_golomb(v))
    val = lambda small: rng.choice(HUGE) if rng.random() < 0.06 else rng.choice(small)
    u(val([0, 1, 2, 3, 4, 5, 6, 7, 9]))
    d = rng.choice([0, 1, 1, 2, 2, 3, 4, 8])
    u(d)
    dh = 0
    if major >= 3:
        f1 = rng.random() < 0.4
        b.append(int(f1))
        if f1:
            u(val([0, 1, 2, 3, 4, 5, 6, 7]))
        f2 = rng.random() < 0.4
        b.append(int(f2))
        if f2:
            dh = rng.choice([0, 1, 2, 3, 8])
            u(dh)
    u(val([0, 1, 1, 2, 3, 4, 8, 120]))
    u(val([0, 1, 1, 2, 3, 4, 68]))
    if ld:
        u(val([0, 1, 2, 7, 64, 100]))
        u(val([0, 1, 2, 3, 7]))
    if hq:
        u(val([0, 0, 1, 2, 7]))
        u(val([0, 1, 1, 2, 4]))
    custom = rng.random() < 0.5
    b.append(int(custom))
    if custom:
        count = 1 + dh + 3 * d
        r = rng.random()
        if r < 0.15:
            count = max(0, count - rng.choice([1, 2, 3]))
        for _ in range(count):
            u(val([0, 0, 1, 2, 3, 8, 127, 128, 300]))
    b += [rng.randrange(2) for _ in range(rng.choice([0, 0, 3, 16]))]
    return bytes_of(b)


def mutate(rng, data):
    bits = bits_of(data)
    k = rng.choice(["flip", "flip", "flip2", "insert", "delete", "truncate", "tail"])
    n = len(bits)
    if k == "flip" and n:
        bits[rng.randrange(n)] ^= 1
    elif k == "flip2" and n:
        for _ in range(3):
            bits[rng.randrange(n)] ^= 1
    elif k == "insert":
        i = rng.randrange(n + 1)
        bits[i:i] = [rng.randrange(2) for _ in range(rng.choice([1, 2, 8]))]
    elif k == "delete" and n:
        i = rng.randrange(n)
        del bits[i:i + rng.choice([1, 2, 8])]
    elif k == "truncate" and n:
        del bits[rng.randrange(n):]
    elif k == "tail":
        i = rng.randrange(n + 1)
        bits[i:] = [rng.randrange(2) for _ in range(rng.randrange(0, 64))]
    out = bytes_of(bits)
    # a mutant must not declare a deep transform with a custom matrix (unary counting in the model): screened by the caller
    return out, k


def depths_small(major, data):
    """screen: the dwt_depth / dwt_depth_ho coded in these bytes are <= 8 (or unreadable)"""
    bits = bits_of(data)
    pos = [0]

    def rb():
        if pos[0] >= len(bits):
            raise EOFError()
        pos[0] += 1
        return bits[pos[0] - 1]

    def ru():
        v = 1
        while rb() == 0:
            v = (v << 1) + rb()
            if v > (1 << 20):
                raise OverflowError()
        return v - 1
    try:
        ru()
        if ru() > 8:
            return False
        if major >= 3:
            if rb():
                ru()
            if rb():
                if ru() > 8:
                    return False
    except EOFError:
        return True
    except OverflowError:
        return False
    return True


def gen_cases(rng, n):
    I = impl()
    vc2, State = I["vc2"], I["State"]
    out = []
    # ---- picture_header --------------------------------------------------------------------------------
    for _ in range(max(6, n // 20)):
        data = [rng.randrange(256) for _ in range(rng.choice([0, 1, 3, 4, 4, 5, 8]))]
        out.append(("picture_header_prog", (lambda d: vc2.picture_header(d, State())), data, "picture_header"))
    # ---- transform_parameters ------------------------------------------------------------------------------
    n_tp = int(n * 0.7)
    while n_tp > 0:
        major = rng.choice([1, 2, 3, 3, 3])
        pc = rng.choice([0xC8, 0xE8, 0xCC, 0xEC, 0xE8, 0xC8, 0x00])
        ld, hq = pc in (0xC8, 0xCC), pc in (0xE8, 0xEC)
        term = "(transform_parameters_prog %d %s %s)" % (major, cbool(ld), cbool(hq))
        driver = (lambda mv, p: (lambda d: vc2.transform_parameters(d, State(major_version=mv, parse_code=p))))(major, pc)
        base = synth_transform_parameters(rng, major, ld, hq)
        variants = [(base, "synth")]
        for _ in range(rng.choice([1, 2, 3])):
            m, k = mutate(rng, base)
            variants.append((m, "mutant-" + k))
        if rng.random() < 0.1:
            variants.append(([rng.randrange(256) for _ in range(rng.randrange(0, 12))], "random"))
        for data, lab in variants:
            if not depths_small(major, data):
                continue
            out.append((term, driver, data, "transform_parameters/v%d/%s/%s" % (major, "ld" if ld else "hq" if hq else "none", lab)))
            n_tp -= 1
    # ---- parse_info --------------------------------------------------------------------------------------------
    for _ in range(max(10, n // 5)):
        pi = [0x42, 0x42, 0x43, 0x44, rng.choice([0x00, 0x10, 0x20, 0x30, 0xC8, 0xE8, 0xCC, 0xEC, rng.randrange(256)])]
        pi += list(rng.choice([0, 13, 14, 0xFFFFFFFF, rng.randrange(1 << 32)]).to_bytes(4, "big"))
        pi += list(rng.choice([0, 13, rng.randrange(1 << 32)]).to_bytes(4, "big"))
        r = rng.random()
        if r < 0.25:
            pi[rng.randrange(13)] ^= 1 << rng.randrange(8)
        elif r < 0.45:
            del pi[rng.randrange(13):]
        pi += [rng.randrange(256) for _ in range(rng.choice([0, 0, 2]))]
        k = rng.choice([0, 0, 0, 1, 3, 8, 13])
        if k == 0:
            out.append(("(parse_info_prog 0)", (lambda d: vc2.parse_info(d, State())), pi, "parse_info/at-0"))
        else:
            lead = [rng.randrange(256) for _ in range((k + 7) // 8)]
            if rng.random() < 0.15:
                lead = lead[:-1]

            def driver(d, k=k):
                d.nbits("pre", k)
                with d.subcontext("pi"):
                    vc2.parse_info(d, State())
            out.append(("(parse_info_after %d %d)" % (k, (k + 7) // 8), driver, lead + pi, "parse_info/after-%d-bits" % k))
    return out


def run(ctx):
    rng = ctx.rng
    n = ctx.pick(360, 6000)
    cases = gen_cases(rng, n)
    lits, labels = [], []
    hist = {}
    for term, driver, data, label in cases:
        obs = real_des(driver, data)
        lits.append("(%s, %s, %s)" % (term, clist(data), cobs(obs)))
        labels.append((label, term, data, obs))
        key = "%s:%s" % (label.split("/")[0], "ok" if obs[0] == "ok" else "err%d" % obs[1])
        hist[key] = hist.get(key, 0) + 1
        ctx.count(1, key=vlib.digest([term, data]) if obs[0] == "ok" else None,
                  bucket="header-program/%s/%s" % (label.split("/")[0], obs[0]))
    chk = "fun c : prog unit * list Z * obs => let '(p, data, o) := c in obs_eqb (obs_des (run_des p (bits_of_bytes data))) o"
    bad = ctx.coq_check_cases("c08_header_programs", IMPORTS, chk, lits, ty="prog unit * list Z * obs", shard=ctx.pick(60, 150),
                              timeout=900)
    for n_bad, i in enumerate(bad or []):
        label, term, data, obs = labels[i]
        diag = "(not evaluated)"
        if n_bad < 3:
            diag = ctx.coq_eval("c08_hdrdiag_%d" % i, IMPORTS, "obs_des (run_des %s (bits_of_bytes %s))" % (term, clist(data)))
        if n_bad < 20:
            ctx.obligation("corr:header program %s agrees with vc2.py (case %d)" % (label, i), False, "corr-shard",
                           "program %s bytes %r implementation: %r model: %s" % (term, data, obs, diag))
    ctx.extra["header_programs"] = hist
    ctx.extra["rule"] = ctx.extra.get("rule", "") + (
        "  ||  header programs (Model/SerDesVC2Headers.v: picture_header, transform_parameters incl. extended parameters, "
        "slice parameters for LD/HQ/neither, custom quantisation matrices, parse_info at bit 0 and after 1-13 bits) against the real "
        "vc2.py functions under a real Deserialiser on hand-packed bit strings: every field independent (valid, boundary, zero, huge "
        "exp-Golomb values), major_version 1-3, matrices of right and wrong length, bit-level mutants, truncations, random bytes.")
    ctx.note("header description programs vs vc2.py: %d cases, outcomes %r" % (len(cases), hist))
