"""C07 harness: automatic field filling (vc2_conformance/bitstream/vc2_autofill.py).

Correspondence (tie C) of coq/Model/Autofill.v with the implementation
  A. the three pre-serialisation passes run directly on arbitrary ("weird") descriptions,
  B. the whole autofill_and_serialise_stream on serialisable descriptions, read back with
     the real deserialiser, unit lengths measured on the bytes,
and the property oracle on the implementation: explicit values unchanged, omitted fields =
documented defaults (table comparison), offsets = byte distances, numbering rule, and the
REAL validator as judge of the automatic major_version (every candidate version is tried).
"""
import copy
import io
import random

from vlib import cz, cbool, copt

MASK = 0xFFFFFFFF


def impl():
    import common
    from vc2_conformance import bitstream as bs
    from vc2_conformance.bitstream import vc2_autofill as af
    from vc2_conformance.bitstream import vc2_fixeddicts as fd
    import vc2_data_tables as tables
    return common, bs, af, fd, tables


# ------------------------------------------------------------------------------------
# description -> Coq literal of Model.Autofill types (constructors abbreviated in Corr/C07.v)
# ------------------------------------------------------------------------------------
def af_lit(af, d, k):
    if k not in d:
        return "O"
    if d[k] is af.AUTO:
        return "A"
    return "(E %s)" % cz(int(d[k]))


def oz(d, k):
    return copt(int(d[k])) if k in d else "None"


def ob(d, k):
    return "(Some %s)" % cbool(bool(d[k])) if k in d else "None"


def preset_lit(d, flag):
    return "(P %s %s)" % (ob(d, flag), oz(d, "index"))


def tp_lit(tp):
    etp = tp.get("extended_transform_parameters")
    if etp is None:
        e = "None"
    else:
        e = "(Some (ET %s %s %s %s))" % (ob(etp, "asym_transform_index_flag"), oz(etp, "wavelet_index_ho"),
                                         ob(etp, "asym_transform_flag"), oz(etp, "dwt_depth_ho"))
    return "(T %s %s)" % (oz(tp, "wavelet_index"), e)


def unit_lit(af, du, length):
    pi = du.get("parse_info", {})
    sh = du.get("sequence_header", {})
    pp = sh.get("parse_parameters", {})
    vp = sh.get("video_parameters", {})
    cs = vp.get("color_spec", {})
    h = "(H %s %s %s %s %s %s %s %s)" % (
        af_lit(af, pp, "major_version"), oz(pp, "profile"),
        preset_lit(vp.get("frame_rate", {}), "custom_frame_rate_flag"),
        preset_lit(vp.get("signal_range", {}), "custom_signal_range_flag"),
        preset_lit(cs, "custom_color_spec_flag"),
        preset_lit(cs.get("color_primaries", {}), "custom_color_primaries_flag"),
        preset_lit(cs.get("color_matrix", {}), "custom_color_matrix_flag"),
        preset_lit(cs.get("transfer_function", {}), "custom_transfer_function_flag"))
    pic = du.get("picture_parse", {})
    frag = du.get("fragment_parse", {})
    fh = frag.get("fragment_header", {})
    aux = du.get("auxiliary_data", {})
    pad = du.get("padding", {})
    return "(U %s %s %s %s %s %s %s %s %s %s %s %s)" % (
        oz(pi, "parse_code"), af_lit(af, pi, "next_parse_offset"), af_lit(af, pi, "previous_parse_offset"), h,
        af_lit(af, pic.get("picture_header", {}), "picture_number"),
        tp_lit(pic.get("wavelet_transform", {}).get("transform_parameters", {})),
        af_lit(af, fh, "picture_number"), oz(fh, "fragment_slice_count"),
        tp_lit(frag.get("transform_parameters", {})),
        copt(len(aux["bytes"])) if "bytes" in aux else "None",
        copt(len(pad["bytes"])) if "bytes" in pad else "None",
        cz(length))


def stream_lit(af, stream, lens=None):
    seqs = []
    for si, seq in enumerate(stream.get("sequences", [])):
        us = []
        for ui, du in enumerate(seq.get("data_units", [])):
            us.append(unit_lit(af, du, lens[si][ui] if lens is not None else 0))
        seqs.append("[" + ";\n   ".join(us) + "]")
    return "[" + ";\n  ".join(seqs) + "]"


def zlll(o):
    return "[" + "; ".join("[" + "; ".join("[" + "; ".join(cz(x) for x in u) + "]" for u in s) + "]" for s in o) + "]"


def defaults_lit(af, fd):
    d = af.vc2_default_values_with_auto

    def pr(t, flag):
        return "(%s, %s)" % (cbool(bool(d[t][flag])), cz(int(d[t]["index"])))
    mv = d[fd.ParseParameters]["major_version"]
    e = d[fd.ExtendedTransformParameters]
    return "(D %s %s %s %s %s %s %s %s %s %s %s %s %s %s %s %s %s)" % (
        cz(int(d[fd.ParseInfo]["parse_code"])), "None" if mv is af.AUTO else copt(int(mv)),
        cz(int(d[fd.ParseParameters]["profile"])),
        pr(fd.FrameRate, "custom_frame_rate_flag"), pr(fd.SignalRange, "custom_signal_range_flag"),
        pr(fd.ColorSpec, "custom_color_spec_flag"), pr(fd.ColorPrimaries, "custom_color_primaries_flag"),
        pr(fd.ColorMatrix, "custom_color_matrix_flag"), pr(fd.TransferFunction, "custom_transfer_function_flag"),
        cz(int(d[fd.FragmentHeader]["fragment_slice_count"])), cz(int(d[fd.TransformParameters]["wavelet_index"])),
        cbool(bool(e["asym_transform_index_flag"])), cz(int(e["wavelet_index_ho"])),
        cbool(bool(e["asym_transform_flag"])), cz(int(e["dwt_depth_ho"])),
        cz(len(d[fd.AuxiliaryData]["bytes"])), cz(len(d[fd.Padding]["bytes"])))


def enc(af, d, k):
    if k not in d:
        return [2, 0]
    if d[k] is af.AUTO:
        return [0, 0]
    return [1, int(d[k])]


# ------------------------------------------------------------------------------------
# generators (every description is a function of one integer seed -> replayable)
# ------------------------------------------------------------------------------------
def maybe(rng, d, k, v, p=0.7):
    if rng.random() < p:
        d[k] = v


def rand_af(rng, af, d, k, explicit):
    r = rng.random()
    if r < 0.35:
        d[k] = af.AUTO
    elif r < 0.65:
        d[k] = explicit()
    # else omitted


def rand_picnum(rng):
    return rng.choice([0, 1, 2, 7, MASK, MASK - 1, rng.randrange(0, 1 << 32), rng.randrange(0, 100)])


def rand_preset(rng, cls, flag, hi, extra=None):
    d = cls()
    r = rng.random()
    if r < 0.25:
        return None
    maybe(rng, d, flag, rng.random() < 0.7, 0.8)
    maybe(rng, d, "index", rng.randrange(0, hi + 2), 0.8)
    return d


def gen_weird(seed, I):
    """Arbitrary description: sub-dictionaries need not match the parse code, any field may be
    explicit / AUTO / omitted.  Only the passes are run on it (it need not be serialisable)."""
    common, bs, af, fd, tables = I
    rng = random.Random(seed)
    PC = [int(p) for p in tables.ParseCodes]
    stream = bs.Stream()
    if rng.random() < 0.03:
        return stream
    stream["sequences"] = []
    for _ in range(rng.choice([1, 1, 2, 3])):
        seq = bs.Sequence()
        stream["sequences"].append(seq)
        if rng.random() < 0.03:
            continue
        seq["data_units"] = []
        for _ in range(rng.randrange(0, 9)):
            du = bs.DataUnit()
            seq["data_units"].append(du)
            if rng.random() < 0.92:
                pi = bs.ParseInfo()
                du["parse_info"] = pi
                if rng.random() < 0.9:
                    pi["parse_code"] = rng.choice(PC + PC + PC + [0x88, 0x8C, 0x0C, 0x28, 0x21, 1, 0xFF])
                rand_af(rng, af, pi, "next_parse_offset", lambda: rng.choice([0, 13, 14, rng.randrange(0, 5000)]))
                rand_af(rng, af, pi, "previous_parse_offset", lambda: rng.choice([0, 13, rng.randrange(0, 5000)]))
            pc = du.get("parse_info", {}).get("parse_code", 16)
            loose = rng.random() < 0.25  # sub-dictionaries unrelated to the parse code

            def want(flag):
                return rng.random() < 0.5 if loose else (flag and rng.random() < 0.9)
            if want(pc == 0):
                sh = bs.SequenceHeader()
                du["sequence_header"] = sh
                if rng.random() < 0.9:
                    pp = bs.ParseParameters()
                    sh["parse_parameters"] = pp
                    rand_af(rng, af, pp, "major_version", lambda: rng.choice([1, 2, 3, 4, 0]))
                    maybe(rng, pp, "profile", rng.choice([0, 3, 3, 1]), 0.6)
                if rng.random() < 0.85:
                    vp = bs.SourceParameters()
                    sh["video_parameters"] = vp
                    for key, cls, flag, hi in (("frame_rate", bs.FrameRate, "custom_frame_rate_flag", 16),
                                               ("signal_range", bs.SignalRange, "custom_signal_range_flag", 8)):
                        p = rand_preset(rng, cls, flag, hi)
                        if p is not None:
                            vp[key] = p
                    if rng.random() < 0.8:
                        cs = bs.ColorSpec()
                        vp["color_spec"] = cs
                        maybe(rng, cs, "custom_color_spec_flag", rng.random() < 0.8, 0.8)
                        maybe(rng, cs, "index", rng.choice([0, 0, 0, 1, 3, 4, 5, 7]), 0.8)
                        for key, cls, flag, hi in (("color_primaries", bs.ColorPrimaries, "custom_color_primaries_flag", 4),
                                                   ("color_matrix", bs.ColorMatrix, "custom_color_matrix_flag", 4),
                                                   ("transfer_function", bs.TransferFunction, "custom_transfer_function_flag", 5)):
                            p = rand_preset(rng, cls, flag, hi)
                            if p is not None:
                                cs[key] = p

            def rand_tp():
                tp = bs.TransformParameters()
                maybe(rng, tp, "wavelet_index", rng.randrange(0, 7), 0.6)
                if rng.random() < 0.6:
                    e = bs.ExtendedTransformParameters()
                    tp["extended_transform_parameters"] = e
                    wi = tp.get("wavelet_index", 4)
                    maybe(rng, e, "asym_transform_index_flag", rng.random() < 0.6, 0.7)
                    maybe(rng, e, "wavelet_index_ho", rng.choice([wi, wi, rng.randrange(0, 7)]), 0.7)
                    maybe(rng, e, "asym_transform_flag", rng.random() < 0.6, 0.7)
                    maybe(rng, e, "dwt_depth_ho", rng.choice([0, 0, 1, 2]), 0.7)
                return tp
            if want(pc in (200, 232, 0x88)):
                pic = bs.PictureParse()
                du["picture_parse"] = pic
                if rng.random() < 0.85:
                    ph = bs.PictureHeader()
                    pic["picture_header"] = ph
                    rand_af(rng, af, ph, "picture_number", lambda: rand_picnum(rng))
                if rng.random() < 0.85:
                    wt = bs.WaveletTransform()
                    pic["wavelet_transform"] = wt
                    if rng.random() < 0.9:
                        wt["transform_parameters"] = rand_tp()
            if want(pc in (204, 236, 0x8C, 0x0C)):
                fp = bs.FragmentParse()
                du["fragment_parse"] = fp
                if rng.random() < 0.9:
                    fh = bs.FragmentHeader()
                    fp["fragment_header"] = fh
                    rand_af(rng, af, fh, "picture_number", lambda: rand_picnum(rng))
                    maybe(rng, fh, "fragment_slice_count", rng.choice([0, 0, 1, 2]), 0.7)
                if rng.random() < 0.7:
                    fp["transform_parameters"] = rand_tp()
            if want(pc == 32):
                du["auxiliary_data"] = bs.AuxiliaryData()
                maybe(rng, du["auxiliary_data"], "bytes", bytes(rng.randrange(0, 40)), 0.8)
            if want(pc == 48):
                du["padding"] = bs.Padding()
                maybe(rng, du["padding"], "bytes", bytes(rng.randrange(0, 40)), 0.8)
    return stream


def rand_header_presets(rng, bs, sh):
    """Mutate the preset choices of a sequence header (version-raising presets included)."""
    vp = sh.setdefault("video_parameters", bs.SourceParameters())
    r = rng.random()
    if r < 0.3:
        vp["frame_rate"] = bs.FrameRate(custom_frame_rate_flag=True, index=rng.randrange(1, 17))
    elif r < 0.4:
        vp["frame_rate"] = bs.FrameRate(custom_frame_rate_flag=True, index=0, frame_rate_numer=rng.randrange(1, 90),
                                        frame_rate_denom=rng.randrange(1, 4))
    elif r < 0.5:
        vp["frame_rate"] = bs.FrameRate(custom_frame_rate_flag=False)
    r = rng.random()
    if r < 0.3:
        vp["signal_range"] = bs.SignalRange(custom_signal_range_flag=True, index=rng.randrange(1, 9))
    elif r < 0.4:
        vp["signal_range"] = bs.SignalRange(custom_signal_range_flag=False)
    r = rng.random()
    if r < 0.25:
        vp["color_spec"] = bs.ColorSpec(custom_color_spec_flag=True, index=rng.randrange(1, 8))
    elif r < 0.55:
        cs = bs.ColorSpec(custom_color_spec_flag=True, index=0)
        vp["color_spec"] = cs
        for key, cls, flag, hi in (("color_primaries", bs.ColorPrimaries, "custom_color_primaries_flag", 4),
                                   ("color_matrix", bs.ColorMatrix, "custom_color_matrix_flag", 4),
                                   ("transfer_function", bs.TransferFunction, "custom_transfer_function_flag", 5)):
            q = rng.random()
            if q < 0.5:  # the highest index of each table needs version 3
                cs[key] = cls(**{flag: True, "index": hi if rng.random() < 0.35 else rng.randrange(0, hi + 1)})
            elif q < 0.7:
                cs[key] = cls(**{flag: False})
    elif r < 0.65:
        vp["color_spec"] = bs.ColorSpec(custom_color_spec_flag=False)


def rand_etp(rng, bs, tp, symmetric_only):
    wi = int(tp.get("wavelet_index", 4))
    r = rng.random()
    if r < 0.25:
        tp.pop("extended_transform_parameters", None)
    elif r < 0.5:
        tp["extended_transform_parameters"] = bs.ExtendedTransformParameters(
            asym_transform_index_flag=True, wavelet_index_ho=wi, asym_transform_flag=True, dwt_depth_ho=0)
    elif r < 0.6:
        tp["extended_transform_parameters"] = bs.ExtendedTransformParameters()
    elif r < 0.75 and not symmetric_only:
        tp["extended_transform_parameters"] = bs.ExtendedTransformParameters(
            asym_transform_index_flag=True, wavelet_index_ho=rng.randrange(0, 7), asym_transform_flag=rng.random() < 0.5,
            dwt_depth_ho=rng.choice([0, 1]))
        if not tp["extended_transform_parameters"]["asym_transform_flag"]:
            del tp["extended_transform_parameters"]["dwt_depth_ho"]
    elif r < 0.93 and not symmetric_only:
        # a flag set and its value OMITTED (documented defaults: wavelet_index_ho = haar_with_shift, dwt_depth_ho = 0),
        # next to an explicit non-default wavelet_index / dwt_depth
        e = bs.ExtendedTransformParameters()
        q = rng.random()
        if q < 0.75:
            e["asym_transform_index_flag"] = True
        if q > 0.5:
            e["asym_transform_flag"] = True
        if rng.random() < 0.3:
            e["asym_transform_flag" if "asym_transform_flag" not in e else "asym_transform_index_flag"] = False
        tp["extended_transform_parameters"] = e
        if rng.random() < 0.8:
            tp["wavelet_index"] = rng.choice([0, 1, 2, 3, 5, 6])
        if rng.random() < 0.5:
            tp["dwt_depth"] = rng.choice([1, 2])
    elif r >= 0.93 and symmetric_only:
        # symmetric spellings with a flag set and the value omitted: dwt_depth_ho defaults to 0; wavelet_index_ho
        # defaults to haar_with_shift, which is the same transform only when wavelet_index is haar_with_shift too
        e = bs.ExtendedTransformParameters(asym_transform_flag=True)
        if wi == 4 and "wavelet_index" in tp:
            e["asym_transform_index_flag"] = True
        tp["extended_transform_parameters"] = e


def mixed_etp(rng, bs, tp):
    """An EXPLICIT extended_transform_parameters dictionary: mostly symmetric spellings (so that nothing forces
    version 3), sometimes asymmetric."""
    wi = int(tp.get("wavelet_index", 4))
    r = rng.random()
    if r < 0.45:
        e = bs.ExtendedTransformParameters(asym_transform_index_flag=True, wavelet_index_ho=wi, asym_transform_flag=True, dwt_depth_ho=0)
        if rng.random() < 0.3:
            del e["asym_transform_flag"], e["dwt_depth_ho"]
    elif r < 0.65:
        e = bs.ExtendedTransformParameters(asym_transform_index_flag=False, asym_transform_flag=False)
    elif r < 0.75:
        e = bs.ExtendedTransformParameters(asym_transform_flag=True)  # dwt_depth_ho omitted: documented default 0
    elif r < 0.9:
        e = bs.ExtendedTransformParameters(asym_transform_index_flag=True, wavelet_index_ho=rng.randrange(0, 7))
        if rng.random() < 0.5:
            e["asym_transform_flag"] = True
            e["dwt_depth_ho"] = rng.choice([0, 1])
    else:
        return rand_etp(rng, bs, tp, False)
    tp["extended_transform_parameters"] = e


def gen_hand(seed, I):
    """Serialisable hand-built description (pictures with default/minimal content; NOT necessarily
    valid for the validator): random data-unit lists, random explicit/AUTO/omitted fields."""
    common, bs, af, fd, tables = I
    rng = random.Random(seed)
    PCs = tables.ParseCodes
    stream = bs.Stream(sequences=[])
    for _ in range(rng.choice([1, 1, 2, 3])):
        units = []
        hq = rng.random() < 0.7
        explicit_version = rng.choice([None, None, None, 1, 2, 3, 3])
        hdr = bs.SequenceHeader()
        if rng.random() < 0.8:
            pp = bs.ParseParameters()
            hdr["parse_parameters"] = pp
            if explicit_version is not None:
                pp["major_version"] = explicit_version
            elif rng.random() < 0.5:
                pp["major_version"] = af.AUTO
            maybe(rng, pp, "profile", 3 if hq else 0, 0.7)
        elif explicit_version is not None:
            explicit_version = None
        # mixed: several sequence headers in ONE sequence, each with its own major_version status (AUTO / omitted /
        # explicit 1, 2, 3, larger) in any order, pictures with explicit ETP dictionaries after each of them
        mixed = rng.random() < 0.3
        if rng.random() < (0.3 if mixed else 0.7):
            rand_header_presets(rng, bs, hdr)
        # small pictures (the default custom format is 640x480)
        hdr.setdefault("video_parameters", bs.SourceParameters())["frame_size"] = bs.FrameSize(
            custom_dimensions_flag=True, frame_width=rng.choice([1, 2, 4]), frame_height=rng.choice([1, 2]))
        n = rng.randrange(0, 7)
        kinds = ["header"] + [rng.choice(["pic", "pic", "frag0", "fragd", "pad", "aux", "header"]) for _ in range(n)] + ["eos"]
        if rng.random() < 0.05:
            kinds = ["eos"]
        if mixed:
            kinds = []
            for _ in range(rng.choice([2, 2, 3])):
                kinds += ["header"] + [rng.choice(["pic", "pic", "pic", "pad", "aux"]) for _ in range(rng.choice([1, 1, 2]))]
            kinds.append("eos")
        for i, k in enumerate(kinds):  # a data fragment needs the slice geometry of an earlier picture / first fragment
            if k == "fragd" and not any(x in ("pic", "frag0") for x in kinds[:i]) and rng.random() < 0.85:
                kinds[i] = "frag0"
        omit_hdr = rng.random() < 0.08  # header dictionary omitted: all defaults (640x480 pictures: keep those out)
        if omit_hdr:
            kinds = [k for k in kinds if k not in ("pic", "frag0", "fragd")]
        for k in kinds:
            du = bs.DataUnit()
            pi = bs.ParseInfo()
            if k == "header":
                pi["parse_code"] = PCs.sequence_header
                if not omit_hdr:
                    du["sequence_header"] = copy.deepcopy(hdr)
                    if mixed:
                        pp = du["sequence_header"].setdefault("parse_parameters", bs.ParseParameters())
                        r = rng.random()
                        if r < 0.25:
                            pp["major_version"] = af.AUTO
                        elif r < 0.5:
                            pp.pop("major_version", None)
                        else:
                            pp["major_version"] = rng.choice([1, 2, 3, 3, 3, 3, 4, 7])
            elif k == "pic":
                pi["parse_code"] = PCs.high_quality_picture if hq else PCs.low_delay_picture
                if mixed or rng.random() < 0.8:
                    pic = bs.PictureParse()
                    du["picture_parse"] = pic
                    if rng.random() < 0.8:
                        pic["picture_header"] = bs.PictureHeader()
                        rand_af(rng, af, pic["picture_header"], "picture_number", lambda: rand_picnum(rng))
                    if mixed or rng.random() < 0.7:
                        tp = bs.TransformParameters()
                        maybe(rng, tp, "wavelet_index", rng.randrange(0, 7), 0.6)
                        if mixed:
                            mixed_etp(rng, bs, tp)
                        else:
                            rand_etp(rng, bs, tp, False)
                        pic["wavelet_transform"] = bs.WaveletTransform(transform_parameters=tp)
            elif k in ("frag0", "fragd"):
                pi["parse_code"] = PCs.high_quality_picture_fragment if hq else PCs.low_delay_picture_fragment
                fp = bs.FragmentParse()
                fh = bs.FragmentHeader()
                rand_af(rng, af, fh, "picture_number", lambda: rand_picnum(rng))
                if k == "frag0":
                    maybe(rng, fh, "fragment_slice_count", 0, 0.5)
                    if rng.random() < 0.6:
                        tp = bs.TransformParameters()
                        maybe(rng, tp, "wavelet_index", rng.randrange(0, 7), 0.6)
                        rand_etp(rng, bs, tp, False)
                        fp["transform_parameters"] = tp
                else:
                    fh["fragment_slice_count"] = 1
                fp["fragment_header"] = fh
                du["fragment_parse"] = fp
            elif k == "pad":
                pi["parse_code"] = PCs.padding_data
                if rng.random() < 0.85:
                    du["padding"] = bs.Padding()
                    maybe(rng, du["padding"], "bytes", bytes(rng.randrange(0, 256) for _ in range(rng.choice([0, 1, 2, 5, 17, 300]))), 0.85)
            elif k == "aux":
                pi["parse_code"] = PCs.auxiliary_data
                if rng.random() < 0.85:
                    du["auxiliary_data"] = bs.AuxiliaryData()
                    maybe(rng, du["auxiliary_data"], "bytes", bytes(rng.randrange(0, 256) for _ in range(rng.choice([0, 1, 3, 8, 64]))), 0.85)
            else:
                if rng.random() < 0.7:
                    pi["parse_code"] = PCs.end_of_sequence
            # offsets: mostly automatic; explicit values arbitrary (only for non padding/aux: there the
            # value decides how many bytes are written)
            if k in ("pad", "aux"):
                r = rng.random()
                if r < 0.4:
                    pi["next_parse_offset"] = af.AUTO
                elif r < 0.5:
                    key = "padding" if k == "pad" else "auxiliary_data"
                    pi["next_parse_offset"] = 13 + len(du.get(key, {}).get("bytes", b""))
            else:
                rand_af(rng, af, pi, "next_parse_offset", lambda: rng.choice([0, 13, 99, rng.randrange(0, 1 << 32)]))
            rand_af(rng, af, pi, "previous_parse_offset", lambda: rng.choice([0, 13, 99, rng.randrange(0, 1 << 32)]))
            if pi or rng.random() < 0.8:
                du["parse_info"] = pi
            units.append(du)
        stream["sequences"].append(bs.Sequence(data_units=units))
    return stream


def gen_valid(seed, I):
    """Valid stream made by the REAL encoder from a random small codec configuration, then edited:
    all autofillable fields AUTO/omitted (mode-dependent explicit picture numbers), version-raising
    presets, padding/aux units, repeated sequence headers, ETP spellings, several sequences."""
    common, bs, af, fd, tables = I
    from vc2_conformance.encoder import make_sequence
    rng = random.Random(seed)
    PCs = tables.ParseCodes
    stream = bs.Stream(sequences=[])
    meta = {"picmode": [], "cfg": []}
    for _ in range(rng.choice([1, 1, 1, 2, 3])):
        kw = common.random_small_config(rng, max_w=8, max_h=8)
        if kw.get("picture_bytes") and kw["picture_bytes"] > 1500:  # keep the streams small
            kw["picture_bytes"] = kw["slices_x"] * kw["slices_y"] * rng.randint(4, 60)
        cf = common.make_codec_features(**kw)
        npic = rng.choice([0, 1, 2, 3])
        if kw["fields"]:
            npic = rng.choice([0, 2, 2, 4])
        pics = [common.random_picture(cf, rng) for _ in range(npic)]
        for i, p in enumerate(pics):
            p["pic_num"] = i
        seq = make_sequence(cf, pics)
        units = seq["data_units"]
        hdr = units[0]["sequence_header"]
        if rng.random() < 0.7:
            rand_header_presets(rng, bs, hdr)
        hdr.setdefault("parse_parameters", bs.ParseParameters())
        r = rng.random()
        if r < 0.5:
            hdr["parse_parameters"]["major_version"] = af.AUTO
        else:
            hdr["parse_parameters"].pop("major_version", None)
        # picture numbers
        mode = rng.choice(["auto", "auto", "first", "keep"])
        first_value = rng.choice([0, 2, MASK - 1, MASK - 3, 2 * rng.randrange(0, 1 << 31)])
        seen = 0
        for du in units:
            hd = None
            if "picture_parse" in du:
                hd = du["picture_parse"]["picture_header"]
                start = True
            elif "fragment_parse" in du:
                hd = du["fragment_parse"]["fragment_header"]
                start = hd.get("fragment_slice_count", 0) == 0
            if hd is None:
                continue
            if mode == "auto" or (mode == "first" and not (start and seen == 0)):
                if rng.random() < 0.5:
                    hd["picture_number"] = af.AUTO
                else:
                    hd.pop("picture_number", None)
            elif mode == "first":
                hd["picture_number"] = first_value
            if start:
                seen += 1
            # ETP spelling (only symmetric alternatives when the coded transform is symmetric)
            tp = None
            if "picture_parse" in du:
                tp = du["picture_parse"]["wavelet_transform"]["transform_parameters"]
            elif start:
                tp = du["fragment_parse"]["transform_parameters"]
            if tp is not None and kw["dwt_depth_ho"] == 0 and int(kw["wavelet_index"]) == int(kw["wavelet_index_ho"]):
                if rng.random() < 0.5:
                    rand_etp(rng, bs, tp, True)
            elif tp is not None:
                # asymmetric coded transform: a value equal to its documented default may be omitted under a set flag
                e = tp.get("extended_transform_parameters", {})
                if e.get("asym_transform_index_flag") and int(e.get("wavelet_index_ho", -1)) == 4 and rng.random() < 0.6:
                    del e["wavelet_index_ho"]
                if e.get("asym_transform_flag") and int(e.get("dwt_depth_ho", -1)) == 0 and rng.random() < 0.6:
                    del e["dwt_depth_ho"]
        # extra units
        out = []
        for i, du in enumerate(units):
            if i > 0:
                while rng.random() < 0.2:
                    k = rng.choice(["pad", "aux", "header"])
                    if k == "pad":
                        nu = bs.DataUnit(parse_info=bs.ParseInfo(parse_code=PCs.padding_data))
                        if rng.random() < 0.8:
                            nu["padding"] = bs.Padding(bytes=bytes(rng.randrange(0, 256) for _ in range(rng.choice([0, 1, 4, 33]))))
                    elif k == "aux":
                        nu = bs.DataUnit(parse_info=bs.ParseInfo(parse_code=PCs.auxiliary_data))
                        if rng.random() < 0.8:
                            nu["auxiliary_data"] = bs.AuxiliaryData(bytes=bytes(rng.randrange(0, 256) for _ in range(rng.choice([0, 2, 9]))))
                    else:
                        nu = bs.DataUnit(parse_info=bs.ParseInfo(parse_code=PCs.sequence_header), sequence_header=copy.deepcopy(hdr))
                    out.append(nu)
            out.append(du)
        for du in out:
            pi = du["parse_info"]
            for key in ("next_parse_offset", "previous_parse_offset"):
                if rng.random() < 0.5:
                    pi[key] = af.AUTO
                else:
                    pi.pop(key, None)
        seq["data_units"] = out
        stream["sequences"].append(seq)
        meta["picmode"].append(mode)
        meta["cfg"].append(common.describe_config(kw))
    return stream, meta


GENS = {"weird": gen_weird, "hand": gen_hand, "valid": lambda seed, I: gen_valid(seed, I)[0]}

# ------------------------------------------------------------------------------------
# running the implementation
# ------------------------------------------------------------------------------------
def run_passes(I, stream):
    """The three pre-serialisation passes on a copy; returns the observation or ('exc', name)."""
    common, bs, af, fd, tables = I
    s = copy.deepcopy(stream)
    af.autofill_picture_number(s)
    af.autofill_major_version(s)
    nl, pl = af.autofill_parse_offsets(s)
    nl, pl = set(nl), set(pl)
    obs = []
    for si, seq in enumerate(s.get("sequences", [])):
        so = []
        for ui, du in enumerate(seq.get("data_units", [])):
            pi = du.get("parse_info", {})
            pp = du.get("sequence_header", {}).get("parse_parameters", {})
            pic = du.get("picture_parse", {})
            fp = du.get("fragment_parse", {})
            so.append(enc(af, pi, "next_parse_offset") + enc(af, pi, "previous_parse_offset")
                      + [int((si, ui) in nl), int((si, ui) in pl)]
                      + enc(af, pp, "major_version") + enc(af, pic.get("picture_header", {}), "picture_number")
                      + enc(af, fp.get("fragment_header", {}), "picture_number")
                      + [int("extended_transform_parameters" in pic.get("wavelet_transform", {}).get("transform_parameters", {})),
                         int("extended_transform_parameters" in fp.get("transform_parameters", {}))])
        obs.append(so)
    return obs


def serialise(I, stream):
    """autofill_and_serialise_stream on a copy -> bytes, or None if the description cannot be serialised."""
    common, bs, af, fd, tables = I
    f = io.BytesIO()
    try:
        af.autofill_and_serialise_stream(f, copy.deepcopy(stream))
    except Exception as e:
        return None, type(e).__name__
    return f.getvalue(), None


def read_back(I, data):
    """Deserialise; returns (description, offsets per sequence) or None when it does not parse back
    to the end of the data."""
    common, bs, af, fd, tables = I
    out, exc = common.deserialise(data)
    if exc is not None:
        return None
    offs = [[du["parse_info"]["_offset"] for du in seq["data_units"]] for seq in out["sequences"]]
    return out, offs


def lens_from_offsets(offs, total):
    flat = [o for s in offs for o in s] + [total]
    lens, k = [], 0
    for s in offs:
        lens.append([flat[k + i + 1] - flat[k + i] for i in range(len(s))])
        k += len(s)
    return lens


def final_obs(out):
    obs = []
    for seq in out["sequences"]:
        so = []
        for du in seq["data_units"]:
            pi = du["parse_info"]
            mv = du["sequence_header"]["parse_parameters"]["major_version"] if "sequence_header" in du else -1
            pn = -1
            if "picture_parse" in du:
                pn = du["picture_parse"]["picture_header"]["picture_number"]
            elif "fragment_parse" in du:
                pn = du["fragment_parse"]["fragment_header"]["picture_number"]
            so.append([pi["next_parse_offset"], pi["previous_parse_offset"], mv, pn])
        obs.append(so)
    return obs


# ------------------------------------------------------------------------------------
# property oracle (independent of the model)
# ------------------------------------------------------------------------------------
AUTO_KEYS = {("ParseInfo", "next_parse_offset"), ("ParseInfo", "previous_parse_offset"),
             ("ParseParameters", "major_version"), ("PictureHeader", "picture_number"),
             ("FragmentHeader", "picture_number")}


def leaf_equal(a, b):
    try:
        from bitarray import bitarray
    except Exception:  # pragma: no cover
        bitarray = ()
    if isinstance(a, bitarray) or isinstance(b, bitarray):
        return list(a) == list(b)
    if isinstance(a, (bytes, bytearray)) or isinstance(b, (bytes, bytearray)):
        return bytes(a) == bytes(b)
    if isinstance(a, (list, tuple)) and isinstance(b, (list, tuple)):
        return len(a) == len(b) and all(leaf_equal(x, y) for x, y in zip(a, b))
    try:
        return int(a) == int(b)
    except Exception:
        return a == b


def default_matches(dv, v):
    """Does the serialised value v equal the documented default dv (a default for a list entry
    stands for every element; empty bit/byte strings are zero-extended to the coded length)?"""
    from bitarray import bitarray
    if isinstance(v, list):
        return all(default_matches(dv, x) for x in v)
    if isinstance(dv, bitarray):
        return isinstance(v, bitarray) and list(v[:len(dv)]) == list(dv) and not any(v[len(dv):])
    if isinstance(dv, (bytes, bytearray)):
        return bytes(v[:len(dv)]) == bytes(dv) and not any(v[len(dv):])
    return leaf_equal(dv, v)


def compare_desc(I, inp, out, path, problems, etp_removed_ok):
    """Every explicit value of `inp` appears unchanged in `out`; keys of `out` absent from `inp`
    hold the documented default."""
    common, bs, af, fd, tables = I
    if inp is af.AUTO:
        return
    if isinstance(out, dict):
        tname = type(out).__name__
        dflt = fd.vc2_default_values.get(type(out), {})
        inp = inp if isinstance(inp, dict) else {}
        for k in inp:
            if isinstance(k, str) and k.startswith("_"):
                continue
            if k not in out:
                if k == "extended_transform_parameters" and etp_removed_ok:
                    continue
                problems.append(("explicit-value-missing", path + [k]))
                continue
            compare_desc(I, inp[k], out[k], path + [k], problems, etp_removed_ok)
        for k in out:
            if k in inp or (isinstance(k, str) and k.startswith("_")):
                continue
            if (tname, k) in AUTO_KEYS:
                continue
            v = out[k]
            if isinstance(v, dict):
                compare_desc(I, {}, v, path + [k], problems, etp_removed_ok)
            elif isinstance(v, list) and v and isinstance(v[0], dict):
                for i, x in enumerate(v):
                    compare_desc(I, {}, x, path + [k, i], problems, etp_removed_ok)
            elif k in dflt:
                if not default_matches(dflt[k], v):
                    problems.append(("omitted-not-default", path + [k], repr(v)[:60], repr(dflt[k])[:60]))
            else:
                problems.append(("omitted-no-documented-default", path + [k]))
    elif isinstance(out, list):
        if not isinstance(inp, list):
            inp = []
        if inp and len(inp) != len(out):
            problems.append(("list-length-changed", path, len(inp), len(out)))
            return
        for i, x in enumerate(out):
            if isinstance(x, (dict, list)):
                compare_desc(I, inp[i] if i < len(inp) else {}, x, path + [i], problems, etp_removed_ok)
            elif i < len(inp) and not leaf_equal(inp[i], x):
                problems.append(("explicit-value-changed", path + [i], repr(inp[i])[:60], repr(x)[:60]))
    else:
        if not leaf_equal(inp, out):
            problems.append(("explicit-value-changed", path, repr(inp)[:60], repr(out)[:60]))


def is_auto(af, d, k):
    return k not in d or d[k] is af.AUTO


def doc_default(fd, cls, key):
    """The DOCUMENTED default of a field: vc2_fixeddicts.vc2_default_values (not the autofill module's table)."""
    return fd.vc2_default_values[cls][key]


def coded_transform(fd, tp):
    """(wavelet_index, wavelet_index_ho, dwt_depth_ho) a transform_parameters entry describes once omitted fields
    have taken their documented defaults (12.4.1, 12.4.4)."""
    E = fd.ExtendedTransformParameters
    e = tp.get("extended_transform_parameters", {})
    wi = int(tp.get("wavelet_index", doc_default(fd, fd.TransformParameters, "wavelet_index")))
    ho, dho = wi, 0
    if e.get("asym_transform_index_flag", doc_default(fd, E, "asym_transform_index_flag")):
        ho = int(e.get("wavelet_index_ho", doc_default(fd, E, "wavelet_index_ho")))
    if e.get("asym_transform_flag", doc_default(fd, E, "asym_transform_flag")):
        dho = int(e.get("dwt_depth_ho", doc_default(fd, E, "dwt_depth_ho")))
    return wi, ho, dho


def is_asymmetric(fd, tp):
    wi, ho, dho = coded_transform(fd, tp)
    return ho != wi or dho != 0


def required_version(I, seq):
    """(11.2.2) The version the features of a sequence description require, computed from the description and the
    DOCUMENTED defaults only (per-feature bounds: vc2_conformance.version_constraints, the module the validator uses)."""
    common, bs, af, fd, tables = I
    from vc2_conformance import version_constraints as vcn
    PCs = tables.ParseCodes
    v = vcn.MINIMUM_MAJOR_VERSION

    def on(d, cls, flag):
        return bool(d.get(flag, doc_default(fd, cls, flag)))

    def idx(d, cls):
        return int(d.get("index", doc_default(fd, cls, "index")))
    for du in seq.get("data_units", []):
        pc = int(du.get("parse_info", {}).get("parse_code", doc_default(fd, fd.ParseInfo, "parse_code")))
        v = max(v, vcn.parse_code_version_implication(pc))
        if pc == int(PCs.sequence_header):
            sh = du.get("sequence_header", {})
            v = max(v, vcn.profile_version_implication(
                int(sh.get("parse_parameters", {}).get("profile", doc_default(fd, fd.ParseParameters, "profile")))))
            vp = sh.get("video_parameters", {})
            fr, sr, cs = vp.get("frame_rate", {}), vp.get("signal_range", {}), vp.get("color_spec", {})
            if on(fr, fd.FrameRate, "custom_frame_rate_flag") and idx(fr, fd.FrameRate) != 0:
                v = max(v, vcn.preset_frame_rate_version_implication(idx(fr, fd.FrameRate)))
            if on(sr, fd.SignalRange, "custom_signal_range_flag") and idx(sr, fd.SignalRange) != 0:
                v = max(v, vcn.preset_signal_range_version_implication(idx(sr, fd.SignalRange)))
            if on(cs, fd.ColorSpec, "custom_color_spec_flag"):
                if idx(cs, fd.ColorSpec) != 0:
                    v = max(v, vcn.preset_color_spec_version_implication(idx(cs, fd.ColorSpec)))
                else:
                    for key, cls, flag, f in (
                            ("color_primaries", fd.ColorPrimaries, "custom_color_primaries_flag", vcn.preset_color_primaries_version_implication),
                            ("color_matrix", fd.ColorMatrix, "custom_color_matrix_flag", vcn.preset_color_matrix_version_implication),
                            ("transfer_function", fd.TransferFunction, "custom_transfer_function_flag", vcn.preset_transfer_function_version_implication)):
                        x = cs.get(key, {})
                        if on(x, cls, flag):
                            v = max(v, f(idx(x, cls)))
        else:
            tp = None
            if pc in (int(PCs.low_delay_picture), int(PCs.high_quality_picture)):
                tp = du.get("picture_parse", {}).get("wavelet_transform", {}).get("transform_parameters", {})
            elif pc in (int(PCs.low_delay_picture_fragment), int(PCs.high_quality_picture_fragment)):
                fp = du.get("fragment_parse", {})
                if int(fp.get("fragment_header", {}).get("fragment_slice_count", doc_default(fd, fd.FragmentHeader, "fragment_slice_count"))) == 0:
                    tp = fp.get("transform_parameters", {})
            if tp is not None:
                v = max(v, vcn.wavelet_transform_version_implication(*coded_transform(fd, tp)))
    return v


def oracle_stream(I, ctx, gen, seed, stream, data, out, offs):
    """Checks on one serialised description.  Returns (expected major versions per sequence or None,
    list of violations [(key, description, observed, expected)])."""
    common, bs, af, fd, tables = I
    PCs = tables.ParseCodes
    viol = []
    total = len(data)
    # the measured positions really are parse_info headers
    for s in offs:
        for o in s:
            if data[o:o + 4] != b"BBCD":
                viol.append(("offset-not-a-parse-info", "no parse_info prefix at recorded offset %d" % o, None, None))
    in_seqs = stream.get("sequences", [])
    if [len(s.get("data_units", [])) for s in in_seqs] != [len(s) for s in offs]:
        viol.append(("unit-count-changed", "number of data units differs after the round trip", None, None))
        return viol
    flat_next = {}
    allo = [o for s in offs for o in s] + [total]
    for si, seq in enumerate(in_seqs):
        units = seq.get("data_units", [])
        last = MASK  # (0 - 1) & MASK
        for ui, du in enumerate(units):
            odu = out["sequences"][si]["data_units"][ui]
            opi = odu["parse_info"]
            pi = du.get("parse_info", {})
            pc = int(opi["parse_code"])
            here = offs[si][ui]
            nxt = allo[allo.index(here) + 1]
            # ---- offsets
            if is_auto(af, pi, "next_parse_offset"):
                want = 0 if ui == len(units) - 1 else nxt - here
                if opi["next_parse_offset"] != want:
                    viol.append(("next-parse-offset-not-true-distance", "seq %d unit %d (parse code %d)" % (si, ui, pc),
                                 opi["next_parse_offset"], want))
                if pc in (int(PCs.padding_data), int(PCs.auxiliary_data)):
                    key = "padding" if pc == int(PCs.padding_data) else "auxiliary_data"
                    payload = du.get(key, {}).get("bytes", b"")
                    if opi["next_parse_offset"] != 13 + len(payload) or bytes(odu[key]["bytes"]) != bytes(payload):
                        viol.append(("padding-aux-offset-not-13-plus-length", "seq %d unit %d" % (si, ui),
                                     opi["next_parse_offset"], 13 + len(payload)))
                if (opi["next_parse_offset"] == 0) != (ui == len(units) - 1):
                    viol.append(("next-parse-offset-zero-iff-last", "seq %d unit %d" % (si, ui), opi["next_parse_offset"], None))
            if is_auto(af, pi, "previous_parse_offset"):
                want = 0 if ui == 0 else here - offs[si][ui - 1]
                if opi["previous_parse_offset"] != want:
                    viol.append(("previous-parse-offset-not-true-distance", "seq %d unit %d" % (si, ui),
                                 opi["previous_parse_offset"], want))
            # ---- picture numbers
            hd_in = hd_out = None
            if pc in (int(PCs.low_delay_picture), int(PCs.high_quality_picture)):
                hd_in = du.get("picture_parse", {}).get("picture_header", {})
                hd_out = odu["picture_parse"]["picture_header"]
                inc = True
            elif pc in (int(PCs.low_delay_picture_fragment), int(PCs.high_quality_picture_fragment)):
                hd_in = du.get("fragment_parse", {}).get("fragment_header", {})
                hd_out = odu["fragment_parse"]["fragment_header"]
                inc = hd_out["fragment_slice_count"] == 0
            if hd_out is not None:
                got = hd_out["picture_number"]
                if is_auto(af, hd_in, "picture_number"):
                    want = ((last + 1) & MASK) if inc else last
                    if got != want:
                        viol.append(("auto-picture-number-wrong", "seq %d unit %d (%s)" % (si, ui, "start" if inc else "continuation"),
                                     got, want))
                last = got
    # ---- explicit values unchanged / omitted = defaults (whole description)
    problems = []
    compare_desc(I, stream, out, [], problems, True)
    for p in problems:
        viol.append((p[0], "at %r %r" % (p[1], p[2:]), None, None))
    # an extended_transform_parameters entry may only have been dropped when the sequence's version is
    # automatic and below 3 -- and then it must have been symmetric
    for si, seq in enumerate(in_seqs):
        for ui, du in enumerate(seq.get("data_units", [])):
            odu = out["sequences"][si]["data_units"][ui]
            for a, b in ((du.get("picture_parse", {}).get("wavelet_transform", {}).get("transform_parameters"),
                          odu.get("picture_parse", {}).get("wavelet_transform", {}).get("transform_parameters")),
                         (du.get("fragment_parse", {}).get("transform_parameters"), odu.get("fragment_parse", {}).get("transform_parameters"))):
                if a is None or b is None or "extended_transform_parameters" not in a:
                    continue
                if "extended_transform_parameters" in b:
                    continue  # coded: compare_desc has compared every explicit key with what was read back
                e = a["extended_transform_parameters"]
                hdr_units = [x for x in seq.get("data_units", [])[:ui]
                             if int(x.get("parse_info", {}).get("parse_code", doc_default(fd, fd.ParseInfo, "parse_code"))) == int(PCs.sequence_header)]
                in_force_auto = bool(hdr_units) and is_auto(
                    af, hdr_units[-1].get("sequence_header", {}).get("parse_parameters", {}), "major_version")
                why = None
                if is_asymmetric(fd, a):
                    why = ("the entry describes the asymmetric transform (wavelet_index, wavelet_index_ho, dwt_depth_ho) = %r "
                           "(omitted fields at their documented defaults)" % (coded_transform(fd, a),))
                elif not in_force_auto:
                    why = "the sequence header in force has an explicit major_version (or there is none)"
                if why:
                    for k in (list(e) or ["<empty dict>"]):
                        viol.append(("explicit-value-missing",
                                     "seq %d unit %d: extended_transform_parameters[%r] = %r was dropped although %s"
                                     % (si, ui, k, e.get(k), why), None, repr(e.get(k))))
    # ---- (2) automatic major_version = the requirement computed independently from the description
    for si, seq in enumerate(in_seqs):
        want = None
        for ui, du in enumerate(seq.get("data_units", [])):
            odu = out["sequences"][si]["data_units"][ui]
            if "sequence_header" not in odu:
                continue
            if is_auto(af, du.get("sequence_header", {}).get("parse_parameters", {}), "major_version"):
                if want is None:
                    want = required_version(I, seq)
                got = odu["sequence_header"]["parse_parameters"]["major_version"]
                if got != want:
                    viol.append(("auto-major-version-not-required-minimum",
                                 "seq %d unit %d: automatic major_version %d but the sequence's features require %d" % (si, ui, got, want),
                                 got, want))
    return viol


VERSION_ERRS = {"PresetFrameRateNotSupportedByVersion", "PresetSignalRangeNotSupportedByVersion",
                "PresetColorSpecNotSupportedByVersion", "PresetColorPrimariesNotSupportedByVersion",
                "PresetColorMatrixNotSupportedByVersion", "PresetTransferFunctionNotSupportedByVersion",
                "ParseCodeNotSupportedByVersion", "ProfileNotSupportedByVersion", "MajorVersionTooLow", "MajorVersionTooHigh"}
OFFSET_ERRS = {"InconsistentNextParseOffset", "MissingNextParseOffset", "InvalidNextParseOffset",
               "NonZeroNextParseOffsetAtEndOfSequence", "InconsistentPreviousParseOffset",
               "NonZeroPreviousParseOffsetAtStartOfSequence"}
NUMBER_ERRS = {"NonConsecutivePictureNumbers", "PictureNumberChangedMidFragmentedPicture", "EarliestFieldHasOddPictureNumber"}


def all_tps(I, stream):
    for seq in stream.get("sequences", []):
        for du in seq.get("data_units", []):
            if "picture_parse" in du:
                yield du["picture_parse"]["wavelet_transform"]["transform_parameters"]
            elif "fragment_parse" in du and "transform_parameters" in du["fragment_parse"]:
                yield du["fragment_parse"]["transform_parameters"]


def version_crosscheck(I, stream, out):
    """The REAL validator as judge: label every sequence header of the description with an explicit
    version v' = 1..4 (ETP entries can only be coded when v' >= 3) and see which the validator accepts.
    Returns list of violations."""
    common, bs, af, fd, tables = I
    viol = []
    nseq = len(stream["sequences"])
    auto_v = []
    for seq in out["sequences"]:
        vs = set(du["sequence_header"]["parse_parameters"]["major_version"] for du in seq["data_units"] if "sequence_header" in du)
        auto_v.append(sorted(vs))
    for si in range(nseq):
        if len(auto_v[si]) != 1:
            viol.append(("auto-major-version-differs-within-sequence", "seq %d: %r" % (si, auto_v[si]), auto_v[si], None))
            continue
        v = auto_v[si][0]
        accepted, detail = [], {}
        for cand in (1, 2, 3, 4):
            s2 = copy.deepcopy(stream)
            lossy = False
            for du in s2["sequences"][si]["data_units"]:
                if "sequence_header" in du:
                    du["sequence_header"]["parse_parameters"]["major_version"] = cand
            if cand < 3:
                sub = bs.Stream(sequences=[s2["sequences"][si]])
                for tp in all_tps(I, sub):
                    e = tp.pop("extended_transform_parameters", None)
                    if e is not None:
                        t2 = dict(tp)
                        t2["extended_transform_parameters"] = e
                        if is_asymmetric(fd, t2):
                            lossy = True
            if lossy:
                detail[cand] = "cannot code the asymmetric transform"
                continue
            d2, err = serialise(I, s2)
            if d2 is None:
                detail[cand] = "unserialisable:" + err
                continue
            verdict = common.validate(d2)[0]
            detail[cand] = verdict
            if verdict == "accept":
                accepted.append(cand)
        if v not in accepted:
            viol.append(("auto-major-version-rejected-by-validator", "seq %d auto version %d; per candidate: %r" % (si, v, detail), v, accepted))
        elif min(accepted) != v:
            viol.append(("auto-major-version-not-least-accepted", "seq %d auto version %d; per candidate: %r" % (si, v, detail), v, min(accepted)))
    return viol


# ------------------------------------------------------------------------------------
def check_tables(I, ctx):
    """Table comparisons: vc2_default_values_with_auto = vc2_default_values except the five AUTO
    entries; model constants = live vc2_data_tables."""
    common, bs, af, fd, tables = I
    a, b = af.vc2_default_values_with_auto, fd.vc2_default_values
    autos = set()
    for t in b:
        ta, tb = a.get(t), b[t]
        if set(ta.keys()) != set(tb.keys()):
            ctx.violation("defaults-with-auto-keys-differ", {"type": t.__name__}, "key sets differ")
            continue
        for k in tb:
            if ta[k] is af.AUTO:
                autos.add((t.__name__, k))
            elif not leaf_equal(ta[k], tb[k]):
                ctx.violation("defaults-with-auto-changes-a-default", {"type": t.__name__, "key": k},
                              "vc2_default_values_with_auto differs from vc2_default_values", observed=repr(ta[k]), expected=repr(tb[k]))
        ctx.count(len(tb))
    if autos != AUTO_KEYS:
        ctx.violation("auto-default-set-changed", {"autos": sorted(autos)}, "fields defaulting to AUTO are not the documented five",
                      observed=sorted(autos), expected=sorted(AUTO_KEYS))
    PCs = tables.ParseCodes
    consts = [int(PCs.sequence_header), int(PCs.end_of_sequence), int(PCs.auxiliary_data), int(PCs.padding_data),
              int(PCs.low_delay_picture), int(PCs.high_quality_picture), int(PCs.low_delay_picture_fragment),
              int(PCs.high_quality_picture_fragment), int(tables.PARSE_INFO_HEADER_BYTES)]
    r = ctx.coq_eval("consts", ["Model.Autofill"],
                     "[PC_SEQUENCE_HEADER; PC_END_OF_SEQUENCE; PC_AUXILIARY_DATA; PC_PADDING_DATA; PC_LD_PICTURE; PC_HQ_PICTURE; "
                     "PC_LD_FRAGMENT; PC_HQ_FRAGMENT; PARSE_INFO_HEADER_BYTES]")
    want = "[" + "; ".join(str(c) for c in consts) + "]"
    ok = r is not None and r.replace("%Z", "").replace(" ", "") == want.replace(" ", "")
    ctx.obligation("corr:model constants = vc2_data_tables", ok, "corr-shard", "model %s tables %s" % (r, want))


def bucket_of(stream):
    n = sum(len(s.get("data_units", [])) for s in stream.get("sequences", []))
    return "%dseq/%s units" % (len(stream.get("sequences", [])), "0-3" if n < 4 else ("4-7" if n < 8 else "8+"))


def run(ctx):
    I = impl()
    common, bs, af, fd, tables = I
    rng = ctx.rng
    ctx.extra["rule"] = (
        "weird: random data-unit lists, sub-dictionaries unrelated to the parse code, every field explicit/AUTO/omitted -> the three "
        "pre-serialisation passes vs Model.Autofill.prepare; hand: serialisable hand-built multi-sequence descriptions (pictures, first/"
        "data fragments, padding/aux payloads 0..300 bytes, version-raising presets, asymmetric ETP, explicit/AUTO/omitted fields) and "
        "valid: real-encoder sequences (random small codec configurations incl. fragments, asymmetric transforms, fields) edited with "
        "presets/padding/aux/repeated headers/ETP spellings -> real autofill_and_serialise_stream -> real deserialiser vs "
        "Model.Autofill.autofill_stream with unit lengths measured on the bytes; oracle: explicit values unchanged, omitted = defaults, "
        "offsets = byte distances, numbering rule, REAL validator verdict for every candidate major_version 1..4.  A case is non-trivial "
        "when at least one field is autofilled (distinct by seed).")
    check_tables(I, ctx)
    dl = defaults_lit(af, fd)
    defs = "Definition dflt := %s." % dl

    # ---- A: passes on weird descriptions --------------------------------------------------
    nA = ctx.pick(600, 8000)
    cases, metas = [], []
    corpus = [("weird", s) for s in CORPUS_WEIRD]
    for i in range(nA):
        if i < len(corpus):
            seed = corpus[i][1]
        else:
            seed = rng.getrandbits(40)
        stream = gen_weird(seed, I)
        try:
            obs = run_passes(I, stream)
        except Exception as e:
            ctx.count(1, bucket="weird: pass raised " + type(e).__name__)
            continue
        cases.append("(%s,\n %s)" % (stream_lit(af, stream), zlll(obs)))
        metas.append(seed)
        ctx.count(1, key=("weird", seed), bucket="weird " + bucket_of(stream))
    bad = ctx.coq_check_cases("passes", ["Model.Autofill", "Corr.C07"], "check_prepare dflt", cases, shard=60, defs=defs)
    if bad:
        ctx.obligation("corr:passes agree with implementation", False, "corr-shard",
                       "model/implementation differ on weird seeds %r" % [metas[i] for i in bad[:8]])
    ctx.sample({"gen": "weird", "seed": metas[0] if metas else None})

    # ---- B: whole pipeline ------------------------------------------------------------------
    nH = ctx.pick(500, 6000)
    nV = ctx.pick(200, 2500)
    cases, metas = [], []
    unser = {}
    plan = [("hand", s) for s in CORPUS_HAND] + [("valid", s) for s in CORPUS_VALID]
    plan += [("hand", rng.getrandbits(40)) for _ in range(nH)] + [("valid", rng.getrandbits(40)) for _ in range(nV)]
    n_cross = n_accept = 0
    for gen, seed in plan:
        if gen == "valid":
            stream, meta = gen_valid(seed, I)
        else:
            stream, meta = gen_hand(seed, I), None
        data, err = serialise(I, stream)
        if data is None:
            unser[err] = unser.get(err, 0) + 1
            ctx.count(1, bucket=gen + ": not serialisable (filtered)")
            continue
        rb = read_back(I, data)
        if rb is None:
            ctx.count(1, bucket=gen + ": does not deserialise (filtered)")
            continue
        out, offs = rb
        lens = lens_from_offsets(offs, len(data))
        start = offs[0][0] if offs and offs[0] else 0
        cases.append("(%s, %s,\n %s)" % (cz(start), stream_lit(af, stream, lens), zlll(final_obs(out))))
        metas.append((gen, seed))
        ctx.count(1, key=(gen, seed), bucket=gen + " " + bucket_of(stream))
        ctx.sample({"gen": gen, "seed": seed, "bytes": len(data), "units": [len(s) for s in offs]})
        viol = oracle_stream(I, ctx, gen, seed, stream, data, out, offs)
        if gen == "valid":
            verdict = common.validate(data)[0]
            name = verdict.split(":", 1)[1] if ":" in verdict else ""
            modes = meta["picmode"]
            if verdict == "accept":
                n_accept += 1
                n_cross += 1
                viol += version_crosscheck(I, stream, out)
            elif name in VERSION_ERRS or name in OFFSET_ERRS or (name in NUMBER_ERRS and all(m in ("auto", "first") for m in modes)):
                viol.append(("validator-rejects-autofilled-" + name, "validator verdict %s on a stream whose fields were autofilled" % verdict,
                             verdict, "accept"))
            else:
                ctx.count(0, bucket="valid: rejected for an unrelated rule (%s)" % name)
        for key, desc, obs, exp in viol:
            ctx.violation(key, {"gen": gen, "seed": seed}, desc, observed=obs, expected=exp)
    bad = ctx.coq_check_cases("pipeline", ["Model.Autofill", "Corr.C07"], "check_final dflt", cases, shard=40, defs=defs)
    if bad:
        ctx.obligation("corr:autofill_and_serialise_stream agrees with the model", False, "corr-shard",
                       "model/implementation differ on %r" % [metas[i] for i in bad[:8]])
    ctx.note("unserialisable descriptions filtered: %r" % unser)
    ctx.note("valid streams accepted by the validator after autofill: %d; version cross-checks (4 candidate versions each): %d" % (n_accept, n_cross))
    ctx.trusted.append("true unit lengths = differences of the parse_info positions recorded by the real deserialiser "
                       "(each position is checked to hold the parse_info prefix in the written bytes)")
    ctx.trusted.append("Gen/Version.v, Gen/ParseCodes.v regenerated from /repo on this run; vc2_default_values_with_auto entries read "
                       "by the passes dumped from the live table into every correspondence shard")


CORPUS_WEIRD = []
CORPUS_HAND = []
CORPUS_VALID = []


def replay(ctx, data):
    I = impl()
    common, bs, af, fd, tables = I
    inp = data["input"]
    print("replaying", data["key"], inp)
    if "gen" not in inp:
        check_tables(I, ctx)
        print("table comparison re-run; violations:", len(ctx.violations))
        return 1 if ctx.violations else 0
    gen, seed = inp["gen"], inp["seed"]
    stream = GENS[gen](seed, I)
    print(stream)
    out_bytes, err = serialise(I, stream)
    if out_bytes is None:
        print("not serialisable:", err)
        return 0
    out, offs = read_back(I, out_bytes)
    viol = oracle_stream(I, ctx, gen, seed, stream, out_bytes, out, offs)
    if gen == "valid":
        verdict = common.validate(out_bytes)[0]
        print("validator verdict on the autofilled stream:", verdict)
        if verdict == "accept":
            viol += version_crosscheck(I, stream, out)
        else:
            name = verdict.split(":", 1)[1] if ":" in verdict else ""
            if name in VERSION_ERRS or name in OFFSET_ERRS or name in NUMBER_ERRS:
                viol.append(("validator-rejects-autofilled-" + name, verdict, verdict, "accept"))
    print("autofilled:", final_obs(out))
    for v in viol:
        print("VIOLATED:", v)
    print("property violated on this input:", bool(viol))
    return 1 if viol else 0
