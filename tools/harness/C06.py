"""C06 harness: deserialise -> serialise reproduces the bytes, on the REAL vc2.py description
(parse_stream with Deserialiser / Serialiser).

Inputs: conformant streams for many codec configurations (the real encoder + autofill_and_serialise_stream),
field-level mutants (one value of the deserialised description changed, re-serialised), bit-level mutants
(bit flips, truncation, appended bytes), hand-made parse_info/padding/auxiliary-data streams with unusual
offsets.  Every byte string the deserialiser parses to completion is a case:
   serialise(deserialise(b)) == b   and   deserialise(serialise(deserialise(b))) == deserialise(b).

Tie C (model): the parse_info + padding/auxiliary_data description as a [prog] term of Model/SerDes.v
(Corr/C06.v) is run against the real parse_info/padding functions on the same bytes.
"""
from __future__ import print_function

import copy
import os
import sys
from io import BytesIO

from vlib import cz, clist, REPO

ERR = {
    "ReusedTargetError": 1, "ListTargetExhaustedError": 2, "ListTargetContainsNonListError": 3,
    "UnusedTargetError": 4, "UnclosedBoundedBlockError": 5, "UnclosedNestedContextError": 6,
    "KeyError": 7, "OutOfRangeError": 8, "ValueError": 9, "EOFError": 10, "TypeError": 11,
    "AttributeError": 11, "IndexError": 12, "Exception": 12,
}


def impl():
    sys.path.insert(0, os.path.join(REPO, "tests"))
    import vc2_data_tables as tables
    from vc2_conformance import bitstream as bs
    from vc2_conformance.bitstream import vc2 as vc2mod
    from vc2_conformance.pseudocode.state import State
    from vc2_conformance.encoder.sequence import make_sequence
    from vc2_conformance import picture_generators as pg
    from sample_codec_features import MINIMAL_CODEC_FEATURES
    from bitarray import bitarray
    return dict(tables=tables, bs=bs, vc2=vc2mod, State=State, make_sequence=make_sequence, pg=pg,
                minimal=MINIMAL_CODEC_FEATURES, bitarray=bitarray)


class TooSlow(Exception):
    pass


class time_limit(object):
    """a mutated size field can make the description loop (almost) forever: give up on such inputs"""
    def __init__(self, seconds):
        self.seconds = seconds

    def _fire(self, *a):
        raise TooSlow()

    def __enter__(self):
        import signal
        self.old = signal.signal(signal.SIGALRM, self._fire)
        signal.setitimer(signal.ITIMER_REAL, self.seconds)

    def __exit__(self, *a):
        import signal
        signal.setitimer(signal.ITIMER_REAL, 0)
        signal.signal(signal.SIGALRM, self.old)
        return False


def des(I, data):
    """-> description; raises whatever the deserialiser raises"""
    bs = I["bs"]
    r = bs.BitstreamReader(BytesIO(bytes(data)))
    with bs.Deserialiser(r) as d:
        bs.parse_stream(d, I["State"]())
    return d.context


def ser(I, ctx):
    bs = I["bs"]
    f = BytesIO()
    w = bs.BitstreamWriter(f)
    with bs.Serialiser(w, ctx, bs.vc2_default_values) as s:
        bs.parse_stream(s, I["State"]())
    w.flush()
    return f.getvalue(), s.context


# --------------------------------------------------------------------------------------------
# base streams
# --------------------------------------------------------------------------------------------
def configurations(I, rng, n):
    t = I["tables"]
    out = []
    for i in range(n):
        cf = I["minimal"].copy()
        cf["video_parameters"] = copy.deepcopy(cf["video_parameters"])
        vp = cf["video_parameters"]
        prof = rng.choice([t.Profiles.high_quality, t.Profiles.high_quality, t.Profiles.low_delay])
        cf["profile"] = prof
        cf["fragment_slice_count"] = rng.choice([0, 0, 1, 2, 3])
        cf["wavelet_index"] = t.WaveletFilters(rng.randrange(0, 7))
        cf["wavelet_index_ho"] = rng.choice([cf["wavelet_index"], t.WaveletFilters(rng.randrange(0, 7))])
        cf["dwt_depth"] = rng.choice([0, 1, 1, 2])
        cf["dwt_depth_ho"] = rng.choice([0, 0, 0, 1, 2])
        w, h = rng.choice([(8, 4), (16, 8), (12, 6), (8, 8), (24, 4)])
        vp["frame_width"], vp["frame_height"] = w, h
        vp["clean_width"], vp["clean_height"] = w, h
        vp["color_diff_format_index"] = rng.choice(list(t.ColorDifferenceSamplingFormats))
        cf["picture_coding_mode"] = t.PictureCodingModes(rng.choice([0, 0, 1]))
        cf["slices_x"], cf["slices_y"] = rng.choice([(1, 1), (2, 1), (2, 2), (1, 2), (4, 1)])
        if prof == t.Profiles.high_quality and rng.random() < 0.3:
            cf["lossless"] = True
            cf["picture_bytes"] = None
        else:
            cf["lossless"] = False
            cf["picture_bytes"] = rng.choice([16, 24, 40, 64, 100])
        cf["quantization_matrix"] = None
        out.append((cf, rng.choice(["gray", "noise", "noise"]), rng.randrange(1, 3), rng.randrange(1 << 30)))
    return out


def custom_matrix(I, cf, rng):
    """quantisation matrix dict for configurations without a default one"""
    m = {}
    dd, dh = cf["dwt_depth"], cf["dwt_depth_ho"]
    if dh == 0:
        m[0] = {"LL": rng.randrange(0, 5)}
    else:
        m[0] = {"L": rng.randrange(0, 5)}
        for lvl in range(1, dh + 1):
            m[lvl] = {"H": rng.randrange(0, 5)}
    for lvl in range(dh + 1, dh + dd + 1):
        m[lvl] = {"HL": rng.randrange(0, 5), "LH": rng.randrange(0, 5), "HH": rng.randrange(0, 5)}
    return m


def encode(I, rng, cf, kind, npics, seed):
    pg, t = I["pg"], I["tables"]
    from vc2_data_tables import QUANTISATION_MATRICES
    key = (cf["wavelet_index"], cf["wavelet_index_ho"], cf["dwt_depth"], cf["dwt_depth_ho"])
    if key not in QUANTISATION_MATRICES:
        cf["quantization_matrix"] = custom_matrix(I, cf, rng)
    vp, pcm = cf["video_parameters"], cf["picture_coding_mode"]
    if kind == "gray":
        pics = list(pg.repeat_pictures(pg.mid_gray(vp, pcm), npics))
    else:
        pics = list(pg.white_noise(vp, pcm, num_frames=npics, seed=seed))
    seq = I["make_sequence"](cf, pics)
    bs = I["bs"]
    # extra data units: padding / auxiliary data
    units = seq["data_units"]
    for _ in range(rng.choice([0, 0, 1, 2])):
        pos = rng.randrange(0, len(units))
        payload = bytes(bytearray(rng.randrange(256) for _ in range(rng.choice([0, 1, 5, 20]))))
        if rng.random() < 0.5:
            du = bs.DataUnit(parse_info=bs.ParseInfo(parse_code=t.ParseCodes.padding_data), padding=bs.Padding(bytes=payload))
        else:
            du = bs.DataUnit(parse_info=bs.ParseInfo(parse_code=t.ParseCodes.auxiliary_data), auxiliary_data=bs.AuxiliaryData(bytes=payload))
        units.insert(pos, du)
    seqs = [seq]
    if rng.random() < 0.2:
        seqs.append(copy.deepcopy(seq))
    f = BytesIO()
    bs.autofill_and_serialise_stream(f, bs.Stream(sequences=seqs))
    return f.getvalue()


def parse_info_bytes(code, npo, ppo, prefix=0x42424344):
    return list(prefix.to_bytes(4, "big")) + [code & 0xFF] + list((npo & 0xFFFFFFFF).to_bytes(4, "big")) + list((ppo & 0xFFFFFFFF).to_bytes(4, "big"))


def handmade(rng):
    """parse_info / padding / auxiliary data streams with unusual offsets"""
    out = []
    for code in (0x30, 0x20):
        for npo in (0, 1, 5, 12, 13, 14, 20):
            body = [rng.randrange(256) for _ in range(max(0, npo - 13))]
            out.append(("pad-aux-npo%d" % npo, parse_info_bytes(code, npo, 0) + body + parse_info_bytes(0x10, 0, npo if npo else 13)))
        # next_parse_offset 0 followed by more data
        out.append(("pad-aux-npo0-more", parse_info_bytes(code, 0, 0) + parse_info_bytes(code, 15, 13) + [1, 2] + parse_info_bytes(0x10, 0, 15)))
    out.append(("end-only", parse_info_bytes(0x10, 0, 0)))
    out.append(("two-sequences", parse_info_bytes(0x10, 0, 0) + parse_info_bytes(0x10, 13, 0)))
    out.append(("odd-prefix", parse_info_bytes(0x10, 99, 7, prefix=0xDEADBEEF)))
    out.append(("odd-code-then-end", parse_info_bytes(0x11, 13, 0) + parse_info_bytes(0x10, 0, 13)))
    return out


# --------------------------------------------------------------------------------------------
# hand-packed streams with HUGE exp-Golomb coded fields (own bit packer, NOT the project's writer)
# --------------------------------------------------------------------------------------------
class Packer(object):
    """independent MSB-first bit packer"""
    def __init__(self):
        self.b = []

    def bit(self, v):
        self.b.append(1 if v else 0)

    def nbits(self, n, v):
        for i in range(n - 1, -1, -1):
            self.b.append((v >> i) & 1)

    def uint(self, v):
        v += 1
        for i in range(v.bit_length() - 2, -1, -1):
            self.b.append(0)
            self.b.append((v >> i) & 1)
        self.b.append(1)

    def sint(self, v):
        self.uint(abs(v))
        if v:
            self.b.append(1 if v < 0 else 0)

    def align(self, fill=0):
        while len(self.b) % 8:
            self.b.append(fill)

    def bytes(self):
        assert len(self.b) % 8 == 0
        return [int("".join(map(str, self.b[i:i + 8])), 2) for i in range(0, len(self.b), 8)]


def boundary(rng, kmax=200):
    """2^k - 2, 2^k - 1, 2^k, 2^k + 1 and random k-bit values, mostly for large k"""
    k = rng.choice([rng.randrange(1, 12), rng.randrange(30, 70), rng.randrange(40, kmax + 1), rng.randrange(40, kmax + 1)])
    if kmax >= 200 and rng.random() < 0.08:
        # VC-2 puts no bound on exp-Golomb magnitudes: far beyond any machine word or "reasonable" cap
        k = rng.choice([255, 256, 257, 511, 512, 513, 514, 640, 1023, 1024, 1025, 2049, 4100])
    return max(0, rng.choice([(1 << k) - 2, (1 << k) - 1, 1 << k, (1 << k) + 1, rng.randrange(1 << (k - 1), 1 << k)]))


def pack_unit(code, body, prev):
    return parse_info_bytes(code, 13 + len(body), prev) + body


def pack_sequence_header(rng, huge, profile=3, major=3, width=None, height=None):
    """sequence_header body; `huge`: every exp-Golomb field gets a boundary value"""
    def v(small):
        return boundary(rng) if huge else small
    p = Packer()
    p.uint(major if not huge or rng.random() < 0.7 else boundary(rng))
    p.uint(v(0))                       # minor_version
    p.uint(profile)
    p.uint(v(0))                       # level
    p.uint(v(0) if huge and rng.random() < 0.3 else 0)   # base_video_format (unknown -> custom)
    p.bit(1); p.uint(width if width is not None else v(8)); p.uint(height if height is not None else v(4))
    cdf = rng.random() < 0.8
    p.bit(cdf)
    if cdf:
        p.uint(0 if width is not None else rng.choice([0, 1, 2]))
    ss = rng.random() < 0.5
    p.bit(ss)
    if ss:
        p.uint(v(0) if huge and rng.random() < 0.3 else rng.choice([0, 1]))
    fr = rng.random() < 0.8
    p.bit(fr)
    if fr:
        if rng.random() < 0.7:
            p.uint(0); p.uint(v(25)); p.uint(v(1))
        else:
            p.uint(v(3) if huge else rng.randrange(1, 12))
    ar = rng.random() < 0.8
    p.bit(ar)
    if ar:
        if rng.random() < 0.7:
            p.uint(0); p.uint(v(1)); p.uint(v(1))
        else:
            p.uint(v(1) if huge else rng.randrange(1, 7))
    ca = rng.random() < 0.8
    p.bit(ca)
    if ca:
        for _ in range(4):
            p.uint(v(2))
    sr = rng.random() < 0.8
    p.bit(sr)
    if sr:
        if rng.random() < 0.7:
            p.uint(0)
            for _ in range(4):
                p.uint(v(128))
        else:
            p.uint(v(1) if huge else rng.randrange(1, 9))
    cs = rng.random() < 0.6
    p.bit(cs)
    if cs:
        idx = 0 if rng.random() < 0.6 else (v(1) if huge else rng.randrange(1, 8))
        p.uint(idx)
        if idx == 0:
            for _ in range(3):
                f = rng.random() < 0.7
                p.bit(f)
                if f:
                    p.uint(v(1) if huge and rng.random() < 0.5 else rng.randrange(0, 4))
    p.uint(0 if width is not None else (v(0) if huge and rng.random() < 0.3 else rng.choice([0, 1])))   # picture_coding_mode
    p.align()
    return p.bytes()


def pack_transform_parameters(rng, p, profile, huge, major=3, slices=None, prefix=0, scaler=1, sb=None):
    p.uint(rng.randrange(0, 7))                       # wavelet_index
    custom_qm = huge and rng.random() < 0.4
    depth = 0 if slices is not None else (rng.randrange(0, 3) if custom_qm or not huge else boundary(rng))
    p.uint(depth)
    depth_ho = 0
    if major >= 3:
        a = slices is None and rng.random() < 0.5
        p.bit(a)
        if a:
            p.uint(boundary(rng) if huge else rng.randrange(0, 7))
        b = slices is None and rng.random() < 0.5
        p.bit(b)
        if b:
            depth_ho = rng.randrange(0, 3) if custom_qm or not huge else boundary(rng)
            p.uint(depth_ho)
    if slices is not None:
        p.uint(slices[0]); p.uint(slices[1])
    else:
        p.uint(boundary(rng)); p.uint(boundary(rng))
    if profile == 0:
        if sb is not None:
            p.uint(sb); p.uint(1)
        else:
            p.uint(boundary(rng)); p.uint(boundary(rng))
    else:
        if slices is not None:
            p.uint(prefix); p.uint(scaler)
        else:
            p.uint(boundary(rng)); p.uint(boundary(rng))
    p.bit(custom_qm)
    if custom_qm:
        n = 1 + depth_ho + 3 * depth
        for _ in range(n):
            p.uint(boundary(rng))


def huge_streams(rng, n):
    """[(label, bytes)]: parseable streams whose exp-Golomb fields hold boundary values up to ~2^200"""
    out = []
    for i in range(n):
        kind = i % 4
        if kind == 0:
            # a sequence header full of huge values
            body = pack_sequence_header(rng, True, profile=rng.choice([0, 3, 3]))
            data = pack_unit(0x00, body, 0) + parse_info_bytes(0x10, 0, 13 + len(body))
            out.append(("huge:sequence_header", data))
        elif kind == 1:
            # a fragment carrying only (huge) transform parameters
            profile = rng.choice([0, 3])
            hdr = pack_sequence_header(rng, False, profile=profile)
            p = Packer()
            p.nbits(32, rng.randrange(1 << 32)); p.nbits(16, rng.randrange(1 << 16)); p.nbits(16, 0)
            pack_transform_parameters(rng, p, profile, True)
            p.align()
            frag = p.bytes()
            data = pack_unit(0x00, hdr, 0) + pack_unit(0xCC if profile == 0 else 0xEC, frag, 13 + len(hdr))
            data += parse_info_bytes(0x10, 0, 13 + len(frag))
            out.append(("huge:fragment_transform_parameters", data))
        elif kind == 2:
            # an HQ picture, 2x1 pixels, one slice, huge coefficients
            scaler = rng.choice([1, 2, 3])
            prefix = rng.choice([0, 0, 2])
            hdr = pack_sequence_header(rng, False, profile=3, width=2, height=1)
            p = Packer()
            p.nbits(32, rng.randrange(1 << 32))
            pack_transform_parameters(rng, p, 3, False, slices=(1, 1), prefix=prefix, scaler=scaler)
            p.align()
            for _ in range(prefix):
                p.nbits(8, rng.randrange(256))
            p.nbits(8, rng.randrange(256))            # qindex
            for _comp in range(3):
                c = Packer()
                for _ in range(2):
                    c.sint(boundary(rng) * rng.choice([1, -1]))
                for _ in range(rng.choice([0, 0, 3, 9])):
                    c.bit(rng.random() < 0.5)
                while len(c.b) % (8 * scaler):
                    c.bit(rng.random() < 0.5)
                ln = len(c.b) // (8 * scaler)
                if ln > 255:
                    c.b = c.b[: 255 * 8 * scaler]
                    ln = 255
                p.nbits(8, ln)
                p.b.extend(c.b)
            pic = p.bytes()
            data = pack_unit(0x00, hdr, 0) + pack_unit(0xE8, pic, 13 + len(hdr)) + parse_info_bytes(0x10, 0, 13 + len(pic))
            out.append(("huge:hq_coefficients", data))
        else:
            # an LD picture, 2x1 pixels, one slice of sb bytes, huge coefficients
            sb = rng.choice([40, 120, 250])
            hdr = pack_sequence_header(rng, False, profile=0, width=2, height=1)
            p = Packer()
            p.nbits(32, rng.randrange(1 << 32))
            pack_transform_parameters(rng, p, 0, False, slices=(1, 1), sb=sb)
            p.align()
            length_bits = (8 * sb - 7 - 1).bit_length()
            y = Packer()
            for _ in range(2):
                y.sint(boundary(rng, 8 * sb // 8) * rng.choice([1, -1]))
            for _ in range(rng.choice([0, 5])):
                y.bit(rng.random() < 0.5)
            left = 8 * sb - 7 - length_bits
            ybits = y.b[:left]
            p.nbits(7, rng.randrange(128))
            p.nbits(length_bits, len(ybits) if rng.random() < 0.8 else min((1 << length_bits) - 1, len(ybits) + left))
            p.b.extend(ybits)
            c = Packer()
            for _ in range(4):
                c.sint(boundary(rng, 8 * sb // 8) * rng.choice([1, -1]))
            cb = (c.b + [rng.randrange(2) for _ in range(left)])[: left - len(ybits)]
            p.b.extend(cb)
            assert len(p.b) % 8 == 0
            pic = p.bytes()
            data = pack_unit(0x00, hdr, 0) + pack_unit(0xC8, pic, 13 + len(hdr)) + parse_info_bytes(0x10, 0, 13 + len(pic))
            out.append(("huge:ld_coefficients", data))
    return out


# --------------------------------------------------------------------------------------------
# mutants
# --------------------------------------------------------------------------------------------
def int_leaves(I, node, path=()):
    out = []
    if isinstance(node, dict):
        for k, v in node.items():
            if isinstance(k, str) and k.startswith("_"):
                continue
            out.extend(int_leaves(I, v, path + (k,)))
    elif isinstance(node, list):
        for i, v in enumerate(node):
            out.extend(int_leaves(I, v, path + (i,)))
    elif isinstance(node, (bool, int)):
        out.append(path)
    return out


def field_mutant(I, rng, ctx):
    """change one integer/bool value of a (deep copy of a) description; returns (description, what)"""
    c = copy.deepcopy(ctx)
    paths = int_leaves(I, c)
    if not paths:
        return None, None
    # prefer header-ish fields over the mass of coefficients
    hdr = [p for p in paths if not any(isinstance(x, int) for x in p[-1:])]
    p = rng.choice(hdr if hdr and rng.random() < 0.8 else paths)
    node = c
    for x in p[:-1]:
        node = node[x]
    old = node[p[-1]]
    if isinstance(old, bool):
        new = not old
    else:
        new = rng.choice([0, 1, old + 1, max(0, old - 1), old ^ 1, 255, 99, 7, 12, 13, 1 << rng.randrange(0, 8), old * 2 + 1])
    node[p[-1]] = new
    return c, "%s: %r -> %r" % ("/".join(str(x) for x in p), old, new)


def bit_mutant(rng, data):
    d = bytearray(data)
    kind = rng.randrange(5)
    if kind <= 1 and d:
        for _ in range(rng.randrange(1, 4)):
            i = rng.randrange(len(d))
            d[i] ^= 1 << rng.randrange(8)
        return bytes(d), "bitflip"
    if kind == 2 and d:
        i = rng.randrange(len(d))
        d[i] = rng.randrange(256)
        return bytes(d), "byte"
    if kind == 3 and len(d) > 13:
        return bytes(d[: rng.randrange(13, len(d))]), "truncate"
    return bytes(d) + bytes(bytearray(parse_info_bytes(rng.choice([0x10, 0x30, 0x20, 0x00]), rng.choice([0, 13, 14]), 0))) + bytes(bytearray(rng.randrange(256) for _ in range(rng.randrange(0, 3)))), "append"


# --------------------------------------------------------------------------------------------
# the property on one byte string
# --------------------------------------------------------------------------------------------
def small_offset_pad_aux(I, ctx):
    """data units of the description that are padding/auxiliary data with next_parse_offset < 13"""
    hits = []
    try:
        for si, seq in enumerate(ctx.get("sequences", [])):
            for ui, du in enumerate(seq.get("data_units", [])):
                if ("padding" in du or "auxiliary_data" in du) and du["parse_info"]["next_parse_offset"] < 13:
                    hits.append((si, ui, du["parse_info"]["next_parse_offset"]))
    except Exception:
        pass
    return hits


def check_bytes(I, ctx, data, label):
    """returns 'unparseable' | 'ok' | 'violation'"""
    try:
        with time_limit(3):
            c1 = des(I, data)
            snapshot = copy.deepcopy(c1)
    except Exception:
        return "unparseable"
    inp = {"bytes_hex": bytes(data).hex(), "origin": label}
    try:
        with time_limit(20):
            out, c_ser = ser(I, c1)
    except TooSlow:
        return "unparseable"
    except Exception as e:
        hits = small_offset_pad_aux(I, snapshot)
        if type(e).__name__ == "OutOfRangeError" and hits:
            ctx.violation("vc2-padding-aux-negative-length", inp,
                          "a padding/auxiliary-data unit with next_parse_offset < 13 deserialises (negative byte count reads nothing) "
                          "but serialising the resulting description raises OutOfRangeError: %s (units %r)" % (e, hits[:3]),
                          observed="%s: %s" % (type(e).__name__, e), expected="the original %d bytes" % len(data))
        else:
            ctx.violation("des-ser-raises-%s" % type(e).__name__, inp,
                          "serialising the description of a stream that deserialised completely raises %s: %s" % (type(e).__name__, e),
                          observed="%s: %s" % (type(e).__name__, e), expected="the original %d bytes" % len(data))
        return "violation"
    if bytes(out) != bytes(data):
        ctx.violation("des-ser-bytes-differ", inp, "deserialise then serialise does not reproduce the bytes (first difference at byte %d)" % next(
            (i for i, (a, b) in enumerate(zip(out, data)) if a != b), min(len(out), len(data))),
            observed=bytes(out).hex(), expected=bytes(data).hex())
        return "violation"
    try:
        c2 = des(I, out)
    except Exception as e:
        ctx.violation("re-deserialise-fails", inp, "the re-serialised stream does not deserialise: %r" % (e,))
        return "violation"
    if c2 != snapshot:
        ctx.violation("re-deserialised-description-differs", inp, "deserialising the re-serialised stream yields a different description")
        return "violation"
    return "ok"


# --------------------------------------------------------------------------------------------
# tie C: parse_info + padding/auxiliary data unit as a Model/SerDes.v program
# --------------------------------------------------------------------------------------------
def unit_impl(I, data, clamp_expected):
    """real parse_info + padding on `data` with the real Deserialiser, then the real Serialiser on the result.
    -> (des_obs, ser_obs) in the vocabulary of Corr/C06.v"""
    bs, vc2 = I["bs"], I["vc2"]

    def prog(sd):
        state = I["State"]()
        with sd.subcontext("parse_info"):
            vc2.parse_info(sd, state)
        with sd.subcontext("padding"):
            vc2.padding(sd, state)

    r = bs.BitstreamReader(BytesIO(bytes(bytearray(data))))
    d = bs.Deserialiser(r)
    try:
        prog(d)
        d.verify_complete()
    except Exception as e:
        return ("err", ERR.get(type(e).__name__, 100)), None
    pi, pad = d.context["parse_info"], d.context["padding"]
    dobs = ("ok", bs.to_bit_offset(*r.tell()), [pi["parse_info_prefix"], pi["parse_code"], pi["next_parse_offset"], pi["previous_parse_offset"]],
            list(bytearray(pad["bytes"])))
    f = BytesIO()
    w = bs.BitstreamWriter(f)
    s = bs.Serialiser(w, copy.deepcopy(d.context))
    try:
        prog(s)
        s.verify_complete()
        w.flush()
        sobs = ("ok", list(bytearray(f.getvalue())))
    except Exception as e:
        sobs = ("err", ERR.get(type(e).__name__, 100))
    return dobs, sobs


# --------------------------------------------------------------------------------------------
# tie C, continued: more vc2.py descriptions as Model/SerDesVC2.v program terms
# (numbers shared with the Coq file)
# --------------------------------------------------------------------------------------------
NAMES = {
    "parse_parameters": 100, "major_version": 101, "minor_version": 102, "profile": 103, "level": 104,
    "base_video_format": 105, "video_parameters": 106, "picture_coding_mode": 107, "frame_size": 108,
    "custom_dimensions_flag": 109, "frame_width": 110, "frame_height": 111, "color_diff_sampling_format": 112,
    "custom_color_diff_format_flag": 113, "color_diff_format_index": 114, "scan_format": 115,
    "custom_scan_format_flag": 116, "source_sampling": 117, "frame_rate": 118, "custom_frame_rate_flag": 119,
    "index": 120, "frame_rate_numer": 121, "frame_rate_denom": 122, "pixel_aspect_ratio": 123,
    "custom_pixel_aspect_ratio_flag": 124, "pixel_aspect_ratio_numer": 125, "pixel_aspect_ratio_denom": 126,
    "clean_area": 127, "custom_clean_area_flag": 128, "clean_width": 129, "clean_height": 130, "left_offset": 131,
    "top_offset": 132, "signal_range": 133, "custom_signal_range_flag": 134, "luma_offset": 135, "luma_excursion": 136,
    "color_diff_offset": 137, "color_diff_excursion": 138, "color_spec": 139, "custom_color_spec_flag": 140,
    "color_primaries": 141, "custom_color_primaries_flag": 142, "color_matrix": 143, "custom_color_matrix_flag": 144,
    "transfer_function": 145, "custom_transfer_function_flag": 146,
    "prefix_bytes": 150, "qindex": 151, "_sx": 152, "_sy": 153, "y_transform": 154, "c1_transform": 155,
    "c2_transform": 156, "slice_y_length": 157, "slice_c1_length": 158, "slice_c2_length": 159,
    "y_block_padding": 160, "c1_block_padding": 161, "c2_block_padding": 162, "c_transform": 163, "c_block_padding": 164,
    "picture_number": 170, "fragment_data_length": 171, "fragment_slice_count": 172, "fragment_x_offset": 173,
    "fragment_y_offset": 174,
    # stream level (Model/SerDesStream.v)
    "sequences": 200, "data_units": 201, "_state": 202, "sequence_header": 203, "auxiliary_data": 204,
    "picture_parse": 205, "fragment_parse": 206, "parse_info": 10, "padding": 11, "bytes": 6,
}
NAMES_BY_TYPE = {
    "ParseInfo": {"padding": 0, "_offset": 1, "parse_info_prefix": 2, "parse_code": 3, "next_parse_offset": 4,
                  "previous_parse_offset": 5},
}
TYPE_NAMES = {
    "dict": 0, "SequenceHeader": 10, "ParseParameters": 11, "SourceParameters": 12, "FrameSize": 13,
    "ColorDiffSamplingFormat": 14, "ScanFormat": 15, "FrameRate": 16, "PixelAspectRatio": 17, "CleanArea": 18,
    "SignalRange": 19, "ColorSpec": 20, "ColorPrimaries": 21, "ColorMatrix": 22, "TransferFunction": 23,
    "HQSlice": 30, "LDSlice": 31, "FragmentHeader": 32,
    "Stream": 40, "Sequence": 41, "DataUnit": 42, "ParseInfo": 1, "Padding": 2, "AuxiliaryData": 3,
}


def vtree(I, o):
    """canonical value syntax of Corr/C21.v for a vc2.py description"""
    if isinstance(o, bool):
        return ["B", bool(o)]
    if isinstance(o, int):
        return ["I", int(o)]
    if isinstance(o, I["bitarray"]):
        return ["Bits", [int(b) for b in o.tolist()]]
    if isinstance(o, (bytes, bytearray)):
        return ["Bytes", list(bytearray(o))]
    if isinstance(o, list):
        return ["L", [vtree(I, x) for x in o]]
    if isinstance(o, dict):
        tn = type(o).__name__
        names = NAMES_BY_TYPE.get(tn, {})
        # "_state" (the live decoder State object) is modelled as the constant 0
        return ["C", TYPE_NAMES[tn], [[names.get(k, NAMES.get(k)), ["I", 0] if k == "_state" else vtree(I, v)] for k, v in o.items()]]
    raise ValueError("uncanonicalisable %r" % (o,))


def real_des_ser(I, driver, data):
    """the real function under a real Deserialiser, then (when that verified) under a real Serialiser
    on the resulting description -> (des_obs, ser_obs) in the vocabulary of Corr/C21.v [obs]"""
    import C21
    bs = I["bs"]
    r = bs.BitstreamReader(BytesIO(bytes(bytearray(data))))
    d = bs.Deserialiser(r)
    try:
        with time_limit(5):
            driver(d)
    except Exception as e:
        return ["err", ERR.get(type(e).__name__, 100)], ["err", -1]
    try:
        d.verify_complete()
        v = 0
    except Exception as e:
        v = ERR.get(type(e).__name__, 100)
    dobs = ["ok", [bs.to_bit_offset(*r.tell())], vtree(I, d.context), v]
    if v != 0:
        return dobs, ["err", -1]
    f = BytesIO()
    w = bs.BitstreamWriter(f)
    s = bs.Serialiser(w, copy.deepcopy(d.context))
    try:
        with time_limit(5):
            driver(s)
    except Exception as e:
        return dobs, ["err", ERR.get(type(e).__name__, 100)]
    try:
        s.verify_complete()
        v2 = 0
    except Exception as e:
        v2 = ERR.get(type(e).__name__, 100)
    w.flush()
    return dobs, ["ok", list(bytearray(f.getvalue())), vtree(I, s.context), v2]


def slice_state(I, rng):
    """a State with the fields the slice descriptions read"""
    st = I["State"]()
    st["dwt_depth"] = rng.choice([0, 1, 1, 2])
    st["dwt_depth_ho"] = rng.choice([0, 0, 1, 2])
    st["slices_x"], st["slices_y"] = rng.choice([(1, 1), (2, 1), (2, 2), (3, 2)])
    mult = 1 << (st["dwt_depth"] + st["dwt_depth_ho"])
    st["luma_width"] = mult * st["slices_x"] * rng.choice([1, 1, 2])
    st["luma_height"] = (1 << st["dwt_depth"]) * st["slices_y"] * rng.choice([1, 2])
    sub = rng.choice([(1, 1), (2, 1), (2, 2)])
    st["color_diff_width"] = max(1, st["luma_width"] // sub[0])
    st["color_diff_height"] = max(1, st["luma_height"] // sub[1])
    return st


def band_order(st):
    if st["dwt_depth_ho"] == 0:
        out = [(0, "LL")]
        for level in range(1, st["dwt_depth"] + 1):
            out += [(level, o) for o in ("HL", "LH", "HH")]
    else:
        out = [(0, "L")] + [(level, "H") for level in range(1, st["dwt_depth_ho"] + 1)]
        for level in range(st["dwt_depth_ho"] + 1, st["dwt_depth_ho"] + st["dwt_depth"] + 1):
            out += [(level, o) for o in ("HL", "LH", "HH")]
    return out


def coeff_count(I, st, comp, sx, sy):
    from vc2_conformance.pseudocode import slice_sizes as ss
    n = 0
    for level, _orient in band_order(st):
        n += max(0, ss.slice_bottom(st, sy, comp, level) - ss.slice_top(st, sy, comp, level)) * max(
            0, ss.slice_right(st, sx, comp, level) - ss.slice_left(st, sx, comp, level))
    return n


def program_cases(I, rng, n):
    """[(coq program term, driver, data, label)]"""
    vc2, State = I["vc2"], I["State"]
    from vc2_conformance.pseudocode.vc2_math import intlog2
    from vc2_conformance.pseudocode.slice_sizes import slice_bytes
    out = []
    for i in range(n):
        k = i % 4
        if k == 0:
            dens = rng.choice([0.2, 0.5, 0.8])
            data = [sum((rng.random() < dens) << b for b in range(8)) for _ in range(rng.choice([3, 12, 40]))]
            out.append(("sequence_header_prog", lambda sd: vc2.sequence_header(sd, State()), data, "sequence_header"))
        elif k == 1:
            data = [rng.randrange(256) for _ in range(rng.choice([12, 12, 12, 8, 5, 14]))]
            if rng.random() < 0.5:
                data[6:8] = [0, rng.choice([0, 0, 1, 3])]
            out.append(("fragment_header_prog", lambda sd: vc2.fragment_header(sd, State()), data[: max(1, len(data))], "fragment_header"))
        elif k == 2:
            st = slice_state(I, rng)
            st["slice_prefix_bytes"] = rng.choice([0, 0, 1, 3])
            st["slice_size_scaler"] = rng.choice([1, 1, 2, 3])
            sx, sy = rng.randrange(st["slices_x"]), rng.randrange(st["slices_y"])
            data = [rng.randrange(256) for _ in range(st["slice_prefix_bytes"] + 1)]
            for _ in range(3):
                ln = rng.choice([0, 0, 1, 2, 4])
                data += [ln] + [rng.choice([0xFF, 0xFF, rng.randrange(256)]) for _ in range(ln * st["slice_size_scaler"])]
            if rng.random() < 0.15:
                data = data[: rng.randrange(len(data))]
            term = "(hq_slice_prog %d %d %d %d %d %d %d)" % (
                st["slice_prefix_bytes"], st["slice_size_scaler"], coeff_count(I, st, "Y", sx, sy),
                coeff_count(I, st, "C1", sx, sy), coeff_count(I, st, "C2", sx, sy), sx, sy)
            out.append((term, lambda sd, st=st, sx=sx, sy=sy: vc2.hq_slice(sd, st.copy(), sx, sy), data, "hq_slice"))
        else:
            st = slice_state(I, rng)
            n_slices = st["slices_x"] * st["slices_y"]
            st["slice_bytes_denominator"] = rng.choice([1, 1, 2, 3])
            st["slice_bytes_numerator"] = st["slice_bytes_denominator"] * rng.choice([2, 3, 6, 12]) + rng.randrange(st["slice_bytes_denominator"])
            sx, sy = rng.randrange(st["slices_x"]), rng.randrange(st["slices_y"])
            sb = slice_bytes(st, sx, sy)
            data = [rng.choice([0xFF, rng.randrange(256), rng.randrange(256)]) for _ in range(sb + rng.choice([0, 0, 2]))]
            if rng.random() < 0.15:
                data = data[: rng.randrange(len(data))]
            term = "(ld_slice_prog %d %d %d %d %d %d)" % (
                sb, intlog2(8 * sb - 7), coeff_count(I, st, "Y", sx, sy), coeff_count(I, st, "C1", sx, sy), sx, sy)
            out.append((term, lambda sd, st=st, sx=sx, sy=sy: vc2.ld_slice(sd, st.copy(), sx, sy), data, "ld_slice"))
    return out


def stream_cases(rng, n):
    """hand-packed multi-unit, multi-sequence streams without picture/fragment units"""
    out = []
    other_codes = [0x11, 0x01, 0x40, 0x80, 0x31, 0x12, 0xFF & 0xF3, 0x50]
    for i in range(n):
        data, prev = [], 0
        for _seq in range(rng.choice([1, 1, 2, 3])):
            for _u in range(rng.choice([0, 1, 2, 4])):
                k = rng.random()
                if k < 0.3:
                    body, code = pack_sequence_header(rng, rng.random() < 0.2), 0x00
                elif k < 0.7:
                    body, code = [rng.randrange(256) for _ in range(rng.choice([0, 0, 1, 3, 9]))], rng.choice([0x30, 0x20, 0x21, 0x27])
                else:
                    body, code = [], rng.choice(other_codes)
                npo = 13 + len(body)
                if code in (0x30, 0x20, 0x21, 0x27) and rng.random() < 0.45:
                    npo = rng.choice([0, 1, 12, 13, max(0, npo - 1), max(0, npo - 2), npo + 1, npo + 5, npo + 40])
                elif rng.random() < 0.2:
                    npo = rng.choice([0, 5, npo + 3])
                data += parse_info_bytes(code, npo, prev if rng.random() < 0.8 else rng.randrange(64)) + body
                prev = 13 + len(body)
            if rng.random() < 0.9:
                data += parse_info_bytes(0x10, rng.choice([0, 0, 13]), prev)
                prev = 13
        r = rng.random()
        if r < 0.12:
            data += [rng.randrange(256) for _ in range(rng.randrange(1, 13))]       # trailing bytes
        elif r < 0.24 and data:
            data = data[: len(data) - rng.randrange(1, min(13, len(data)) + 1)]       # truncated last unit
        out.append(data)
    return out


def real_stream_des_ser(I, data):
    """-> (des_obs, ser_obs), or None when the stream leaves the modelled domain: it (mis)parses into a
    picture/fragment unit (those bodies are parameters of the model) or a padding/auxiliary unit announces
    a length the unary bit counter of the model cannot reasonably count"""
    seen = []

    def driver(sd):
        seen.append(sd)
        I["bs"].parse_stream(sd, I["State"]())
    try:
        r = real_des_ser(I, driver, data)
    except KeyError:
        return None        # a context type outside the modelled ones (picture/fragment bodies): outside the domain
    try:
        for seq in seen[0].context.get("sequences", []):
            for du in seq.get("data_units", []):
                pi = du.get("parse_info", {})
                code = pi.get("parse_code", 0x10)
                if (code & 0x8C) == 0x88 or (code & 0x0C) == 0x0C:
                    return None
                if ((code & 0xF8) == 0x20 or code == 0x30) and pi.get("next_parse_offset", 0) > 13 + len(data):
                    return None
    except Exception:
        return None
    return r


def cobs_d(o):
    if o[0] == "err":
        return "(UErr %s)" % cz(o[1])
    return "(UDes %s %s %s)" % (cz(o[1]), clist(o[2]), clist(o[3]))


def cobs_s(o):
    if o is None:
        return "UNone"
    if o[0] == "err":
        return "(UErr %s)" % cz(o[1])
    return "(USer %s)" % clist(o[1])


def bits_of(data, n):
    return [(data[i // 8] >> (7 - i % 8)) & 1 for i in range(n)]


def framework_oracle(ctx, rng, n):
    """C06_des_ser on the real Serialiser/Deserialiser for random programs of the covered class (no
    is_target_complete, no negative lengths): deserialise random bytes; when that succeeds and verifies,
    serialising the description must succeed, write exactly the consumed bits and end with the same description."""
    import C21
    J = C21.impl()
    done = ok = 0
    while done < n:
        done += 1
        prog, feats = C21.gen_program(rng, 0.005)
        if "is_target_complete" in feats or "negative-length" in feats:
            continue
        data = C21.random_bytes(rng, rng.choice([4, 12, 40, 64]))
        do, des = C21.run_des(J, prog, data)
        if do[0] != "ok" or do[3] != 0:
            ctx.count(1, bucket="framework/unparseable")
            continue
        nb, tree = do[1][0], do[2]
        inp = {"framework_prog": prog, "bytes": data}
        try:
            so, out, stree = C21.run_ser(J, prog, tree, {})
        except C21.OutOfDomain:
            continue
        ok += 1
        ctx.count(1, key=C21.count_ops(prog) >= 3 and ("fw", done) or None, bucket="framework/ok")
        if so[0] != "ok" or so[3] != 0:
            ctx.violation("framework-des-ser-fails", inp, "serialising the description a program deserialised fails", observed=so[:2] + so[3:], expected="ok")
        elif len(out) * 8 < nb or bits_of(out, nb) != bits_of(data, nb) or any(bits_of(out, len(out) * 8)[nb:]):
            ctx.violation("framework-des-ser-bits-differ", inp, "serialising the description a program deserialised does not reproduce the consumed bits",
                          observed=out, expected=data[: (nb + 7) // 8])
        elif stree != tree:
            ctx.violation("framework-des-ser-description-differs", inp, "the serialiser ended with a different description", observed=stree, expected=tree)
    ctx.note("framework oracle: %d random programs, %d parsed and re-serialised" % (done, ok))


def run(ctx):
    I = impl()
    rng = ctx.rng
    ctx.extra["rule"] = (
        "byte strings = real encoder output (profiles HQ/LD, fragments, 7x7 wavelets, depths, slice counts, lossless/lossy, 3 colour "
        "samplings, frames/fields, inserted padding/auxiliary units, 1-2 sequences), field-level mutants (one value of the deserialised "
        "description changed and re-serialised), bit-level mutants (bit flips, byte changes, truncation, appended units), hand-made "
        "parse_info/padding/auxiliary streams with next_parse_offset 0..20; a case is every byte string the real Deserialiser parses to "
        "completion (non-trivial; distinct by content); checks serialise(deserialise(b)) == b and re-deserialised description equality")
    from vlib import digest
    stats = {"unparseable": 0, "ok": 0, "violation": 0}

    def run_case(data, label):
        r = check_bytes(I, ctx, data, label)
        stats[r] += 1
        ctx.count(1, key=digest(bytes(data).hex()) if r != "unparseable" else None, bucket="%s/%s" % (label.split(":")[0], r))
        return r

    # ---- tie C: the data-unit description as a model program ---------------------------------
    cases = []
    for code in (0x30, 0x20, 0x10, 0xE8):
        for npo in list(range(0, 18)) + [40, 64]:  # (no huge lengths: the model counts bits in unary)
            body = [rng.randrange(256) for _ in range(rng.choice([0, 3, 8]))]
            data = parse_info_bytes(code, npo, rng.choice([0, 13])) + body
            dobs, sobs = unit_impl(I, data, None)
            cases.append("(%s, %s, %s)" % (clist(data), cobs_d(dobs), cobs_s(sobs)))
    repaired = unit_impl(I, parse_info_bytes(0x30, 5, 0), None)[1][0] == "ok"
    bad = ctx.coq_check_cases("unit", ["Model.SerDes", "Corr.C06"], "check_unit %s" % ("true" if repaired else "false"), cases, shard=100)
    if bad:
        ctx.obligation("corr:padding data-unit program agrees with vc2.py parse_info/padding", False, "corr-shard",
                       "cases %r differ (repaired=%s)" % (bad[:10], repaired))
    ctx.note("vc2.py padding/auxiliary_data length is %s" % ("clamped at 0 (repaired tree)" if repaired else "NOT clamped (negative byte counts reach write_bytes)"))

    # ---- tie C: sequence_header / fragment_header / hq_slice / ld_slice as model programs ------------
    import C21
    pcases, plabels = [], []
    for term, driver, data, label in program_cases(I, rng, ctx.pick(480, 6000)):
        dobs, sobs = real_des_ser(I, driver, data)
        pcases.append("(%s, %s, %s, %s)" % (term, clist(data), C21.cobs(dobs), C21.cobs(sobs)))
        plabels.append((label, term, data, dobs[0], sobs[0]))
        ctx.count(1, key=("prog", len(pcases)) if sobs[0] == "ok" else None, bucket="model-program/%s/%s" % (label, "des-" + dobs[0] + ("+ser-" + sobs[0] if dobs[0] == "ok" else "")))
        # the property on the implementation for these descriptions
        if dobs[0] == "ok" and dobs[3] == 0:
            nb = dobs[1][0]
            if sobs[0] != "ok" or sobs[3] != 0 or bits_of(sobs[1], nb) != bits_of(data, nb) or sobs[2] != dobs[2]:
                ctx.violation("vc2-%s-des-ser" % label, {"program": term, "bytes": data},
                              "deserialise then serialise of a %s does not reproduce the consumed bits / description" % label,
                              observed=sobs[:2], expected=data[: (nb + 7) // 8])
    bad = ctx.coq_check_cases("programs", ["Model.SerDes", "Model.SerDesVC2", "Corr.C21", "Corr.C06"], "check_prog", pcases, shard=40, timeout=900)
    for n_bad, i in enumerate(bad or []):
        diag = "(not evaluated)"
        if n_bad < 4:
            diag = ctx.coq_eval("progdiag_%d" % i, ["Model.SerDes", "Model.SerDesVC2", "Corr.C21", "Corr.C06"],
                                "model_prog %s %s" % (plabels[i][1], clist(plabels[i][2])))
        ctx.obligation("corr:%s program agrees with vc2.py (case %d)" % (plabels[i][0], i), False, "corr-shard",
                       "program %s data %r impl des=%s ser=%s; model: %s" % (
                           plabels[i][1], plabels[i][2], plabels[i][3], plabels[i][4], diag))

    # ---- tie C: the stream level (parse_stream / parse_sequence loops) as Model/SerDesStream.v ------
    scases, sdata = [], []
    for data in stream_cases(rng, ctx.pick(300, 3000)):
        r = real_stream_des_ser(I, data)
        if r is None:
            ctx.count(0, bucket="model-stream/outside-domain")
            continue
        dobs, sobs = r
        scases.append("(%s, %s, %s)" % (clist(data), C21.cobs(dobs), C21.cobs(sobs)))
        sdata.append((data, dobs[0], sobs[0]))
        ctx.count(1, key=("stream", len(scases)) if sobs[0] == "ok" else None,
                  bucket="model-stream/%s" % ("des-" + dobs[0] + ("+ser-" + sobs[0] if dobs[0] == "ok" else "")))
    bad = ctx.coq_check_cases("streams", ["Model.SerDes", "Model.SerDesVC2", "Model.SerDesStream", "Corr.C21", "Corr.C06"],
                              "check_stream", scases, shard=20, timeout=900)
    for n_bad, i in enumerate(bad or []):
        diag = "(not evaluated)"
        if n_bad < 3:
            diag = ctx.coq_eval("streamdiag_%d" % i, ["Model.SerDes", "Model.SerDesVC2", "Model.SerDesStream", "Corr.C21", "Corr.C06"],
                                "model_stream %s" % clist(sdata[i][0]))
        ctx.obligation("corr:stream model agrees with parse_stream (case %d)" % i, False, "corr-shard",
                       "bytes %s impl des=%s ser=%s; model: %s" % (bytes(bytearray(sdata[i][0])).hex(), sdata[i][1], sdata[i][2], diag))

    # ---- the framework on random description programs (statement of C06_des_ser on the implementation) ----
    framework_oracle(ctx, rng, ctx.pick(2500, 40000))
    # ---- exhaustive small-range sweep of the exp-Golomb / fixed-width primitives (shared with C20): every value a
    #      deserialised field can hold must be written back as the code it was read from
    try:
        from C20 import expgolomb_sweep
        n_sweep = 0
        for k, i, d, o, e in expgolomb_sweep():
            n_sweep += 1
            if n_sweep <= 5:
                ctx.violation("primitive-" + k, i, d, observed=o, expected=e)
        ctx.count(1, key=("primitive-sweep",), bucket="primitive-sweep")
    except ImportError as e:
        ctx.note("primitive sweep unavailable: %r" % (e,))

    # ---- hand-made streams -------------------------------------------------------------------
    for label, data in handmade(rng):
        run_case(bytes(bytearray(data)), "handmade:" + label)

    # ---- hand-packed streams with huge exp-Golomb values ---------------------------------------
    for label, data in huge_streams(rng, ctx.pick(240, 4000)):
        run_case(bytes(bytearray(data)), label)

    # ---- encoder output and mutants ------------------------------------------------------------
    nconf = ctx.pick(160, 1500)
    nmut = ctx.pick(14, 40)
    bases = 0
    for cf, kind, npics, seed in configurations(I, rng, nconf):
        try:
            data = encode(I, rng, cf, kind, npics, seed)
        except Exception as e:
            ctx.count(0, bucket="encoder-refused:%s" % type(e).__name__)
            continue
        bases += 1
        if bases <= 2:
            ctx.sample({"bytes": len(data), "profile": int(cf["profile"]), "wavelet": int(cf["wavelet_index"]), "dwt_depth": cf["dwt_depth"],
                        "dwt_depth_ho": cf["dwt_depth_ho"], "fragment_slice_count": cf["fragment_slice_count"]})
        if run_case(data, "encoder") != "ok":
            continue
        base_ctx = des(I, data)
        for _ in range(nmut):
            if rng.random() < 0.55:
                mc, what = field_mutant(I, rng, base_ctx)
                if mc is None:
                    continue
                try:
                    with time_limit(3):
                        mdata, _ = ser(I, mc)
                except Exception:
                    ctx.count(0, bucket="field-mutant/unserialisable")
                    continue
                if rng.random() < 0.2:
                    mdata, _w = bit_mutant(rng, mdata)
                run_case(mdata, "field-mutant:" + what.split(":")[0].split("/")[-1])
            else:
                mdata, what = bit_mutant(rng, data)
                run_case(mdata, "bit-mutant:" + what)
    ctx.note("base streams: %d; parsed to completion: %d; unparseable mutants: %d; violations: %d" % (bases, stats["ok"], stats["unparseable"], stats["violation"]))
    ctx.trusted.append("C06: the sequence-header, picture and slice descriptions of vc2.py are exercised on the implementation only "
                       "(no model program); the model tie covers parse_info + padding/auxiliary_data")


def replay(ctx, data):
    if "sweep" in data["input"]:       # primitive sweep shared with C20
        import C20
        return C20.replay(ctx, data)
    I = impl()
    if "framework_prog" in data["input"]:
        import C21
        J = C21.impl()
        prog, raw = data["input"]["framework_prog"], data["input"]["bytes"]
        do, _ = C21.run_des(J, prog, raw)
        print("program:", prog)
        print("deserialiser:", do)
        if do[0] == "ok":
            so, out, stree = C21.run_ser(J, prog, do[2], {})
            print("serialiser:", so)
            bad = so[0] != "ok" or so[3] != 0 or bits_of(out, do[1][0]) != bits_of(raw, do[1][0]) or stree != do[2]
            print("property violated on this input:", bad)
            return 1 if bad else 0
        return 0
    b = bytes.fromhex(data["input"]["bytes_hex"])
    print("replaying", data.get("key"), "origin", data["input"].get("origin"), "%d bytes" % len(b))
    r = check_bytes(I, ctx, b, "replay")
    for v in ctx.violations:
        print("VIOLATED:", v["key"], "-", v["description"])
    print("result:", r)
    return 1 if r == "violation" else 0
