"""C22 harness: synthetic picture generators (picture_generators.py, color_conversion.py).

Oracle on the implementation (the main part: the float pipeline is not modelled): every generator on
regular formats -> at least one picture, an even number for fields, numbered 0.., every component
exactly the size dimensions_and_depths computes, every sample a Python int within the depth.
Correspondence (tie C) for the modelled tail: the clip of float_to_int_clipped on arbitrary floats
(nan/inf/huge included), progressive_to_pictures on labelled lines, picture counts / numbering /
plane sizes of real generator runs vs Model/PicGen.v.

Domain: regular formats (frame size a multiple of the subsampling and, for interlaced sources or field
coding, of twice the vertical subsampling), excursions >= 1, component depths 1..63 bits in the main
sweep; a dedicated probe covers >= 64 bits.
"""
import json
import math
import random
import warnings

from vlib import cz, cbool, clist

GEN_NAMES = ["moving_sprite", "static_sprite", "linear_ramps", "mid_gray", "white_noise"]
COMPONENTS = ["Y", "C1", "C2"]
MODELLED = ["frame_width", "frame_height", "color_diff_format_index", "luma_excursion", "color_diff_excursion"]


def impl():
    import numpy as np
    import vc2_data_tables as t
    from vc2_conformance import picture_generators as pg
    from vc2_conformance import color_conversion as cc
    from vc2_conformance.dimensions_and_depths import compute_dimensions_and_depths as cdd
    from vc2_conformance.pseudocode.video_parameters import VideoParameters, set_source_defaults
    return np, t, pg, cc, cdd, VideoParameters, set_source_defaults


# ---- formats -------------------------------------------------------------------------------

def excursion_for_depth(rng, depth):
    lo, hi = 1 << (depth - 1), (1 << depth) - 1
    return rng.choice([hi, lo, rng.randint(lo, hi), rng.randint(lo, hi)])


def gen_spec(rng, max_w=64, max_h=48, depth_hi=63):
    """A regular format as a small JSON spec."""
    np, t, pg, cc, cdd, VideoParameters, ssd = impl()
    cdf = rng.randrange(3)
    pcm = rng.randrange(2)
    ss = rng.randrange(2)
    xs = 1 if cdf == 0 else 2
    ys = (2 if cdf == 2 else 1) * (2 if (pcm == 1 or ss == 1) else 1)
    w = xs * rng.choice([1, 2, rng.randint(1, max(1, max_w // xs)), rng.randint(1, 12)])
    h = ys * rng.choice([1, 2, rng.randint(1, max(1, max_h // ys)), rng.randint(1, 8)])
    kind = rng.randrange(6)
    spec = {"base": rng.randrange(len(list(t.BaseVideoFormats))), "w": w, "h": h, "cdf": cdf, "pcm": pcm, "ss": ss,
            "tff": rng.randrange(2), "range": None, "par": None, "colour": None,
            "num_frames": rng.randint(1, 3), "seed": rng.randrange(1000)}
    if kind == 0:
        pass  # the base format's own signal range
    elif kind == 1:
        spec["range"] = ["preset", rng.randrange(1, len(t.PRESET_SIGNAL_RANGES) + 1)]
    else:
        dl = rng.choice([rng.randint(1, depth_hi), rng.randint(1, 16), rng.choice([8, 10, 12, 16, 17, 24, 31, 32, 33, 53, 54, 62, 63])])
        dl = min(dl, depth_hi)
        dc = rng.choice([dl, min(depth_hi, rng.randint(1, 63)), min(depth_hi, rng.randint(1, 20))])
        le, ce = excursion_for_depth(rng, dl), excursion_for_depth(rng, dc)
        lo = rng.choice([0, 16, 64, le // 16, rng.randint(0, le), le, le + 1, 2 * le + 5, rng.randrange(1 << 40)])
        co = rng.choice([0, 128, (ce + 1) // 2, rng.randint(0, ce), ce, 3 * ce, rng.randrange(1 << 40)])
        spec["range"] = ["custom", str(lo), str(le), str(co), str(ce)]
    if rng.random() < 0.5:
        spec["par"] = rng.randrange(1, len(t.PRESET_PIXEL_ASPECT_RATIOS) + 1)
    if rng.random() < 0.8:
        spec["colour"] = [rng.randrange(len(list(t.PresetColorPrimaries))), rng.randrange(len(list(t.PresetColorMatrices))),
                          rng.randrange(len(list(t.PresetTransferFunctions)))]
    return spec


def build_vp(spec):
    np, t, pg, cc, cdd, VideoParameters, ssd = impl()
    vp = ssd(list(t.BaseVideoFormats)[spec["base"]])
    vp["frame_width"] = spec["w"]
    vp["frame_height"] = spec["h"]
    vp["clean_width"] = spec["w"]
    vp["clean_height"] = spec["h"]
    vp["color_diff_format_index"] = t.ColorDifferenceSamplingFormats(spec["cdf"])
    vp["source_sampling"] = t.SourceSamplingModes(spec["ss"])
    vp["top_field_first"] = bool(spec["tff"])
    r = spec.get("range")
    if r and r[0] == "preset":
        p = t.PRESET_SIGNAL_RANGES[t.PresetSignalRanges(r[1])]
        vp["luma_offset"], vp["luma_excursion"] = p.luma_offset, p.luma_excursion
        vp["color_diff_offset"], vp["color_diff_excursion"] = p.color_diff_offset, p.color_diff_excursion
    elif r:
        vp["luma_offset"], vp["luma_excursion"], vp["color_diff_offset"], vp["color_diff_excursion"] = [int(x) for x in r[1:]]
    if spec.get("par"):
        p = t.PRESET_PIXEL_ASPECT_RATIOS[t.PresetPixelAspectRatios(spec["par"])]
        vp["pixel_aspect_ratio_numer"], vp["pixel_aspect_ratio_denom"] = p.numerator, p.denominator
    if spec.get("par_custom"):
        vp["pixel_aspect_ratio_numer"], vp["pixel_aspect_ratio_denom"] = spec["par_custom"]
    if spec.get("colour"):
        vp["color_primaries_index"] = list(t.PresetColorPrimaries)[spec["colour"][0]]
        vp["color_matrix_index"] = list(t.PresetColorMatrices)[spec["colour"][1]]
        vp["transfer_function_index"] = list(t.PresetTransferFunctions)[spec["colour"][2]]
    return vp, t.PictureCodingModes(spec["pcm"])


def run_generator(name, vp, pcm, spec):
    np, t, pg, cc, cdd, VideoParameters, ssd = impl()
    g = getattr(pg, name)
    if name == "moving_sprite":
        return list(g(vp, pcm, num_frames=spec["num_frames"]))
    if name == "white_noise":
        return list(g(vp, pcm, num_frames=spec["num_frames"], seed=spec["seed"]))
    return list(g(vp, pcm))


def expected_dims(vp, pcm):
    """Component (width, height, depth_bits) computed HERE from the video parameters and coding mode, independent of the
    implementation's compute_dimensions_and_depths: (11.6.2) subsampling/field rules, depth = bit_length(excursion)."""
    w, h = int(vp["frame_width"]), int(vp["frame_height"])
    cw, ch = w, h
    cdf = int(vp["color_diff_format_index"])
    if cdf == 1:
        cw = w // 2
    elif cdf == 2:
        cw, ch = w // 2, h // 2
    if int(pcm) == 1:
        h, ch = h // 2, ch // 2
    ld, cd = int(vp["luma_excursion"]).bit_length(), int(vp["color_diff_excursion"]).bit_length()
    return {"Y": (w, h, ld, None), "C1": (cw, ch, cd, None), "C2": (cw, ch, cd, None)}


HISTORY = []     # cases already run by this process: a failure may depend on them (stale per-process state)


def vin(name, spec):
    me = (spec["w"], spec["h"], spec["cdf"], spec["pcm"], spec["ss"], json.dumps(spec["range"]))
    preds = []
    for i, h in enumerate(HISTORY):
        x = h["spec"]
        if x is spec:
            continue
        sim = sum(1 for a, b in zip((x["w"], x["h"], x["cdf"], x["pcm"], x["ss"], json.dumps(x["range"])), me) if a == b)
        if sim >= 4 or (h["generator"] == name and sim >= 3):
            preds.append((sim, i, h))
    preds = sorted(sorted(preds, key=lambda p: (-p[0], -p[1]))[:12], key=lambda p: p[1])
    return {"sequence": [h for (_, _, h) in preds] + [{"generator": name, "spec": spec}]}


def well_formed(pics, vp, pcm):
    """The property, stated on the generator's output.  Returns a list of (class, detail)."""
    dd = expected_dims(vp, pcm)
    errs = []
    if len(pics) < 1:
        errs.append(("no-pictures", "0 pictures"))
    if int(pcm) == 1 and len(pics) % 2:
        errs.append(("odd-field-count", "%d fields" % len(pics)))
    nums = [p.get("pic_num") for p in pics]
    if nums != list(range(len(pics))) or any(type(n) is not int for n in nums):
        errs.append(("numbering", "picture numbers %r" % (nums[:8],)))
    for i, p in enumerate(pics):
        for c in COMPONENTS:
            w, h, depth, _ = dd[c]
            a = p[c]
            if not isinstance(a, list) or len(a) != h or any((not isinstance(r, list)) or len(r) != w for r in a):
                shape = (len(a), sorted(set(len(r) for r in a))[:3]) if isinstance(a, list) and all(isinstance(r, list) for r in a) else type(a).__name__
                errs.append(("component-size", "picture %d %s: rows x cols %r, coded %dx%d (w x h)" % (i, c, shape, w, h)))
                continue
            for y, r in enumerate(a):
                for x, v in enumerate(r):
                    if type(v) is not int:
                        errs.append(("sample-not-int", "picture %d %s[%d][%d] = %r (%s)" % (i, c, y, x, v, type(v).__name__)))
                        break
                    if not (0 <= v < (1 << depth)):
                        errs.append(("sample-out-of-range", "picture %d %s[%d][%d] = %d, depth %d" % (i, c, y, x, v, depth)))
                        break
                else:
                    continue
                break
    seen, out = set(), []
    for k, d in errs:
        if k not in seen:
            seen.add(k)
            out.append((k, d))
    return out


def cformat(vp, VideoParameters):
    others = [int(vp[k]) for k in VideoParameters.entry_objs if k not in MODELLED]
    return "(mkFormat %s %s %s %s %s %s)" % (
        cz(vp["frame_width"]), cz(vp["frame_height"]), cz(int(vp["color_diff_format_index"])),
        cz(vp["luma_excursion"]), cz(vp["color_diff_excursion"]), clist(others))


def cll(xss):
    return "[" + "; ".join(clist(xs) for xs in xss) + "]"


def generator_case(ctx, name, spec, report=True):
    """Run one generator on one format; returns (coq literal or None, failed)."""
    np, t, pg, cc, cdd, VideoParameters, ssd = impl()
    vp, pcm = build_vp(spec)
    inp = vin(name, spec)
    HISTORY.append({"generator": name, "spec": spec})
    try:
        with warnings.catch_warnings():
            warnings.simplefilter("ignore")
            pics = run_generator(name, vp, pcm, spec)
    except Exception as e:
        if report:
            ctx.violation("%s-raises-%s" % (name.replace("_", "-"), type(e).__name__), inp, "generator raised %r" % (e,), observed=repr(e),
                          expected="well-formed pictures")
        return None, True
    errs = well_formed(pics, vp, pcm)
    for k, d in errs:
        if report:
            ctx.violation("%s-%s" % (name.replace("_", "-"), k), inp, d, observed=d, expected="well-formed pictures")
    if errs:
        return None, True
    dd = cdd(vp, pcm)
    shapes = [[len(pics[0]["Y"][0]), len(pics[0]["Y"])], [len(pics[0]["C1"][0]), len(pics[0]["C1"])]]
    lit = "(%d, %s, %s, %s, %s, %s, %s, %s)" % (
        GEN_NAMES.index(name), cformat(vp, VideoParameters), cz(int(pcm)), cbool(spec["ss"] == 1),
        cz(spec["num_frames"]), clist([p["pic_num"] for p in pics]), cll(shapes), cll([list(dd[c]) for c in COMPONENTS]))
    return lit, False


def depth_of(e):
    return int(e).bit_length()


def bucket_of(vp):
    d = depth_of(vp["luma_excursion"])
    return "depth 1-8" if d <= 8 else "depth 9-16" if d <= 16 else "depth 17-32" if d <= 32 else "depth 33-63" if d <= 63 else "depth >=64"


def run(ctx):
    np, t, pg, cc, cdd, VideoParameters, ssd = impl()
    rng = ctx.rng
    ctx.extra["rule"] = (
        "generator cases: every one of moving_sprite/static_sprite/linear_ramps/mid_gray/white_noise on random REGULAR formats: all 23 base "
        "video formats, frame sizes 1..64 x 1..48 multiples of the subsampling (x2 vertically for interlaced/field coding) plus a few larger "
        "(cost: 200x100 0.6 s, 640x480 19 s for moving_sprite, hence bounded), 3 subsamplings x 2 scan x 2 coding modes x tff, signal "
        "ranges: base default / the presets / custom with luma and colour-difference depths 1..63 bits (excursions 2^d-1, 2^(d-1), random "
        "non-powers of two) and offsets 0 .. beyond the excursion .. 2^40, preset pixel aspect ratios, all primaries x matrices x transfer "
        "functions at random; num_frames 1..3.  Non-trivial = distinct (generator, size, subsampling, modes, depths, colour triple).  "
        "Sequences: families of a base format and siblings differing in exactly one of luma/colour-difference excursion, offsets, width, height, subsampling, coding mode, scan, run one after the other in this process (stale per-process state); a violation's input is the sequence of similar earlier cases + the failing one.  Expected sizes/depths are computed by the harness itself.  Oracle: >= 1 picture, even count for fields, pic_num 0..n-1, each component exactly the coded size, every sample a Python int in "
        "[0, 2^depth).  Correspondence: counts/numbering/sizes of those runs, clip of float_to_int_clipped on special floats, "
        "progressive_to_pictures on labelled lines.  Separate probe at 64/65-bit depths.")
    n_formats = ctx.pick(160, 3000)
    specs = []
    for i in range(n_formats):
        big = (i % 25 == 24)
        specs.append(gen_spec(rng, max_w=200 if big else 64, max_h=100 if big else 48))
    # make sure each base format, each colour triple component and each preset range occur
    for b in range(len(list(t.BaseVideoFormats))):
        s = gen_spec(rng, max_w=24, max_h=16)
        s["base"], s["range"], s["colour"], s["par"] = b, None, None, None
        specs.append(s)
    lits, metas = [], []
    import time, os
    t0 = time.time()
    # corpus of past/interesting cases first
    cdir = os.path.join(os.path.dirname(os.path.dirname(os.path.dirname(os.path.abspath(__file__)))), "corpus", "C22")
    for n in (sorted(os.listdir(cdir)) if os.path.isdir(cdir) else []):
        if n.endswith(".json"):
            try:
                c = json.load(open(os.path.join(cdir, n)))
                lit, failed = generator_case(ctx, c["generator"], c["spec"])
                ctx.count(1, key=("corpus", n), bucket="corpus")
                if lit is not None:
                    lits.append(lit)
                    metas.append({"generator": c["generator"], "spec": c["spec"]})
            except Exception as e:
                ctx.note("corpus file %s: %r" % (n, e))
    # sequences of sibling formats (share everything but one parameter) through this one process: stale per-process state
    fam = []
    for _ in range(ctx.pick(8, 120)):
        base = gen_spec(rng, max_w=8, max_h=8)
        dl, dc = rng.randint(1, 40), rng.randint(1, 40)
        base.update({"w": rng.choice([2, 4]), "h": 4, "colour": None, "par": None,
                     "range": ["custom", str(rng.choice([0, 16])), str(excursion_for_depth(rng, dl)), str(rng.choice([0, 128])), str(excursion_for_depth(rng, dc))]})
        sibs = [base]
        for idx, d in ((2, dl), (4, dc)):
            for nd in (min(63, d + rng.choice([1, 3, 8, rng.randint(1, 16)])), max(1, d - rng.choice([1, 3, 8]))):
                if nd != d:
                    r = list(base["range"])
                    r[idx] = str(excursion_for_depth(rng, nd))
                    sibs.append(dict(base, range=r))
        for idx in (1, 3):
            r = list(base["range"])
            r[idx] = str(int(r[idx]) + rng.choice([1, 100]))
            sibs.append(dict(base, range=r))
        sibs.append(dict(base, w=base["w"] + 2))
        sibs.append(dict(base, h=base["h"] + 4))
        sibs.extend(dict(base, cdf=c) for c in (0, 1, 2) if c != base["cdf"])
        sibs.append(dict(base, pcm=1 - base["pcm"]))
        sibs.append(dict(base, ss=1 - base["ss"]))
        rng.shuffle(sibs)
        fam.extend(sibs)
    for spec in fam:
        for name in ("mid_gray", "white_noise", "linear_ramps"):
            lit, failed = generator_case(ctx, name, spec)
            ctx.count(1, key=("family", name, spec["w"], spec["h"], spec["cdf"], spec["pcm"], spec["ss"], json.dumps(spec["range"])), bucket="family " + name)
            if lit is not None:
                lits.append(lit)
                metas.append({"generator": name, "spec": spec})
    for k, spec in enumerate(specs):
        names = GEN_NAMES
        for name in dict.fromkeys(names):
            lit, failed = generator_case(ctx, name, spec)
            vp, pcm = build_vp(spec)
            ctx.count(1, key=(name, spec["w"], spec["h"], spec["cdf"], spec["pcm"], spec["ss"], depth_of(vp["luma_excursion"]),
                              depth_of(vp["color_diff_excursion"]), tuple(spec["colour"] or ())), bucket=name + " " + bucket_of(vp))
            if lit is not None:
                lits.append(lit)
                metas.append({"generator": name, "spec": spec})
    # ---- sprite boundary sweep: frames just below / at / above the size of the (aspect-adapted) 128x128 sprite -----
    SPRITE = 128
    for i in range(ctx.pick(14, 160)):
        spec = gen_spec(rng, max_w=16, max_h=16)
        pn, pd = rng.choice([(1, 1), (10, 11), (12, 11), (40, 33), (16, 11), (4, 3), (8, 9), (3, 4), (2, 1), (1, 2)])
        sw = SPRITE * pd // pn                      # sprite width after aspect adaptation
        xs = 1 if spec["cdf"] == 0 else 2
        ys = (2 if spec["cdf"] == 2 else 1) * (2 if (spec["pcm"] == 1 or spec["ss"] == 1) else 1)
        w = rng.choice([sw - 1, sw, sw + 1, sw + 12, SPRITE, SPRITE + 1, 2 * sw, rng.randint(8, 2 * sw)])
        h = rng.choice([SPRITE - 8, SPRITE, SPRITE + 1, SPRITE + 4, SPRITE + 16, 2 * SPRITE, rng.randint(8, 2 * SPRITE)])
        spec["w"], spec["h"] = max(xs, w // xs * xs), max(ys, h // ys * ys)
        spec["par"], spec["par_custom"] = None, [pn, pd]
        spec["num_frames"] = rng.choice([1, 2])
        for name in ("static_sprite", "moving_sprite"):
            lit, failed = generator_case(ctx, name, spec)
            ctx.count(1, key=("sprite-boundary", name, spec["w"], spec["h"], pn, pd, spec["cdf"], spec["pcm"], spec["ss"]), bucket="sprite-boundary " + name)
            if lit is not None:
                lits.append(lit)
                metas.append({"generator": name, "spec": spec})
    for m in metas[:3]:
        ctx.sample(m)
    t1 = time.time()

    # ---- clip of float_to_int_clipped on arbitrary floats --------------------------------------
    clip_cases = []
    specials = [float("nan"), float("inf"), float("-inf"), 0.0, -0.0, 1.0, -1.0, 0.5, -0.5, 1e300, -1e300, 1e19, -1e19, 9.3e18, 2.0 ** 63, -2.0 ** 63,
                2.0 ** 62, 1.0 + 2 ** -52, 0.49999999999999994, 1e-320]
    for i in range(ctx.pick(120, 2000)):
        depth = rng.choice([rng.randint(1, 63), rng.randint(1, 16), 63, 62, 53, 54])
        exc = excursion_for_depth(rng, depth)
        off = rng.choice([0, 16, exc // 2, exc, exc + 7, rng.randrange(1 << 40), (1 << 62)])
        vals = [rng.choice(specials) for _ in range(6)] + [rng.uniform(-2, 2) for _ in range(4)] + [rng.uniform(-1e6, 1e6), rng.gauss(0.5, 0.3)]
        with warnings.catch_warnings():
            warnings.simplefilter("ignore")
            try:
                pre = cc.float_to_int(np.array(vals), off, exc)
                post = cc.float_to_int_clipped(np.array(vals), off, exc)
            except Exception as e:
                ctx.violation("float-to-int-clipped-raises", {"excursion": str(exc), "offset": str(off), "values": [repr(v) for v in vals]}, "raised %r" % (e,))
                continue
        pre, post = [int(v) for v in pre.tolist()], post.tolist()
        ctx.count(1, key=("clip", exc, off), bucket="clip")
        if any(type(v) is not int or not (0 <= v < (1 << depth)) for v in post):
            ctx.violation("float-to-int-clipped-out-of-range", {"excursion": str(exc), "offset": str(off), "values": [repr(v) for v in vals]},
                          "result %r not within %d bits" % (post, depth), observed=str(post))
        clip_cases.append("(%s, %s, %s)" % (cz(exc), clist(pre), clist(post)))

    # ---- progressive_to_pictures on labelled lines ---------------------------------------------
    p2p_cases = []
    for pcm in (0, 1):
        for ss in (0, 1):
            for tff in (0, 1):
                for h in (2, 4, 6, 1, 3, 5):
                    for n in (0, 1, 2, 3, 4, 5):
                        if h % 2 and (pcm == 0 and ss == 1):
                            continue      # interleaving fields of unequal heights: numpy raises (irregular format)
                        frames = [np.array([[[100 * f + y] * 3] for y in range(h)]) for f in range(n)]
                        vp = ssd(t.BaseVideoFormats.hd1080p_50)
                        vp["source_sampling"] = t.SourceSamplingModes(ss)
                        vp["top_field_first"] = bool(tff)
                        try:
                            out = list(pg.progressive_to_pictures(vp, t.PictureCodingModes(pcm), iter(frames)))
                        except Exception as e:
                            ctx.obligation("harness:progressive_to_pictures runs", False, "corr-shard", "%r" % ((pcm, ss, tff, h, n, e),))
                            continue
                        obs = [[int(r[0][0]) for r in p] for p in out]
                        ctx.count(1, key=("p2p", pcm, ss, tff, h, n), bucket="progressive_to_pictures")
                        p2p_cases.append("(%d, %s, %s, %s, %s)" % (pcm, cbool(ss), cbool(tff), cll([[100 * f + y for y in range(h)] for f in range(n)]), cll(obs)))

    # ---- depths >= 64 bits: dedicated probe -------------------------------------------------------
    for dl, dc in [(64, 8), (8, 64), (65, 65), (64, 64)]:
        spec = {"base": 0, "w": 4, "h": 4, "cdf": 0, "pcm": 0, "ss": 0, "tff": 1, "par": None, "colour": None, "num_frames": 1, "seed": 0,
                "range": ["custom", "0", str((1 << dl) - 1), str(1 << (dc - 1)), str((1 << dc) - 1)]}
        for name in GEN_NAMES:
            vp, pcm = build_vp(spec)
            ctx.count(1, key=(name, ">=64", dl, dc), bucket=name + " depth >=64")
            inp = {"generator": name, "spec": spec}
            try:
                with warnings.catch_warnings():
                    warnings.simplefilter("ignore")
                    pics = run_generator(name, vp, pcm, spec)
            except Exception as e:
                if name == "white_noise" and isinstance(e, ValueError) and "out of bounds" in str(e):
                    ctx.violation("white-noise-depth-over-63-bits-raises", inp,
                                  "white_noise raises %r for a %d/%d-bit format (np.random randint with dtype=int64 cannot draw from [0, 2^64))" % (e, dl, dc),
                                  observed=repr(e), expected="pictures with samples in [0, 2^depth)")
                else:
                    ctx.violation("%s-depth-over-63-bits-raises-%s" % (name.replace("_", "-"), type(e).__name__), inp, "raised %r" % (e,), observed=repr(e))
                continue
            for k, d in well_formed(pics, vp, pcm):
                ctx.violation("%s-depth-over-63-bits-%s" % (name.replace("_", "-"), k), inp, d, observed=d)
    t2 = time.time()

    IMPORTS = ["Model.FileFormat", "Model.PicGen", "Corr.C22"]
    import concurrent.futures
    with concurrent.futures.ThreadPoolExecutor(max_workers=3) as pool:
        fg = pool.submit(ctx.coq_check_cases, "c22_gen", IMPORTS, "check_gen", lits, None, 400)
        fc = pool.submit(ctx.coq_check_cases, "c22_clip", IMPORTS, "check_clip", clip_cases, None, 1000)
        fp = pool.submit(ctx.coq_check_cases, "c22_p2p", IMPORTS, "check_p2p", p2p_cases, None, 1000)
        bad = fg.result()
        for i in (bad or []):
            ctx.obligation("corr:generator counts/numbering/sizes agree with the model", False, "corr-shard",
                           "model and implementation differ (the oracle found the output well-formed): %s" % json.dumps(metas[i])[:1200])
        bad = fc.result()
        if bad:
            ctx.obligation("corr:clip agrees with float_to_int_clipped", False, "corr-shard", "cases %r" % [clip_cases[i] for i in bad[:4]])
        bad = fp.result()
        if bad:
            ctx.obligation("corr:progressive_to_pictures agrees", False, "corr-shard", "cases %r" % [p2p_cases[i] for i in bad[:4]])
    ctx.note("timing: generators %.1fs, other implementation runs %.1fs, coq %.1fs" % (t1 - t0, t2 - t1, time.time() - t2))
    ctx.trusted.append("NOT modelled, covered by the oracle run only: numpy float arithmetic, colour matrices, transfer functions, PIL resize, "
                       "the pointer sprite file, np.random; the Coq model starts at the integer array handed to np.clip")


def replay(ctx, data):
    inp = data["input"]
    print("replaying", data.get("key"), json.dumps(inp)[:600])
    np, t, pg, cc, cdd, VideoParameters, ssd = impl()
    bad = False
    if "sequence" in inp:
        for i, step in enumerate(inp["sequence"]):      # the whole sequence in THIS fresh process, in order
            vp, pcm = build_vp(step["spec"])
            try:
                with warnings.catch_warnings():
                    warnings.simplefilter("ignore")
                    pics = run_generator(step["generator"], vp, pcm, step["spec"])
                errs = well_formed(pics, vp, pcm)
            except Exception as e:
                errs = [("raises", repr(e))]
            print(" step %d/%d %s %s -> %s" % (i + 1, len(inp["sequence"]), step["generator"], json.dumps(step["spec"])[:200], errs or "well-formed"))
            bad = bad or bool(errs)
    elif "generator" in inp:
        vp, pcm = build_vp(inp["spec"])
        print("  format:", {k: (int(v) if not isinstance(v, bool) else v) for k, v in vp.items()}, "pcm", int(pcm))
        try:
            with warnings.catch_warnings():
                warnings.simplefilter("ignore")
                pics = run_generator(inp["generator"], vp, pcm, inp["spec"])
            errs = well_formed(pics, vp, pcm)
            print("  %d pictures; problems: %r" % (len(pics), errs))
            bad = bool(errs)
        except Exception as e:
            print("  raised %r" % (e,))
            bad = True
    else:
        vals = [float(v) for v in inp["values"]]
        exc, off = int(inp["excursion"]), int(inp["offset"])
        with warnings.catch_warnings():
            warnings.simplefilter("ignore")
            try:
                post = cc.float_to_int_clipped(np.array(vals), off, exc).tolist()
                print("  result", post)
                bad = any(type(v) is not int or not (0 <= v < (1 << exc.bit_length())) for v in post)
            except Exception as e:
                print("  raised %r" % (e,))
                bad = True
    print("property violated on this input:", bad)
    return 1 if bad else 0
