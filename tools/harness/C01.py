"""C01 harness: the validator's stream-level state machine (Model/Stream.v) against the real
validator on REAL byte streams, and the property oracle (ten independent rule checkers written
from the property text) against the real validator's verdict.

Also the stream-building library shared with C10.py and C02.py."""
from __future__ import print_function

import itertools
import os
import re
import struct
import sys
from copy import deepcopy
from io import BytesIO

import vlib
from vlib import cz, clist

# ------------------------------------------------------------------------------------------
# names shared with Corr/C01.v
# ------------------------------------------------------------------------------------------
SYMS = ["sequence_header", "end_of_sequence", "auxiliary_data", "padding_data",
        "low_delay_picture", "high_quality_picture",
        "low_delay_picture_fragment", "high_quality_picture_fragment"]
SYM_CODE = {"sequence_header": 0, "end_of_sequence": 16, "auxiliary_data": 32, "padding_data": 48,
            "low_delay_picture": 200, "high_quality_picture": 232,
            "low_delay_picture_fragment": 204, "high_quality_picture_fragment": 236}
VERR = ["UnexpectedEndOfStream", "BadParseInfoPrefix", "InconsistentNextParseOffset",
        "MissingNextParseOffset", "InvalidNextParseOffset", "NonZeroNextParseOffsetAtEndOfSequence",
        "InconsistentPreviousParseOffset", "NonZeroPreviousParseOffsetAtStartOfSequence",
        "SequenceHeaderChangedMidSequence", "GenericInvalidSequence", "LevelInvalidSequence",
        "ParseCodeNotAllowedInProfile", "ValueNotAllowedInLevel", "NonConsecutivePictureNumbers",
        "OddNumberOfFieldsInSequence", "EarliestFieldHasOddPictureNumber", "ZeroSlicesInCodedPicture",
        "FragmentedPictureRestarted", "SequenceContainsIncompleteFragmentedPicture",
        "PictureInterleavedWithFragmentedPicture", "PictureNumberChangedMidFragmentedPicture",
        "TooManySlicesInFragmentedPicture", "FragmentSlicesNotContiguous",
        "PresetNotSupportedByVersion", "ParseCodeNotSupportedByVersion", "ProfileNotSupportedByVersion",
        "MajorVersionTooLow", "MajorVersionTooHigh", "BadProfile", "BadLevel"]
VERR_CODE = dict((n, i + 1) for i, n in enumerate(VERR))
for _n in ("PresetFrameRateNotSupportedByVersion", "PresetSignalRangeNotSupportedByVersion",
           "PresetColorSpecNotSupportedByVersion", "PresetColorPrimariesNotSupportedByVersion",
           "PresetColorMatrixNotSupportedByVersion", "PresetTransferFunctionNotSupportedByVersion"):
    VERR_CODE[_n] = VERR_CODE["PresetNotSupportedByVersion"]
KEYERR_CODE = {"_last_picture_number": 101, "_picture_initial_fragment_offset": 102,
               "fragment_slices_received": 103, "slices_x": 104, "slices_y": 105,
               "major_version": 106, "picture_coding_mode": 107}
CODE_NAME = dict((v, k) for k, v in VERR_CODE.items() if k in VERR)
CODE_NAME.update({0: "Accept", 101: "KeyError:_last_picture_number", 102: "KeyError:_picture_initial_fragment_offset",
                  103: "KeyError:fragment_slices_received", 104: "KeyError:slices_x", 105: "KeyError:slices_y",
                  106: "KeyError:major_version", 107: "KeyError:picture_coding_mode",
                  108: "UnboundLocalError:true_parse_offset", 109: "TypeError", 110: "AssertionError",
                  111: "ZeroDivisionError", 999: "other exception"})
RULES = ["ends_ok", "offsets_ok", "headers_identical", "codes_allowed_in_profile", "version_ok",
         "picnums_ok", "whole_frames", "fragments_ok", "level_pattern_ok", "generic_pattern_ok"]

IMPORTS = ["Base.PyZ", "Model.Stream", "Corr.C01"]

_impl = {}


def impl():
    """Import the implementation once; make the level CONSTRAINT table permissive (every level
    keeps its own column with only `level` pinned) so that tiny pictures can be used with levels
    1 and 64-66.  The level SEQUENCE RESTRICTIONS (the data-unit ordering patterns this property
    is about) are untouched."""
    if _impl:
        return _impl
    import vc2_data_tables as tables
    from vc2_conformance import decoder, bitstream
    from vc2_conformance.pseudocode.state import State
    from vc2_conformance.level_constraints import LEVEL_CONSTRAINTS, LEVEL_SEQUENCE_RESTRICTIONS
    from vc2_conformance.constraint_table import ValueSet, AnyValue
    from vc2_conformance.codec_features import read_codec_features_csv
    from vc2_conformance.encoder.sequence import make_sequence
    from vc2_conformance.picture_generators import mid_gray, repeat_pictures
    from vc2_conformance.symbol_re import Matcher
    keys = set()
    for col in LEVEL_CONSTRAINTS:
        keys.update(col.keys())
    new = []
    for lvl in tables.Levels:
        col = dict((k, AnyValue()) for k in keys)
        col["level"] = ValueSet(int(lvl))
        new.append(col)
    _impl["orig_level_constraints"] = list(LEVEL_CONSTRAINTS)
    LEVEL_CONSTRAINTS[:] = new
    with open(os.path.join(vlib.REPO, "tests", "sample_codec_features.csv")) as f:
        minimal = read_codec_features_csv(f)["minimal"]
    _impl.update(dict(tables=tables, decoder=decoder, bitstream=bitstream, State=State,
                      LSR=LEVEL_SEQUENCE_RESTRICTIONS, make_sequence=make_sequence, mid_gray=mid_gray,
                      repeat_pictures=repeat_pictures, Matcher=Matcher, minimal=minimal))
    return _impl


# ------------------------------------------------------------------------------------------
# running the real validator
# ------------------------------------------------------------------------------------------
def validate(data, want_exc=False):
    """-> (verdict code, [picture numbers output], exception or None)"""
    I = impl()
    pics = []
    st = I["State"](_output_picture_callback=lambda p, v, m: pics.append(p["pic_num"]))
    I["decoder"].init_io(st, BytesIO(data))
    try:
        I["decoder"].parse_stream(st)
        return 0, pics, None
    except I["decoder"].ConformanceError as e:
        return VERR_CODE.get(type(e).__name__, 900), pics, e
    except KeyError as e:
        return KEYERR_CODE.get(e.args[0] if e.args else None, 999), pics, e
    except UnboundLocalError as e:
        return (108 if "true_parse_offset" in str(e) else 999), pics, e
    except Exception as e:  # noqa
        return 999, pics, e


# ------------------------------------------------------------------------------------------
# dumping the real Matcher as a deterministic table
# ------------------------------------------------------------------------------------------
def export_table(pattern):
    """Explore the reachable state sets of the REAL Matcher for `pattern` over the eight parse code
    names.  -> list of (successors per symbol (index or -1), is_complete)"""
    I = impl()
    m = I["Matcher"](pattern)
    start = frozenset(m.cur_states)
    index = {start: 0}
    order = [start]
    rows = []
    i = 0
    while i < len(order):
        cur = order[i]
        row = []
        for sym in SYMS:
            m.cur_states = set(cur)
            if m.match_symbol(sym):
                nxt = frozenset(m.cur_states)
                if nxt not in index:
                    index[nxt] = len(order)
                    order.append(nxt)
                row.append(index[nxt])
            else:
                row.append(-1)
        m.cur_states = set(cur)
        rows.append((row, bool(m.is_complete())))
        i += 1
    return rows


def coq_table(rows):
    return "[" + "; ".join("(%s, %s)" % (clist(r), "true" if c else "false") for r, c in rows) + "]"


_tables = {}


def tables_defs():
    """Coq definitions `gen_tbl`, `lvl_tbls` from the live Matcher / live level CSV."""
    if "defs" in _tables:
        return _tables["defs"]
    I = impl()
    gen = export_table("sequence_header .* end_of_sequence")
    lv = []
    for lvl in I["tables"].Levels:
        lv.append((int(lvl), export_table(I["LSR"][lvl].sequence_restriction_regex)))
    _tables["gen"] = gen
    _tables["lvls"] = dict(lv)
    defs = "Definition gen_tbl : table := %s.\nDefinition lvl_tbls : list (Z * table) := [%s].\n" % (
        coq_table(gen), "; ".join("(%d, %s)" % (l, coq_table(t)) for l, t in lv))
    _tables["defs"] = defs
    return defs


# ------------------------------------------------------------------------------------------
# data units: bytes + abstract description
# ------------------------------------------------------------------------------------------
class U(object):
    """One data unit: kind tag + abstract fields + payload bytes + coded offsets (None = correct)."""
    __slots__ = ("tag", "f", "payload", "npo", "ppo", "code", "ext")

    def __init__(self, tag, f, payload, code, npo=None, ppo=None, ext=None):
        self.tag, self.f, self.payload, self.code, self.npo, self.ppo = tag, tuple(f), payload, code, npo, ppo
        self.ext = ext   # pictures / first fragments: payload carries extended transform parameters (coded for major_version >= 3)

    def copy(self, **kw):
        u = U(self.tag, self.f, self.payload, self.code, self.npo, self.ppo, self.ext)
        for k, v in kw.items():
            setattr(u, k, v)
        return u

    @property
    def length(self):
        return 13 + len(self.payload)

    def with_picnum(self, n):
        assert self.tag in (1, 2, 3)
        f = list(self.f)
        f[1] = n
        return self.copy(f=tuple(f), payload=struct.pack(">I", n) + self.payload[4:])

    def with_xy(self, x, y):
        assert self.tag == 3
        f = list(self.f)
        f[3], f[4] = x, y
        return self.copy(f=tuple(f), payload=self.payload[:8] + struct.pack(">HH", x, y) + self.payload[12:])

    def with_count(self, c):
        """only meaningful when the result is rejected before the slices are read"""
        assert self.tag == 3
        f = list(self.f)
        f[2] = c
        return self.copy(f=tuple(f), payload=self.payload[:6] + struct.pack(">H", c) + self.payload[8:])


def assemble(units):
    """-> (bytes, abstract tuples with the coded offsets actually written)"""
    out = []
    abstract = []
    for i, u in enumerate(units):
        true_npo = u.length if u.tag != 6 else 0
        true_ppo = units[i - 1].length if i > 0 and units[i - 1].tag != 6 else 0
        npo = true_npo if u.npo is None else u.npo
        ppo = true_ppo if u.ppo is None else u.ppo
        out.append(b"BBCD" + bytes(bytearray([u.code])) + struct.pack(">II", npo, ppo) + u.payload)
        abstract.append((u.tag,) + u.f + (u.length, npo, ppo))
    return b"".join(out), abstract


def coq_units(abstract):
    return "[" + "; ".join("UL " + " ".join(cz(x) for x in t) for t in abstract) + "]"


def split_units(data):
    units = []
    pos = 0
    while pos < len(data):
        assert data[pos:pos + 4] == b"BBCD", "split: lost sync"
        code = bytearray(data[pos + 4:pos + 5])[0]
        npo = struct.unpack(">I", data[pos + 5:pos + 9])[0]
        end = pos + npo if npo else len(data)
        units.append((code, data[pos + 13:end]))
        pos = end
    return units


class Config(object):
    """A tiny codec configuration and its library of real data-unit payloads."""

    def __init__(self, name, profile, fields, frag, sx, sy, depth_ho=0, overrides=None, noise=False):
        self.name, self.profile, self.fields, self.frag, self.sx, self.sy, self.depth_ho = (
            name, profile, fields, frag, sx, sy, depth_ho)
        self.overrides = overrides or {}   # codec feature / video parameter overrides (C10: differing parameters)
        self.noise = noise                 # white-noise pictures instead of mid-grey ones (C10: distinct contents)
        self.hq = profile == 3
        self.pic_cache = {}
        self.hdr_cache = {}
        self.next_hid = [0]
        self.hid_by_bytes = {}

    # natural (minimal) major version of a sequence of this configuration with pictures
    @property
    def natural_version(self):
        if self.frag or self.depth_ho:
            return 3
        return 2 if self.hq else 1

    def features(self, level=0):
        I = impl()
        t = I["tables"]
        cf = deepcopy(I["minimal"])
        cf["profile"] = t.Profiles(self.profile)
        cf["level"] = t.Levels(level)
        cf["picture_coding_mode"] = t.PictureCodingModes(1 if self.fields else 0)
        cf["slices_x"], cf["slices_y"] = self.sx, self.sy
        cf["fragment_slice_count"] = self.frag
        cf["dwt_depth_ho"] = self.depth_ho
        n = self.sx * self.sy
        cf["picture_bytes"] = (16 if self.hq else 8) * n
        for k, v in self.overrides.items():
            if k in cf["video_parameters"]:
                cf["video_parameters"][k] = v
            else:
                cf[k] = v
        return cf

    def _serialise(self, seq):
        I = impl()
        f = BytesIO()
        I["bitstream"].autofill_and_serialise_stream(f, I["bitstream"].Stream(sequences=[seq]))
        return f.getvalue()

    def picture_units(self, ext):
        """The picture-bearing data units (two frames) coded for major_version >= 3 (ext: with
        extended transform parameters) or < 3.  -> list of U (pictures, or first/data fragments)"""
        if ext in self.pic_cache:
            return self.pic_cache[ext]
        I = impl()
        cf = self.features()
        if self.noise:
            from vc2_conformance.picture_generators import white_noise
            pics = list(white_noise(cf["video_parameters"], cf["picture_coding_mode"], 2, CONFIG_INDEX[self.name]))
        else:
            pics = list(I["repeat_pictures"](I["mid_gray"](cf["video_parameters"], cf["picture_coding_mode"]), 2))
        seq = I["make_sequence"](cf, pics)
        version = 3 if ext else 2
        if not ext and (self.frag or self.depth_ho):
            raise ValueError("configuration needs version 3")
        for du in seq["data_units"]:
            if "sequence_header" in du:
                du["sequence_header"]["parse_parameters"]["major_version"] = version
            for k in ("picture_parse", "fragment_parse"):
                if k in du:
                    tp = du[k].get("wavelet_transform", du[k]).get("transform_parameters")
                    if tp is not None and not ext:
                        tp.pop("extended_transform_parameters", None)
        data = self._serialise(seq)
        wi = int(cf["wavelet_index"])
        tpf = (wi, int(cf["wavelet_index_ho"]) if ext else wi, self.depth_ho if ext else 0, self.sx * 65536 + self.sy)
        out = []
        for code, payload in split_units(data):
            if code in (200, 232):
                n = struct.unpack(">I", payload[:4])[0]
                out.append(U(1, (1 if code == 232 else 0, n) + tpf, payload, code, ext=ext))
            elif code in (204, 236):
                n = struct.unpack(">I", payload[:4])[0]
                cnt = struct.unpack(">H", payload[6:8])[0]
                if cnt == 0:
                    out.append(U(2, (1 if code == 236 else 0, n) + tpf, payload, code, ext=ext))
                else:
                    x, y = struct.unpack(">HH", payload[8:12])
                    out.append(U(3, (1 if code == 236 else 0, n, cnt, x, y, 0), payload, code))
        self.pic_cache[ext] = out
        return out

    def header(self, major, level=0, variant=0, profile=None):
        """A real sequence header data unit.  variant 0 = as the encoder writes it; 1 = another
        frame rate (byte-distinct, same stream-level fields); 2 = preset frame rate index 12
        (needs major_version 3)."""
        profile = self.profile if profile is None else profile
        key = (major, level, variant, profile)
        if key in self.hdr_cache:
            return self.hdr_cache[key]
        I = impl()
        t = I["tables"]
        cf = self.features(0)
        seq = I["make_sequence"](cf, [])
        sh = seq["data_units"][0]["sequence_header"]
        sh["parse_parameters"]["major_version"] = major
        sh["parse_parameters"]["level"] = t.Levels(level)
        sh["parse_parameters"]["profile"] = t.Profiles(profile)
        pvmin = 1
        if variant == 1:
            sh["video_parameters"]["frame_rate"]["frame_rate_numer"] = 3
        elif variant == 2:
            sh["video_parameters"]["frame_rate"]["index"] = 12
            sh["video_parameters"]["frame_rate"].pop("frame_rate_numer", None)
            sh["video_parameters"]["frame_rate"].pop("frame_rate_denom", None)
            pvmin = 3
        seq["data_units"] = [seq["data_units"][0], seq["data_units"][-1]]
        payload = split_units(self._serialise(seq))[0][1]
        hid = self.hid_by_bytes.setdefault(payload, len(self.hid_by_bytes) + 1000 * CONFIG_INDEX[self.name])
        u = U(0, (hid, major, profile, level, 1 if self.fields else 0, pvmin), payload, 0)
        self.hdr_cache[key] = u
        return u


    def custom_header(self, major, pcm, numer, par_index, tf_index, level=0):
        """A real sequence header whose total bit length is steered by the frame-rate numerator code
        length and an optional preset pixel aspect ratio, and whose LAST coded field before
        picture_coding_mode is a preset transfer function index (custom colour spec, index 0).
        -> (U, header length in bits as measured by the real sequence_header parser)"""
        key = ("custom", major, pcm, numer, par_index, tf_index, level)
        if key in self.hdr_cache:
            return self.hdr_cache[key]
        I = impl()
        t = I["tables"]
        b = I["bitstream"]
        seq = I["make_sequence"](self.features(0), [])
        sh = seq["data_units"][0]["sequence_header"]
        sh["parse_parameters"]["major_version"] = major
        sh["parse_parameters"]["level"] = t.Levels(level)
        sh["picture_coding_mode"] = t.PictureCodingModes(pcm)
        vp = sh["video_parameters"]
        vp["frame_rate"]["frame_rate_numer"] = numer
        if par_index:
            vp["pixel_aspect_ratio"] = b.PixelAspectRatio(custom_pixel_aspect_ratio_flag=True, index=par_index)
        vp["color_spec"] = b.ColorSpec(
            custom_color_spec_flag=True, index=0,
            color_primaries=b.ColorPrimaries(custom_color_primaries_flag=False),
            color_matrix=b.ColorMatrix(custom_color_matrix_flag=False),
            transfer_function=b.TransferFunction(custom_transfer_function_flag=True, index=tf_index))
        seq["data_units"] = [seq["data_units"][0], seq["data_units"][-1]]
        payload = split_units(self._serialise(seq))[0][1]
        # bit length, from the real parser
        from vc2_conformance.decoder.sequence_header import sequence_header as real_sequence_header
        st = I["State"]()
        I["decoder"].init_io(st, BytesIO(payload + b"\x00"))
        real_sequence_header(st)
        byte, next_bit = I["decoder"].tell(st)
        nbits = byte * 8 + (7 - next_bit)
        hid = self.hid_by_bytes.setdefault(payload, len(self.hid_by_bytes) + 1000 * CONFIG_INDEX[self.name])
        u = U(0, (hid, major, self.profile, level, pcm, 1), payload, 0)
        self.hdr_cache[key] = (u, nbits)
        return u, nbits


def header_pair_cases():
    """Pairs of individually valid sequence headers of EQUAL length which differ only
    (a) in the last few bits -- the preset transfer function index 1 (code 001) vs 2 (code 011) is the
        last field before picture_coding_mode, so the headers differ in the 3rd bit from the end
        (picture_coding_mode 0, code 1) or the 5th (picture_coding_mode 1, code 001) and nowhere else; NB
        the last bit of a valid header is always 1 and the one before it is fixed by the syntax too --
        for every residue of the header's bit length mod 8;
    (b) in the first byte only (major_version 1 vs 2); (c) in a middle byte only (frame rate numerator
    1 vs 2).  Each pair is used in header-only sequences (both orders) and around real pictures.
    -> list of (units, label, config name)"""
    cfg = CONFIG_BY_NAME["ld-frames-pic-2x1"]
    pics = [u for u in cfg.picture_units(False) if u.tag == 1]
    out = []
    by_residue = {}
    for numer in (1, 3, 7, 15, 31, 63, 127):
        for par in (0, 1, 3):
            for pcm in (0, 1):
                a, na = cfg.custom_header(1, pcm, numer, par, 1)
                b, nb = cfg.custom_header(1, pcm, numer, par, 2)
                if na != nb or len(a.payload) != len(b.payload) or a.payload == b.payload:
                    continue
                diff = [i for i in range(len(a.payload)) if a.payload[i] != b.payload[i]]
                if len(diff) != 1 or diff[0] < len(a.payload) - 2:
                    continue
                by_residue.setdefault((na % 8, pcm), (a, b, na))
    for (res, pcm), (a, b, n) in sorted(by_residue.items()):
        lab = "hdr-tail:len%d:mod8=%d:pcm%d" % (n, res, pcm)
        out.append(([a, b, eos()], lab + ":AB", cfg.name))
        out.append(([b, a, eos()], lab + ":BA", cfg.name))
        out.append(([a, a, eos()], lab + ":AA", cfg.name))
        if pcm == 0:
            out.append(([a, pics[0].with_picnum(0), b, pics[1].with_picnum(1), eos()], lab + ":A-P-B-P", cfg.name))
            out.append(([b, pics[0].with_picnum(4), pad(1), a, eos()], lab + ":B-P-pad-A", cfg.name))
    # (b) first byte only, (c) a middle byte only
    a, _ = cfg.custom_header(1, 0, 1, 0, 1)
    b, _ = cfg.custom_header(2, 0, 1, 0, 1)
    c, _ = cfg.custom_header(1, 0, 2, 0, 1)
    for x, y, lab in ((a, b, "hdr-first-byte"), (a, c, "hdr-middle-byte")):
        diff = [i for i in range(len(x.payload)) if x.payload[i] != y.payload[i]]
        if len(x.payload) != len(y.payload) or len(diff) != 1 or (lab == "hdr-first-byte") != (diff[0] == 0):
            raise RuntimeError("header pair %s does not differ where intended: %r" % (lab, diff))
        out.append(([x, y, eos()], lab + ":AB", cfg.name))
        out.append(([y, x, eos()], lab + ":BA", cfg.name))
        out.append(([x, pics[0].with_picnum(0), y, eos()], lab + ":A-P-B", cfg.name))
    header_pair_cases.residues = sorted(set(r for (r, _) in by_residue))
    return out


def pad(n=0, byte=0):
    return U(4, (0, 0, 0, 0, 0, 0), bytes(bytearray([byte] * n)), 48)


def aux(n=0, byte=0):
    return U(5, (0, 0, 0, 0, 0, 0), bytes(bytearray([byte] * n)), 32)


def eos():
    return U(6, (0, 0, 0, 0, 0, 0), b"", 16)


CONFIGS = [
    Config("hq-frames-pic-2x1", 3, False, 0, 2, 1),
    Config("hq-fields-pic-1x1", 3, True, 0, 1, 1),
    Config("hq-frames-frag1-2x2", 3, False, 1, 2, 2),
    Config("hq-fields-frag2-3x2", 3, True, 2, 3, 2),
    Config("ld-frames-pic-2x1", 0, False, 0, 2, 1),
    Config("ld-fields-frag4-2x2", 0, True, 4, 2, 2),
    Config("hq-frames-pic-asym-2x1", 3, False, 0, 2, 1, depth_ho=1),
    Config("ld-frames-frag3-3x2", 0, False, 3, 3, 2),
]
CONFIG_INDEX = dict((c.name, i + 1) for i, c in enumerate(CONFIGS))
CONFIG_BY_NAME = dict((c.name, c) for c in CONFIGS)


# ------------------------------------------------------------------------------------------
# the property oracle: ten independent rule checkers, from the property text
# (abstract tuples: (tag, a..f, len, npo, ppo) as produced by assemble)
# ------------------------------------------------------------------------------------------
T_HDR, T_PIC, T_FF, T_FD, T_PAD, T_AUX, T_EOS = range(7)
SYM_CHAR = dict((s, chr(ord("a") + i)) for i, s in enumerate(SYMS))


def unit_symbol(t):
    tag, hq = t[0], t[1]
    if tag == T_HDR:
        return "sequence_header"
    if tag == T_PIC:
        return "high_quality_picture" if hq else "low_delay_picture"
    if tag in (T_FF, T_FD):
        return "high_quality_picture_fragment" if hq else "low_delay_picture_fragment"
    return {T_PAD: "padding_data", T_AUX: "auxiliary_data", T_EOS: "end_of_sequence"}[tag]


def symre_to_re(pattern):
    """symbol_re syntax -> Python `re` over one character per symbol (independent decision of the
    level / generic ordering patterns)."""
    out = []
    for tok in re.findall(r"[A-Za-z0-9_]+|[.$|?*+()]|\s+", pattern):
        if tok.strip() == "":
            continue
        if re.match(r"[A-Za-z0-9_]+$", tok):
            out.append(SYM_CHAR.get(tok, "\x00"))
        else:
            out.append(tok)
    return re.compile("(?:" + "".join(out) + ")\\Z")


_re_cache = {}


def pattern_ok(pattern, us):
    if pattern not in _re_cache:
        _re_cache[pattern] = symre_to_re(pattern)
    return _re_cache[pattern].match("".join(SYM_CHAR[unit_symbol(t)] for t in us)) is not None


def split_sequences(us):
    seqs, cur = [], []
    for t in us:
        cur.append(t)
        if t[0] == T_EOS:
            seqs.append(cur)
            cur = []
    if cur:
        seqs.append(cur)
    return seqs


def version_needed_by_symbol(sym):
    return 3 if sym.endswith("fragment") else 1


def rule_vector(us):
    """The ten rules for ONE sequence `us`; -> list of bool in the order of RULES."""
    I = impl()
    first = us[0] if us and us[0][0] == T_HDR else None
    # 1 sequence header first, end of sequence last (and nowhere else)
    ends = first is not None and us[-1][0] == T_EOS and all(t[0] != T_EOS for t in us[:-1])
    # 2 offsets
    offs = True
    prev = 0
    for t in us:
        tag, ln, npo, ppo = t[0], t[7], t[8], t[9]
        if ppo != prev:
            offs = False
        if tag == T_EOS:
            ok = npo == 0
        elif tag in (T_PIC, T_FF, T_FD):
            ok = npo in (0, ln)
        else:
            ok = npo == ln
        offs = offs and ok
        prev = ln
    if first is None:
        # no sequence header to take the parameters from: the remaining rules are vacuous
        return [ends, offs, True, True, True, True, True, fragments_rule(us), True,
                pattern_ok("sequence_header .* end_of_sequence", us)]
    hid, major, profile, level, pcm, pvmin = first[1:7]
    # 3 headers byte-identical
    same = all(t[1] == hid for t in us if t[0] == T_HDR)
    # 4 profile-permitted parse codes
    allowed = set(c.name for c in I["tables"].PROFILES[I["tables"].Profiles(profile)].allowed_parse_codes) \
        if profile in (0, 3) else set(SYMS)
    codes = all(unit_symbol(t) in allowed for t in us)
    # 5 version supports everything used and is minimal (empty sequences may carry 3)
    hdr_need = max(1, 2 if profile == 3 else 1, pvmin)
    need = hdr_need
    support = hdr_need <= major
    npics = 0
    for t in us:
        v = version_needed_by_symbol(unit_symbol(t))
        if v > major:
            support = False
        if t[0] in (T_PIC, T_FF):
            npics += 1
            wi, wi_ho, depth_ho = t[3], t[4], t[5]
            if depth_ho != 0 or wi != wi_ho:
                v = max(v, 3)
        need = max(need, v)
    version = support and (major <= need or (npics == 0 and major == 3))
    # 6 picture numbers
    nums = True
    last = None
    idx = 0
    for t in us:
        if t[0] in (T_PIC, T_FF):
            n = t[2]
            if last is not None and n != (last + 1) % (1 << 32):
                nums = False
            if pcm == 1 and idx % 2 == 0 and n % 2 != 0:
                nums = False
            last = n
            idx += 1
    # 7 whole frames
    whole = pcm != 1 or npics % 2 == 0
    # 8 fragments
    frags = fragments_rule(us)
    # 9 level pattern, 10 generic pattern: independent regex decision
    lvl = pattern_ok(I["LSR"][I["tables"].Levels(level)].sequence_restriction_regex, us)
    gen = pattern_ok("sequence_header .* end_of_sequence", us)
    return [ends, offs, same, codes, version, nums, whole, frags, lvl, gen]


def fragments_rule(us):
    cur = None  # (picnum, slices_x, received, remaining)
    for t in us:
        tag = t[0]
        if tag == T_PIC:
            if cur is not None:
                return False
        elif tag == T_FF:
            if cur is not None:
                return False
            sx, sy = t[6] // 65536, t[6] % 65536
            cur = (t[2], sx, 0, sx * sy)
        elif tag == T_FD:
            if cur is None:
                return False
            n0, sx, rcv, rem = cur
            n, c, x, y = t[2], t[3], t[4], t[5]
            if n != n0 or c > rem or x != rcv % sx or y != rcv // sx:
                return False
            cur = None if rem - c == 0 else (n0, sx, rcv + c, rem - c)
    return cur is None


def stream_rules(abstract):
    """-> (all ok, [(sequence index, [failed rule names])], per-sequence vectors)"""
    failures = []
    vectors = []
    for i, s in enumerate(split_sequences(abstract)):
        v = rule_vector(s)
        vectors.append(v)
        bad = [RULES[k] for k in range(10) if not v[k]]
        if bad:
            failures.append((i, bad))
    return not failures, failures, vectors


# ------------------------------------------------------------------------------------------
# case generation
# ------------------------------------------------------------------------------------------
class SeqBuilder(object):
    """Builds a (mostly) conformant sequence for a configuration, unit by unit, tracking what a
    conformant continuation needs (picture number, fragment position)."""

    def __init__(self, cfg, major=None, level=0, first_picnum=0, hdr_variant=0):
        self.cfg = cfg
        self.major = cfg.natural_version if major is None else major
        self.level = level
        self.ext = self.major >= 3
        self.hdr_variant = hdr_variant
        self.picnum = first_picnum
        self.units = []
        self.frag_pos = None   # index into the current picture's fragment list
        self.pic_index = 0

    def lib(self):
        ext = self.ext or bool(self.cfg.frag or self.cfg.depth_ho)
        return self.cfg.picture_units(ext)

    def pictures(self):
        """library split into pictures: list of lists of units"""
        out = []
        for u in self.lib():
            if u.tag in (1, 2):
                out.append([u])
            else:
                out[-1].append(u)
        return out

    def H(self, variant=None, major=None, level=None, profile=None):
        self.units.append(self.cfg.header(self.major if major is None else major,
                                          self.level if level is None else level,
                                          self.hdr_variant if variant is None else variant, profile))

    def next_picture_units(self):
        pics = self.pictures()
        p = pics[self.pic_index % len(pics)]
        self.pic_index += 1
        n = self.picnum
        self.picnum = (self.picnum + 1) % (1 << 32)
        return [u.with_picnum(n) for u in p]

    def P(self):
        """a whole picture (one picture unit, or all fragments of a fragmented picture)"""
        self.units.extend(self.next_picture_units())


def valid_sequence(cfg, rng, npics=None, major=None, level=0, first_picnum=None, extras=True, hdr_variant=0):
    """A conformant sequence as a list of U (level pattern respected for 64-66)."""
    if first_picnum is None:
        first_picnum = rng.choice([0, 0, 2, 10, (1 << 32) - 2, (1 << 32) - 4, rng.randrange(0, 1 << 31) * 2])
    b = SeqBuilder(cfg, major, level, first_picnum, hdr_variant)
    if npics is None:
        npics = rng.choice([0, 1, 2, 2, 3, 4])
    if cfg.fields:
        npics = 2 * ((npics + 1) // 2)
    strict = level in (64, 65, 66)
    b.H()
    for i in range(npics):
        if strict and i > 0:
            b.H()
        elif extras and not strict:
            r = rng.random()
            if r < 0.15:
                b.units.append(pad(rng.choice([0, 1, 5, 20])))
            elif r < 0.3:
                b.units.append(aux(rng.choice([0, 1, 7])))
            elif r < 0.4:
                b.H()
        b.P()
    if extras and not strict and rng.random() < 0.3:
        b.units.append(pad(rng.choice([0, 3])))
    b.units.append(eos())
    return b.units


def admissible(cfg, level):
    """can a conformant sequence of this configuration with pictures exist at this level?"""
    if level == 0:
        return True
    if 1 <= level <= 7:
        return True
    if level in (64, 65):
        return cfg.profile == 0 and not cfg.frag
    return cfg.profile == 3 and not cfg.frag


def mutate(units, cfg, rng, major, level):
    """One structured mutation of a unit list; -> (new list, label)"""
    us = list(units)
    kinds = ["npo-zero", "npo-wrong", "ppo-wrong", "ppo-zero", "picnum-skip", "picnum-repeat", "picnum-odd",
             "delete", "duplicate", "swap", "insert-hdr-variant", "insert-eos", "drop-eos", "insert-pad", "insert-aux",
             "insert-foreign-picture", "frag-xy", "frag-count", "frag-picnum", "hdr-version", "hdr-level",
             "hdr-profile", "pad-desync", "insert-picture", "insert-first-fragment", "insert-data-fragment",
             "truncate"]
    k = rng.choice(kinds)
    i = rng.randrange(len(us))
    u = us[i]
    if k == "npo-zero":
        us[i] = u.copy(npo=0)
    elif k == "npo-wrong":
        us[i] = u.copy(npo=rng.choice([1, 12, 13, u.length + 1, u.length - 1 if u.length > 14 else u.length + 2, 0xFFFFFFFF]))
        if us[i].tag in (4, 5) and us[i].npo >= 13:
            us[i] = u.copy(npo=0)  # pad/aux desync is a mutation of its own
    elif k == "ppo-wrong":
        us[i] = u.copy(ppo=rng.choice([1, 13, 5, (us[i - 1].length + 1) if i else 7, 0xFFFFFFFF]))
    elif k == "ppo-zero":
        us[i] = u.copy(ppo=0)
    elif k in ("picnum-skip", "picnum-repeat", "picnum-odd"):
        idx = [j for j, x in enumerate(us) if x.tag in (1, 2)]
        if idx:
            j = rng.choice(idx)
            d = {"picnum-skip": 1, "picnum-repeat": -1, "picnum-odd": 1}[k]
            if k == "picnum-odd":
                j = idx[0]
            # shift this and all later picture numbers (keeps the later ones consecutive)
            for m in range(j, len(us)):
                if us[m].tag in (1, 2, 3):
                    us[m] = us[m].with_picnum((us[m].f[1] + d) % (1 << 32))
    elif k == "delete":
        del us[i]
    elif k == "duplicate":
        us.insert(i, u)
    elif k == "swap" and len(us) > 1:
        j = rng.randrange(len(us))
        us[i], us[j] = us[j], us[i]
    elif k == "insert-hdr-variant":
        us.insert(max(1, i), cfg.header(major, level, rng.choice([1, 1, 2])))
    elif k == "insert-eos":
        us.insert(i, eos())
    elif k == "drop-eos":
        us = [x for x in us if x.tag != 6]
    elif k == "insert-pad":
        us.insert(max(1, i), pad(rng.choice([0, 2, 9])))
    elif k == "insert-aux":
        us.insert(max(1, i), aux(rng.choice([0, 4])))
    elif k == "insert-foreign-picture":
        other = rng.choice([c for c in CONFIGS if c.profile != cfg.profile or bool(c.frag) != bool(cfg.frag)])
        try:
            lib = other.picture_units(major >= 3 or bool(other.frag or other.depth_ho))
        except ValueError:
            lib = other.picture_units(True)
        pics = [x for x in lib]
        group = []
        for x in pics:
            if x.tag in (1, 2) and group:
                break
            group.append(x)
        n = next((x.f[1] for x in us[i:] if x.tag in (1, 2)), 0)
        group = [x.with_picnum(n) for x in group]
        for m in range(i, len(us)):
            if us[m].tag in (1, 2, 3):
                us[m] = us[m].with_picnum((us[m].f[1] + 1) % (1 << 32))
        us[max(1, i):max(1, i)] = group
    elif k in ("frag-xy", "frag-count", "frag-picnum"):
        idx = [j for j, x in enumerate(us) if x.tag == 3]
        if idx:
            j = rng.choice(idx)
            if k == "frag-xy":
                x0, y0 = us[j].f[3], us[j].f[4]
                if rng.random() < 0.4:
                    # coordinates that are wrong but alias the right ones under a plausible wrong formula
                    # (same raster index y*slices_x+x, swapped axes, offset by a whole row/column)
                    alts = [(x0 + cfg.sx, y0 - 1), (x0 + cfg.sx * y0, 0), (x0 - cfg.sx, y0 + 1), (y0, x0), (x0, y0 + cfg.sy),
                            (x0 + cfg.sx, y0)]
                    alts = [(a, b) for (a, b) in alts if 0 <= a < 65536 and 0 <= b < 65536 and (a, b) != (x0, y0)]
                    if alts:
                        us[j] = us[j].with_xy(*rng.choice(alts))
                else:
                    us[j] = us[j].with_xy(rng.choice([0, 1, 2, x0 + 1]), rng.choice([0, 1, y0]))
            elif k == "frag-count":
                us[j] = us[j].with_count(rng.choice([100, 7, 65535]))
            else:
                us[j] = us[j].with_picnum((us[j].f[1] + rng.choice([1, -1, 5])) % (1 << 32))
    elif k == "hdr-version":
        newv = rng.choice([v for v in (1, 2, 3) if v != major])
        # only change the version when the picture payloads stay parseable (same extended-parameters class)
        if (newv >= 3) == (major >= 3) or not any(x.tag in (1, 2) for x in us):
            us = [cfg.header(newv, x.f[3], 0) if x.tag == 0 else x for x in us]
        else:
            hs = [m for m, x in enumerate(us) if x.tag == 0]
            j = rng.choice(hs) if hs else None
            if j is not None and (j > 0 or not any(x.tag in (1, 2) for x in us[1:])):
                us[j] = cfg.header(newv, us[j].f[3], 0)
    elif k == "hdr-level":
        hs = [m for m, x in enumerate(us) if x.tag == 0]
        if hs:
            j = rng.choice(hs)
            us[j] = cfg.header(us[j].f[1], rng.choice([l for l in (0, 1, 3, 64, 66) if l != us[j].f[3]]), 0)
    elif k == "hdr-profile":
        hs = [m for m, x in enumerate(us) if x.tag == 0]
        if hs and not any(x.tag in (1, 2) for x in us):
            for j in hs:
                us[j] = cfg.header(max(us[j].f[1], 2), us[j].f[3], 0, profile=3 - cfg.profile)
        elif len(hs) > 1:
            j = rng.choice(hs[1:])
            us[j] = cfg.header(max(us[j].f[1], 2), us[j].f[3], 0, profile=3 - cfg.profile)
    elif k == "pad-desync":
        idx = [j for j, x in enumerate(us) if x.tag in (4, 5)]
        if not idx:
            us.insert(max(1, i), pad(rng.choice([6, 11])))
            idx = [max(1, i)]
        j = rng.choice(idx)
        ln = us[j].length
        us[j] = us[j].copy(npo=rng.choice([13, ln - 1, ln + 1, ln + 2, ln + 7, ln + 30, ln + 5000]))
        if us[j].npo == ln or us[j].npo < 13:
            us[j] = us[j].copy(npo=ln + 3)
    elif k in ("insert-picture", "insert-first-fragment", "insert-data-fragment"):
        want = {"insert-picture": 1, "insert-first-fragment": 2, "insert-data-fragment": 3}[k]
        cands = [c for c in CONFIGS if c.profile == cfg.profile and
                 ((want == 1 and not c.frag) or (want != 1 and c.frag))]
        c = rng.choice(cands)
        ext = major >= 3
        try:
            lib = [x for x in c.picture_units(ext or bool(c.frag or c.depth_ho)) if x.tag == want]
        except ValueError:
            lib = []
        if lib and ((ext or not (c.frag or c.depth_ho)) or want == 3):
            x = rng.choice(lib)
            n = next((y.f[1] for y in us[i:] if y.tag in (1, 2)), None)
            if n is None:
                n = next((y.f[1] + 1 for y in reversed(us) if y.tag in (1, 2)), 0)
            if want == 3 and rng.random() < 0.7:
                n = next((y.f[1] for y in reversed(us[:i]) if y.tag in (1, 2)), n)
            us.insert(max(1, i), x.with_picnum(n % (1 << 32)))
    elif k == "truncate":
        us = us[:max(1, i)]
    return us, k


def payloads_parseable(abstract, units=None):
    """`units_valid` of Model/Stream.v on the abstract list (per sequence): filters the generators so
    that only streams of individually valid data units are judged by the oracle.  With `units`: also
    that every picture payload was really coded for its sequence header's major_version (with /
    without extended transform parameters) -- otherwise the abstract description of the unit is wrong."""
    if units is not None:
        major = None
        at_start = True
        for u in units:
            if at_start:
                major = u.f[1] if u.tag == 0 else None
                at_start = False
            if u.tag in (1, 2) and major is not None and u.ext != (major >= 3):
                return False
            if u.tag == 6:
                at_start = True
    for s in split_sequences(abstract):
        first = s[0] if s and s[0][0] == T_HDR else None
        for t in s:
            if t[0] == T_HDR and first is not None and t[1] == first[1] and t[1:7] != first[1:7]:
                return False
            if t[0] in (T_PIC, T_FF):
                if t[6] // 65536 <= 0 or t[6] % 65536 <= 0:
                    return False
                if first is not None and first[2] < 3 and not (t[4] == t[3] and t[5] == 0):
                    return False
            if t[0] == T_FD and t[3] <= 0:
                return False
    return True


def desync_safe(units, data):
    """pad/aux units whose coded next_parse_offset is not their length make the parser look for the
    next parse_info elsewhere; the abstraction is only faithful when that place does not hold a
    parse_info prefix (in particular is not a data-unit boundary)."""
    pos = 0
    for u in units:
        if u.tag in (4, 5) and u.npo is not None and u.npo >= 13 and u.npo != u.length:
            at = pos + u.npo
            if data[at:at + 4] == b"BBCD":
                return False
        pos += u.length
    return True


# ------------------------------------------------------------------------------------------
# judging one case
# ------------------------------------------------------------------------------------------
class Case(object):
    __slots__ = ("units", "data", "abstract", "obs", "pics", "label", "cfg", "exc")


def make_case(units, label, cfgname):
    c = Case()
    c.units = units
    c.data, c.abstract = assemble(units)
    c.label, c.cfg = label, cfgname
    c.obs, c.pics, c.exc = validate(c.data)
    return c


def replay_input(c):
    return {"config": c.cfg, "label": c.label, "units": [list(t) for t in c.abstract],
            "bytes_hex": c.data.hex() if hasattr(c.data, "hex") else "".join("%02x" % b for b in bytearray(c.data))}


def judge_oracle(ctx, c):
    """Property oracle on the implementation's verdict for a stream of individually valid units.
    Returns True if a violation was recorded."""
    ok, failures, vectors = stream_rules(c.abstract)
    obs = c.obs
    if obs >= 100:  # not a conformance error
        if obs == 108:
            ctx.violation("parse_info-unbound-true_parse_offset", replay_input(c),
                          "parse_info raises UnboundLocalError (true_parse_offset) instead of a conformance error: "
                          "previous data unit coded next_parse_offset 0 and this previous_parse_offset is wrong",
                          observed=CODE_NAME.get(obs), expected="InconsistentPreviousParseOffset")
        elif obs in (101, 102, 103, 104):
            ctx.violation("fragment_header-state-not-populated", replay_input(c),
                          "fragment_header raises KeyError instead of a conformance error: slice-bearing fragment "
                          "with no fragmented picture started in the sequence",
                          observed=CODE_NAME.get(obs), expected="a ConformanceError")
        else:
            ctx.violation("rejection-not-a-conformance-error:%s" % type(c.exc).__name__, replay_input(c),
                          "validator failed with %r" % (c.exc,), observed=repr(c.exc), expected="Accept or ConformanceError")
        return True
    if obs == 0 and not ok:
        only_level = all(bad == ["level_pattern_ok"] for (_, bad) in failures)
        if only_level:
            ctx.violation("nfa-epsilon-transitions-bidirectional", replay_input(c),
                          "validator accepts a sequence violating the level's data-unit ordering pattern "
                          "(symbol_re Matcher over-accepts)", observed="Accept", expected="LevelInvalidSequence")
        else:
            ctx.violation("accepts-nonconformant:%s" % "+".join(failures[0][1]), replay_input(c),
                          "validator accepts a stream violating %r" % (failures,), observed="Accept", expected="rejection")
        return True
    if obs != 0 and ok:
        ctx.violation("rejects-conformant:%s" % CODE_NAME.get(obs, obs), replay_input(c),
                      "validator rejects a stream obeying all ten rules", observed=CODE_NAME.get(obs, obs), expected="Accept")
        return True
    return False


def check_cases(ctx, name, cases):
    """Correspondence of `cases` (list of Case) with the model + oracle.  Returns number of mismatches
    that are not explained by a known defect."""
    defs = tables_defs()
    lits = ["(%s, %s)" % (coq_units(c.abstract), cz(c.obs)) for c in cases]
    bad = ctx.coq_check_cases(name, IMPORTS, "agree gen_tbl lvl_tbls false", lits, shard=1500, defs=defs)
    unexplained = 0
    if bad:
        sub = [cases[i] for i in bad]
        bad2 = ctx.coq_check_cases(name + "_pinned", IMPORTS, "agree gen_tbl lvl_tbls true",
                                   [lits[i] for i in bad], shard=1500, defs=defs)
        ctx.corr_cases -= len(sub)
        bad2 = set(bad2 or [])
        for k, c in enumerate(sub):
            if k not in bad2 and c.obs >= 100:
                # the implementation shows the pinned-tree defect exactly as the Pinned model variant does
                ctx.corr_mismatches -= 1
                continue
            unexplained += 1
            model = ctx.coq_eval(name + "_mm", IMPORTS, "verdict_code (run_t gen_tbl lvl_tbls false (map mk_unit %s))"
                                 % coq_units(c.abstract), defs=defs) if unexplained <= 3 else "?"
            ctx.obligation("corr:%s model/implementation differ" % name, False, "corr-shard",
                           "label=%s cfg=%s units=%r impl=%s model=%s" % (
                               c.label, c.cfg, c.abstract, CODE_NAME.get(c.obs, c.obs), model))
    return unexplained


def check_rules_in_coq(ctx, name, cases):
    """The Coq rule checkers (what the theorems talk about) == the Python oracle, rule by rule, on
    single sequences; rule 9 (level pattern) may differ only through the known symbol_re defect."""
    defs = tables_defs()
    seqs = []
    for c in cases:
        for s in split_sequences(c.abstract):
            seqs.append((s, c))
    lits = ["(%s, %s)" % (coq_units(s), clist([1 if b else 0 for b in rule_vector(s)])) for s, _ in seqs]
    bad = ctx.coq_check_cases(name, IMPORTS, "rules_agree gen_tbl lvl_tbls", lits, shard=1500, defs=defs)
    ctx.corr_cases -= len(lits)
    for i in bad or []:
        s, c = seqs[i]
        v = rule_vector(s)
        got = ctx.coq_eval(name + "_rv", IMPORTS, "map bool_code (rules_vector gen_tbl lvl_tbls (map mk_unit %s))" % coq_units(s), defs=defs)
        py = [1 if b else 0 for b in v]
        coq = [int(x) for x in re.findall(r"\d+", got or "")]
        diff = [RULES[k] for k in range(min(len(py), len(coq))) if py[k] != coq[k]]
        ctx.corr_mismatches -= 1
        if diff == ["level_pattern_ok"] and not v[8]:
            # real Matcher (table) accepts what the regex does not: the symbol_re defect
            data, _ = assemble(c.units)
            ctx.violation("nfa-epsilon-transitions-bidirectional",
                          {"config": c.cfg, "units": [list(t) for t in s], "level": s[0][4]},
                          "the real Matcher's automaton for the level pattern accepts a symbol sequence the pattern does not match",
                          observed="level automaton accepts", expected="no match")
        else:
            ctx.obligation("corr:%s Coq rules vs oracle rules differ" % name, False, "corr-shard",
                           "units=%r python=%r coq=%r (%s)" % (s, py, coq, diff))


# ------------------------------------------------------------------------------------------
def exhaustive_orderings(ctx, cfg, maxlen, level, alphabet="HhPFDpaE"):
    """All orderings of length <= 2, and all orderings of length <= maxlen that start with a sequence
    header (anything else is rejected at the first unit), correct offsets, consecutive numbering:
    H header, h byte-distinct header, P picture, F first fragment, D next data fragment,
    p padding, a auxiliary data, E end of sequence."""
    major = 3
    pic_cfg = cfg if not cfg.frag else next(c for c in CONFIGS if c.profile == cfg.profile and not c.frag and not c.depth_ho)
    frag_cfg = cfg if cfg.frag else next(c for c in CONFIGS if c.profile == cfg.profile and c.frag)
    pics = [u for u in pic_cfg.picture_units(True) if u.tag == 1]
    flib = frag_cfg.picture_units(True)
    firsts = [u for u in flib if u.tag == 2]
    datas = []
    for u in flib:
        if u.tag == 2:
            datas.append([])
        elif u.tag == 3:
            datas[-1].append(u)
    H = cfg.header(major, level, 0)
    h = cfg.header(major, level, 1)
    out = []
    words = [w for n in (1, 2) for w in itertools.product(alphabet, repeat=n)]
    words += [("H",) + w for n in range(2, maxlen) for w in itertools.product(alphabet, repeat=n)]
    if True:
        for word in words:
            units = []
            picnum = 0
            k = 0
            np = 0
            cur_n = 0
            for ch in word:
                if ch == "H":
                    units.append(H)
                elif ch == "h":
                    units.append(h)
                elif ch == "P":
                    units.append(pics[np % len(pics)].with_picnum(picnum))
                    cur_n = picnum
                    picnum += 1
                    np += 1
                elif ch == "F":
                    units.append(firsts[0].with_picnum(picnum))
                    cur_n = picnum
                    picnum += 1
                    k = 0
                    np += 1
                elif ch == "D":
                    d = datas[0][k % len(datas[0])]
                    units.append(d.with_picnum(cur_n))
                    k += 1
                elif ch == "p":
                    units.append(pad(2))
                elif ch == "a":
                    units.append(aux(1))
                elif ch == "E":
                    units.append(eos())
            out.append((units, "".join(word)))
    return out


def run(ctx):
    I = impl()
    rng = ctx.rng
    ctx.extra["rule"] = (
        "real byte streams from real encoder payloads for 8 tiny configurations (HQ/LD x frames/fields x pictures/fragments, "
        "1/2/4/6 slices, symmetric/asymmetric transform), headers with major_version 1-3, levels 0,1,3,64-66, byte-distinct variants; "
        "(a) ALL orderings up to length N over {header, other header, picture, first fragment, data fragment, padding, aux, end} "
        "with correct offsets; (b) conformant sequences/streams with 0-3 structured mutations (offsets zero/wrong, picture numbers "
        "skipped/repeated/odd/wrapping, fragments' counts/coordinates/numbers, inserted/deleted/swapped units, header version/level/"
        "profile, padding length desynchronisation, truncation). Each case: real validator verdict == model verdict (exception class), "
        "and oracle: accept <-> all ten independent rules (Python re-implementation, also compared with the Coq rule checkers). "
        "A case is non-trivial when the validator processed at least three data units.")
    ctx.trusted.append("C01 harness uses permissive level CONSTRAINT columns (only `level` pinned) so that 8x4 pictures can carry "
                       "levels 1-7 and 64-66; level SEQUENCE restrictions (the ordering patterns) are the real CSV")
    ctx.trusted.append("matcher automata in the correspondence run are dumped from the real symbol_re.Matcher (reachable state sets); "
                       "the oracle decides the patterns independently with Python re")
    # ---- static table checks ---------------------------------------------------------------
    defs = tables_defs()
    dump = "[" + "; ".join("(%d, %s)" % (int(p), clist([int(c) for c in I["tables"].PROFILES[p].allowed_parse_codes]))
                           for p in I["tables"].Profiles) + "]"
    r = ctx.coq_eval("profiles", IMPORTS, "profiles_agree %s" % dump)
    ctx.obligation("corr:profile_allows == vc2_data_tables.PROFILES", r == "true", "corr-shard", str(r))
    # hypotheses of the theorems about the automata, on the real tables
    r = ctx.coq_eval("automata_hyps", IMPORTS, "automata_hyps_b gen_tbl lvl_tbls", defs=defs)
    ctx.obligation("corr:real matcher tables satisfy the automaton hypotheses of the C01 theorems", r == "true", "corr-shard", str(r))

    cases = []
    # ---- corpus ------------------------------------------------------------------------------
    for units, label, cfgname in corpus_cases():
        cases.append(make_case(units, "corpus:" + label, cfgname))
    # ---- equal-length header pairs differing only in the last bits / first byte / a middle byte -----
    for units, label, cfgname in header_pair_cases():
        cases.append(make_case(units, label, cfgname))
        ctx.count(1, key=label, bucket="header-pairs")
    ctx.note("header tail pairs cover header bit lengths mod 8 = %r" % (header_pair_cases.residues,))
    if header_pair_cases.residues != list(range(8)):
        ctx.obligation("generator:header tail pairs for every bit-length residue", False, "corr-shard",
                       "residues covered: %r" % (header_pair_cases.residues,))
    # ---- (a) exhaustive orderings ---------------------------------------------------------------
    full = "HhPFDpaE"
    plan = ctx.pick(
        [("hq-frames-frag1-2x2", 5, 0, "HhPFDpE"), ("hq-frames-pic-2x1", 4, 1, full), ("ld-fields-frag4-2x2", 4, 0, full),
         ("ld-frames-pic-2x1", 4, 64, full), ("hq-fields-pic-1x1", 4, 66, full), ("hq-fields-frag2-3x2", 4, 3, full)],
        [("hq-frames-frag1-2x2", 6, 0, full), ("hq-frames-pic-2x1", 6, 1, "HhPFDpE"), ("ld-fields-frag4-2x2", 5, 0, full),
         ("ld-frames-pic-2x1", 5, 64, full), ("hq-fields-pic-1x1", 5, 66, full), ("hq-fields-frag2-3x2", 5, 3, full),
         ("ld-frames-frag3-3x2", 5, 65, full), ("hq-frames-pic-asym-2x1", 5, 2, full)])
    for cfgname, maxlen, level, alphabet in plan:
        cfg = CONFIG_BY_NAME[cfgname]
        for units, word in exhaustive_orderings(ctx, cfg, maxlen, level, alphabet):
            c = make_case(units, "order:%s:L%d" % (word, level), cfgname)
            cases.append(c)
            ctx.count(1, key=("o", cfgname, level, word) if len(word) >= 3 and word[0] == "H" else None,
                      bucket="orderings-len%d" % len(word))
    ctx.exhaustive = True
    # ---- (b) mutated conformant streams ------------------------------------------------------------
    n_random = ctx.pick(1600, 25000)
    maxlen = ctx.pick(10, 12)
    tries = 0
    made = 0
    while made < n_random and tries < 5 * n_random:
        tries += 1
        cfg = rng.choice(CONFIGS)
        level = rng.choice([0, 0, 0, 1, 1, 3, 64, 65, 66])
        if not admissible(cfg, level):
            level = 0
        nat = cfg.natural_version
        major = rng.choice([nat, nat, nat, 3]) if nat < 3 else 3
        hv = rng.choice([0, 0, 0, 2]) if major == 3 else 0
        nseq = rng.choice([1, 1, 1, 2])
        units = []
        for _ in range(nseq):
            units += valid_sequence(cfg, rng, major=major, level=level, hdr_variant=hv)
        labels = []
        for _ in range(rng.choice([0, 1, 1, 1, 2, 2, 3])):
            if not units:
                break
            units, lab = mutate(units, cfg, rng, major, level)
            labels.append(lab)
        if not units or len(units) > maxlen:
            continue
        data, abstract = assemble(units)
        if not payloads_parseable(abstract, units) or not desync_safe(units, data):
            continue
        c = make_case(units, "+".join(labels) or "conformant", cfg.name)
        cases.append(c)
        made += 1
        ctx.count(1, key=vlib.digest(c.abstract) if len(units) >= 3 else None,
                  bucket="mutations-%d" % len(labels))
    for c in cases[:3] + cases[-3:]:
        ctx.sample({"label": c.label, "config": c.cfg, "units": [list(t) for t in c.abstract][:6], "verdict": CODE_NAME.get(c.obs, c.obs)})
    hist = {}
    for c in cases:
        hist[CODE_NAME.get(c.obs, c.obs)] = hist.get(CODE_NAME.get(c.obs, c.obs), 0) + 1
    ctx.extra["verdict_histogram"] = hist
    # ---- oracle ------------------------------------------------------------------------------------
    for c in cases:
        if payloads_parseable(c.abstract):
            judge_oracle(ctx, c)
    # ---- correspondence ------------------------------------------------------------------------------
    check_cases(ctx, "stream", cases)
    check_rules_in_coq(ctx, "rules", cases[:: ctx.pick(3, 1)])
    ctx.note("verdict classes seen: %d" % len(hist))


def corpus_cases():
    """Past failures / the known-defect reproducers (minimal)."""
    out = []
    A = CONFIG_BY_NAME["hq-frames-pic-2x1"]
    C = CONFIG_BY_NAME["hq-frames-frag1-2x2"]
    pA = [u for u in A.picture_units(False) if u.tag == 1]
    pA3 = [u for u in A.picture_units(True) if u.tag == 1]
    fl = C.picture_units(True)
    f0 = [u for u in fl if u.tag == 2][0]
    fd = [u for u in fl if u.tag == 3]
    # defect: wrong previous_parse_offset after a picture with next_parse_offset 0
    out.append(([A.header(2), pA[0].with_picnum(0).copy(npo=0), eos().copy(ppo=5)], "ppo-wrong-after-npo-zero", A.name))
    out.append(([A.header(2), pA[0].with_picnum(0).copy(npo=0), pA[1].with_picnum(1).copy(ppo=1), eos()], "ppo-wrong-after-npo-zero-2", A.name))
    # defect: slice-bearing fragment with nothing before it / after a plain picture
    out.append(([C.header(3), fd[0].with_picnum(0), eos()], "data-fragment-first", C.name))
    out.append(([C.header(3), pA3[0].with_picnum(0), fd[0].with_picnum(0), eos()], "data-fragment-after-picture", C.name))
    out.append(([C.header(3), pA3[0].with_picnum(0), fd[0].with_picnum(7), eos()], "data-fragment-after-picture-other-number", C.name))
    # complete fragmented picture followed by one more data fragment
    out.append(([C.header(3), f0.with_picnum(0)] + [d.with_picnum(0) for d in fd[:4]] + [fd[0].with_picnum(0), eos()], "extra-data-fragment", C.name))
    # major_version 0 (MajorVersionTooLow), and a version-3 header announcing a preset that needs 3 on a version-2 header
    out.append(([A.header(0), eos()], "major-version-zero", A.name))
    out.append(([A.header(2, 0, 2), eos()], "preset-needs-version-3", A.name))
    # level 1: pictures mixed with fragments (symbol_re defect)
    out.append(([C.header(3, 1), pA3[0].with_picnum(0), f0.with_picnum(1)] + [d.with_picnum(1) for d in fd[:4]] + [eos()], "level1-mixed", C.name))
    return out


def replay(ctx, data):
    inp = data["input"]
    raw = bytes(bytearray.fromhex(inp["bytes_hex"])) if "bytes_hex" in inp else None
    print("replaying", data.get("key"), inp.get("label"), inp.get("config"))
    if raw is None:
        print("no byte stream in this replay (automaton-level finding): units", inp.get("units"))
        I = impl()
        us = [tuple(t) for t in inp["units"]]
        pat = I["LSR"][I["tables"].Levels(inp["level"])].sequence_restriction_regex
        m = I["Matcher"](pat)
        ok = all(m.match_symbol(unit_symbol(t)) for t in us) and m.is_complete()
        print("real Matcher accepts:", ok, " independent regex accepts:", pattern_ok(pat, us))
        return 1 if ok != pattern_ok(pat, us) else 0
    obs, pics, exc = validate(raw)
    abstract = [tuple(t) for t in inp["units"]]
    ok, failures, _ = stream_rules(abstract)
    print("validator verdict:", CODE_NAME.get(obs, obs), repr(exc) if exc is not None else "")
    print("rules violated (sequence index, rules):", failures)
    bad = obs >= 100 or (obs == 0) != ok
    print("property violated on this input:", bad)
    return 1 if bad else 0
