"""C21 harness: random description programs run on the real Serialiser/Deserialiser (real fixeddict
context types) and on the Gallina interpreters of Model/SerDes.v (tie C), plus the property oracle:
round trip, unused value fails, missing value fails, the deserialiser never overwrites, context type
changes keep the root description consistent."""
from __future__ import print_function

import copy
import glob
import json
import os
from io import BytesIO

from vlib import cz, cbool, clist, VERIF

N_TARGETS = 8          # targets t0..t7 used by programs; t99 is never used by any program
EXTRA = 99
ERR = {
    "ReusedTargetError": 1, "ListTargetExhaustedError": 2, "ListTargetContainsNonListError": 3,
    "UnusedTargetError": 4, "UnclosedBoundedBlockError": 5, "UnclosedNestedContextError": 6,
    "KeyError": 7, "OutOfRangeError": 8, "ValueError": 9, "EOFError": 10, "TypeError": 11,
    "AttributeError": 11, "IndexError": 12, "Exception": 12,
}
INT_KINDS = ("nbits", "uint_lit", "uint", "sint")


def impl():
    from bitarray import bitarray
    from vc2_conformance import fixeddict
    from vc2_conformance.bitstream import io as bio
    from vc2_conformance.bitstream import serdes
    names = ["t%d" % i for i in range(N_TARGETS)] + ["t%d" % EXTRA]
    types = [dict] + [fixeddict.fixeddict("T%d" % i, *names) for i in (1, 2, 3)]
    return {"bitarray": bitarray, "bio": bio, "serdes": serdes, "types": types}


def tname(t):
    return "t%d" % t


# --------------------------------------------------------------------------------------------
# descriptions as trees  ("I", z) ("B", b) ("Bits", [0/1]) ("Bytes", [ints]) ("L", [..]) ("C", ty, [[t, v]..])
# --------------------------------------------------------------------------------------------
def to_py(I, v):
    k = v[0]
    if k == "I":
        return int(v[1])
    if k == "B":
        return bool(v[1])
    if k == "Bits":
        return I["bitarray"]([int(b) for b in v[1]])
    if k == "Bytes":
        return bytes(bytearray(v[1]))
    if k == "L":
        return [to_py(I, x) for x in v[1]]
    if k == "C":
        return I["types"][v[1]]((tname(t), to_py(I, x)) for t, x in v[2])
    raise ValueError(k)


def to_tree(I, o):
    if isinstance(o, bool):
        return ["B", bool(o)]
    if isinstance(o, int):
        return ["I", int(o)]
    if isinstance(o, I["bitarray"]):
        return ["Bits", [int(b) for b in o.tolist()]]
    if isinstance(o, (bytes, bytearray)):
        return ["Bytes", list(bytearray(o))]
    if isinstance(o, list):
        return ["L", [to_tree(I, x) for x in o]]
    if isinstance(o, dict):
        ty = [i for i, T in enumerate(I["types"]) if type(o) is T]
        if len(ty) != 1:
            raise ValueError("unknown context type %r" % type(o))
        return ["C", ty[0], [[int(k[1:]), to_tree(I, x)] for k, x in o.items()]]
    raise ValueError("uncanonicalisable %r" % (o,))


def cval(v):
    k = v[0]
    if k == "I":
        return "(VI %s)" % cz(v[1])
    if k == "B":
        return "(VB %s)" % cbool(v[1])
    if k == "Bits":
        return "(VBits %s)" % clist(v[1], cbool)
    if k == "Bytes":
        return "(VBytes %s)" % clist(v[1])
    if k == "L":
        return "(VL %s)" % clist(v[1], cval)
    if k == "C":
        return "(VC %s %s)" % (cz(v[1]), cfields(v[2]))
    raise ValueError(k)


def cfields(f):
    return clist(f, lambda kv: "(%s, %s)" % (cz(kv[0]), cval(kv[1])))


def cdefaults(D):
    return clist(sorted(D.items()), lambda kv: "(%s, %s)" % (cz(int(kv[0])), cfields(sorted(kv[1].items()))))


def py_defaults(I, D):
    return dict((I["types"][int(ty)], dict((tname(int(t)), to_py(I, v)) for t, v in m.items())) for ty, m in D.items())


# --------------------------------------------------------------------------------------------
# program syntax (JSON-able lists), Coq emission, Python interpretation on a real SerDes object
#   ["leaf", kind, t, intexpr|None, var|None]   ["align", t] ["bbegin", intexpr] ["bend", t] ["list", t]
#   ["enter", t] ["leave"] ["settype", ty] ["computed", t, intexpr] ["itc", t, var]
#   ["if", boolexpr, then, else] ["rep", intexpr, body]
#   intexpr: ["c", n] ["v", x] ["clamp", e, lo, hi] ["add", e, n];  boolexpr: ["bv", x] ["cb", x] ["lt", e, n] ["not", b]
# --------------------------------------------------------------------------------------------
def c_int(e):
    if e[0] == "c":
        return cz(e[1])
    if e[0] == "v":
        return "(asZ %s)" % e[1]
    if e[0] == "clamp":
        return "(Z.max %s (Z.min %s %s))" % (cz(e[2]), cz(e[3]), c_int(e[1]))
    if e[0] == "add":
        return "(%s + %s)" % (c_int(e[1]), cz(e[2]))
    raise ValueError(e)


def c_bool(e):
    if e[0] == "bv":
        return "(asB %s)" % e[1]
    if e[0] == "cb":
        return e[1]
    if e[0] == "lt":
        return "(%s <? %s)" % (c_int(e[1]), cz(e[2]))
    if e[0] == "not":
        return "(negb %s)" % c_bool(e[1])
    raise ValueError(e)


def p_int(e, env):
    if e[0] == "c":
        return e[1]
    if e[0] == "v":
        return int(env[e[1]])
    if e[0] == "clamp":
        return max(e[2], min(e[3], p_int(e[1], env)))
    if e[0] == "add":
        return p_int(e[1], env) + e[2]
    raise ValueError(e)


def p_bool(e, env):
    if e[0] in ("bv", "cb"):
        return bool(env[e[1]])
    if e[0] == "lt":
        return p_int(e[1], env) < e[2]
    if e[0] == "not":
        return not p_bool(e[1], env)
    raise ValueError(e)


COQ_LEAF = {"bool": "OBool %s", "nbits": "ONBits %s %s", "uint_lit": "OUintLit %s %s", "bitarray": "OBitArr %s %s",
            "bytes": "OBytes %s %s", "uint": "OUint %s", "sint": "OSint %s"}


def emit(stmts, rest="Ret tt"):
    """Coq term of type [prog unit] for the statement list followed by `rest`."""
    if not stmts:
        return rest
    s, tail = stmts[0], emit(stmts[1:], rest)
    k = s[0]
    if k == "leaf":
        if s[3] is None:
            o = COQ_LEAF[s[1]] % cz(s[2])
        else:
            o = COQ_LEAF[s[1]] % (cz(s[2]), c_int(s[3]))
        return "Op (%s) (fun %s => %s)" % (o, s[4] or "_", tail)
    if k == "itc":
        return "Op (OIsComplete %s) (fun %s => %s)" % (cz(s[1]), s[2], tail)
    if k == "if":
        return "pbind (if %s then %s else %s) (fun _ => %s)" % (c_bool(s[1]), emit(s[2]), emit(s[3]), tail)
    if k == "rep":
        return "pbind (rep (Z.to_nat %s) (%s)) (fun _ => %s)" % (c_int(s[1]), emit(s[2]), tail)
    o = {
        "align": lambda: "OByteAlign %s" % cz(s[1]),
        "bbegin": lambda: "OBBegin %s" % c_int(s[1]),
        "bend": lambda: "OBEnd %s" % cz(s[1]),
        "list": lambda: "ODeclList %s" % cz(s[1]),
        "enter": lambda: "OSubEnter %s" % cz(s[1]),
        "leave": lambda: "OSubLeave",
        "settype": lambda: "OSetType %s" % cz(s[1]),
        "computed": lambda: "OComputed %s (VI %s)" % (cz(s[1]), c_int(s[2])),
    }[k]()
    return "Op (%s) (fun _ => %s)" % (o, tail)


class OutOfDomain(Exception):
    """the description holds a value that Python's duck typing accepts for the primitive consuming it
    but which is outside the typed domain of the model (e.g. an int given to bool())"""


def in_domain(I, kind, v):
    if kind == "bool":
        return isinstance(v, bool)
    if kind in INT_KINDS:
        return not isinstance(v, bool)  # non-ints raise TypeError in the implementation: modelled
    if kind == "bitarray":
        return isinstance(v, (int, I["bitarray"]))
    return isinstance(v, (int, bytes))


def interp(I, sd, stmts, env, hook=None, trace=None):
    """Drive a real Serialiser/Deserialiser with the program."""
    for s in stmts:
        k = s[0]
        if k == "leaf":
            kind, t = s[1], tname(s[2])
            sd._verif_kind = kind
            if kind in ("bool", "uint", "sint"):
                v = getattr(sd, kind)(t)
            else:
                v = getattr(sd, kind)(t, p_int(s[3], env))
            if s[4]:
                env[s[4]] = v
            if trace is not None and kind in INT_KINDS + ("bool",):
                trace.append(v)
        elif k == "itc":
            env[s[2]] = sd.is_target_complete(tname(s[1]))
        elif k == "if":
            interp(I, sd, s[2] if p_bool(s[1], env) else s[3], dict(env), hook, trace)
        elif k == "rep":
            for _ in range(max(0, p_int(s[1], env))):
                interp(I, sd, s[2], dict(env), hook, trace)
        elif k == "align":
            sd._verif_kind = "bitarray"
            sd.byte_align(tname(s[1]))
        elif k == "bbegin":
            sd.bounded_block_begin(p_int(s[1], env))
        elif k == "bend":
            sd._verif_kind = "bitarray"
            sd.bounded_block_end(tname(s[1]))
        elif k == "list":
            sd.declare_list(tname(s[1]))
        elif k == "enter":
            sd.subcontext_enter(tname(s[1]))
        elif k == "leave":
            sd.subcontext_leave()
        elif k == "settype":
            sd.set_context_type(I["types"][s[1]])
        elif k == "computed":
            sd.computed_value(tname(s[1]), p_int(s[2], env))
        else:
            raise ValueError(s)
        if hook is not None and k not in ("if", "rep"):
            hook(sd, s)


def count_ops(stmts):
    n = 0
    for s in stmts:
        if s[0] == "if":
            n += count_ops(s[2]) + count_ops(s[3])
        elif s[0] == "rep":
            n += count_ops(s[2])
        else:
            n += 1
    return n


def uses(stmts, kinds):
    for s in stmts:
        if s[0] in kinds:
            return True
        if s[0] == "if" and (uses(s[2], kinds) or uses(s[3], kinds)):
            return True
        if s[0] == "rep" and uses(s[2], kinds):
            return True
    return False


# --------------------------------------------------------------------------------------------
# random programs
# --------------------------------------------------------------------------------------------
class Gen(object):
    def __init__(self, rng, max_ops=25, max_depth=4, chaos=0.04):
        self.rng, self.budget, self.max_depth, self.chaos = rng, max_ops, max_depth, chaos
        self.nvar = 0
        self.features = set()

    def var(self):
        self.nvar += 1
        return "x%d" % self.nvar

    def int_expr(self, ivars, lo, hi):
        r = self.rng
        if ivars and r.random() < 0.45:
            self.features.add("data-dependent")
            return ["clamp", ["v", r.choice(ivars)], lo, hi]
        return ["c", r.randrange(lo, hi + 1)]

    def target(self, fr, in_loop):
        """(target, is_list) for a value access in frame `fr`."""
        r = self.rng
        lists = sorted(fr["lists"])
        free = [t for t in range(N_TARGETS) if t not in fr["used"]]
        if r.random() < self.chaos and fr["used"]:
            self.features.add("chaos-target")
            return r.choice(sorted(fr["used"])), False
        if lists and (in_loop or r.random() < 0.4 or not free):
            return r.choice(lists), True
        if in_loop or not free:
            return None, False
        t = r.choice(free)
        fr["used"].add(t)
        return t, False

    def block(self, depth, fr, ivars, bvars, in_loop, in_bb, sub_depth):
        r = self.rng
        out = []
        n = r.randrange(1, 8)
        ivars, bvars = list(ivars), list(bvars)
        for _ in range(n):
            if self.budget <= 0:
                break
            c = r.random()
            if c < 0.42:
                kind = r.choice(["bool", "nbits", "nbits", "uint_lit", "bitarray", "bytes", "uint", "uint", "sint"])
                t, is_list = self.target(fr, in_loop)
                if t is None:
                    continue
                arg = None
                if kind == "nbits":
                    arg = self.int_expr(ivars, 0, r.choice([3, 3, 8, 12]))
                elif kind == "uint_lit":
                    arg = self.int_expr(ivars, 0, 2)
                elif kind == "bitarray":
                    arg = self.int_expr(ivars, 0, 10)
                elif kind == "bytes":
                    arg = self.int_expr(ivars, 0, 3)
                if arg is not None and r.random() < 0.02:
                    arg = ["c", -r.randrange(1, 3)]
                    self.features.add("negative-length")
                v = None
                if kind in INT_KINDS + ("bool",) and r.random() < 0.6:
                    v = self.var()
                out.append(["leaf", kind, t, arg, v])
                self.budget -= 1
                if v:
                    (bvars if kind == "bool" else ivars).append(v)
                if is_list:
                    self.features.add("list-value")
            elif c < 0.50:
                free = [t for t in range(N_TARGETS) if t not in fr["used"]]
                if not free or in_loop:
                    continue
                t = r.choice(free)
                fr["used"].add(t)
                fr["lists"].add(t)
                out.append(["list", t])
                self.budget -= 1
            elif c < 0.64 and sub_depth < self.max_depth:
                t, is_list = self.target(fr, in_loop)
                if t is None:
                    continue
                self.budget -= 2
                out.append(["enter", t])
                sub = {"used": set(), "lists": set()}
                if r.random() < 0.7:
                    out.append(["settype", r.randrange(0, 4)])
                    self.budget -= 1
                    self.features.add("typed-subcontext")
                    if is_list:
                        self.features.add("typed-subcontext-in-list")
                body = self.block(depth + 1, sub, ivars, bvars, False, in_bb, sub_depth + 1)
                out.extend(body)
                if any(s[0] == "list" for s in body):
                    self.features.add("list-in-subcontext")
                if r.random() > self.chaos:
                    out.append(["leave"])
            elif c < 0.72 and (not in_bb or r.random() < self.chaos):
                t, _ = self.target(fr, in_loop)
                if t is None:
                    continue
                self.budget -= 2
                out.append(["bbegin", self.int_expr(ivars, -1 if r.random() < 0.1 else 0, r.choice([4, 12, 24]))])
                out.extend(self.block(depth + 1, fr, ivars, bvars, in_loop, True, sub_depth))
                out.append(["bend", t])
                self.features.add("bounded-block")
            elif c < 0.77:
                t, _ = self.target(fr, in_loop)
                if t is None:
                    continue
                out.append(["align", t])
                self.budget -= 1
                self.features.add("byte-align")
            elif c < 0.83:
                t, _ = self.target(fr, in_loop)
                if t is None:
                    continue
                e = ["add", ["v", r.choice(ivars)], r.randrange(0, 5)] if ivars and r.random() < 0.6 else ["c", r.randrange(0, 100)]
                out.append(["computed", t, e])
                self.budget -= 1
                self.features.add("computed")
            elif c < 0.90 and depth < self.max_depth and (bvars or ivars):
                if bvars and r.random() < 0.6:
                    cond = ["bv", r.choice(bvars)]
                else:
                    if not ivars:
                        continue
                    cond = ["lt", ["v", r.choice(ivars)], r.randrange(0, 6)]
                if r.random() < 0.3:
                    cond = ["not", cond]
                self.budget -= 1
                fa = {"used": set(fr["used"]), "lists": set(fr["lists"])}
                fb = {"used": set(fr["used"]), "lists": set(fr["lists"])}
                a = self.block(depth + 1, fa, ivars, bvars, in_loop, in_bb, sub_depth)
                b = self.block(depth + 1, fb, ivars, bvars, in_loop, in_bb, sub_depth) if r.random() < 0.7 else []
                # a list declared in only one branch is unusable afterwards
                fr["used"] |= fa["used"] | fb["used"]
                fr["lists"] |= fa["lists"] & fb["lists"]
                out.append(["if", cond, a, b])
                self.features.add("branch")
            elif c < 0.97 and depth < self.max_depth and fr["lists"]:
                self.budget -= 1
                body = self.block(depth + 1, fr, ivars, bvars, True, in_bb, sub_depth)
                if body:
                    out.append(["rep", self.int_expr(ivars, 0, 3), body])
                    self.features.add("loop")
            elif c < 0.985 and r.random() < 0.1:
                t = r.randrange(0, N_TARGETS)
                v = self.var()
                out.append(["itc", t, v])
                self.budget -= 1
                bvars.append(v)  # python bool; Coq bool
                # mark as Coq-bool variable by name
                self.coqbools = getattr(self, "coqbools", set()) | {v}
                self.features.add("is_target_complete")
            elif r.random() < 0.04:
                out.append(r.choice([["leave"], ["bend", r.randrange(0, N_TARGETS)], ["settype", r.randrange(0, 4)]]))
                self.budget -= 1
                self.features.add("raw-structure")
        return out


def fix_coqbools(stmts, cb):
    """itc variables are Coq bools: rewrite ["bv", x] into ["cb", x] for them."""
    def fb(e):
        if e[0] == "bv" and e[1] in cb:
            return ["cb", e[1]]
        if e[0] == "not":
            return ["not", fb(e[1])]
        return e
    out = []
    for s in stmts:
        if s[0] == "if":
            out.append(["if", fb(s[1]), fix_coqbools(s[2], cb), fix_coqbools(s[3], cb)])
        elif s[0] == "rep":
            out.append(["rep", s[1], fix_coqbools(s[2], cb)])
        else:
            out.append(s)
    return out


def gen_program(rng, chaos=0.04):
    g = Gen(rng, max_ops=25, max_depth=4, chaos=chaos)
    root = {"used": set(), "lists": set()}
    prog = []
    if rng.random() < 0.5:
        prog.append(["settype", rng.randrange(0, 4)])
    prog += g.block(0, root, [], [], False, False, 0)
    prog = fix_coqbools(prog, getattr(g, "coqbools", set()))
    return prog, sorted(g.features)


# --------------------------------------------------------------------------------------------
# running the implementation
# --------------------------------------------------------------------------------------------
def err_code(e):
    return ERR.get(type(e).__name__, 100)


def run_ser(I, prog, ctx_tree, D, hook=None, trace=None):
    """-> (obs, bytes or None, final root description tree or None)"""
    f = BytesIO()
    w = I["bio"].BitstreamWriter(f)
    ser = I["serdes"].Serialiser(w, to_py(I, ctx_tree), py_defaults(I, D))
    get = ser._get_context_value

    def checked_get(target):
        v = get(target)
        if not in_domain(I, ser._verif_kind, v):
            raise OutOfDomain(repr(v))
        return v
    ser._get_context_value = checked_get
    try:
        interp(I, ser, prog, {}, hook, trace)
    except OutOfDomain:
        raise
    except Exception as e:
        return ["err", err_code(e), type(e).__name__], None, None
    try:
        ser.verify_complete()
        v = 0
    except Exception as e:
        v = err_code(e)
    w.flush()
    out = list(bytearray(f.getvalue()))
    tree = to_tree(I, ser.context)
    return ["ok", out, tree, v], out, tree


def run_des(I, prog, data, hook=None, trace=None):
    r = I["bio"].BitstreamReader(BytesIO(bytes(bytearray(data))))
    des = I["serdes"].Deserialiser(r)
    try:
        interp(I, des, prog, {}, hook, trace)
    except Exception as e:
        return ["err", err_code(e), type(e).__name__], des
    try:
        des.verify_complete()
        v = 0
    except Exception as e:
        v = err_code(e)
    tree = to_tree(I, des.context)
    return ["ok", [I["bio"].to_bit_offset(*r.tell())], tree, v], des


def cobs(o):
    if o[0] == "err":
        return "(ObsErr %s)" % cz(o[1])
    return "(ObsOk %s %s %s)" % (clist(o[1]), cval(o[2]), cz(o[3]))


def coq_case(case):
    return "(%s, %s, %s, %s, %s, %s, %s)" % (
        emit(case["prog"]), cz(case["ctx"][1]), cfields(case["ctx"][2]), cdefaults(case["D"]),
        cobs(case["ser_obs"]), clist(case["des_in"]), cobs(case["des_obs"]))


# --------------------------------------------------------------------------------------------
# the relation between the serialiser's final description and the deserialised one
# (the statement of C21_roundtrip, Proofs/SerDesProofs.v [vle]) evaluated on trees
# --------------------------------------------------------------------------------------------
def dle(a, b):
    """leaf written -> leaf read back: equal, bit/byte strings possibly right-padded with zeros"""
    if a[0] != b[0]:
        return False
    if a[0] in ("Bits", "Bytes"):
        n = len(a[1])
        return list(b[1][:n]) == list(a[1]) and all(x == 0 for x in b[1][n:])
    return a[0] in ("I", "B") and a[1] == b[1]


def vle(D, a, b):
    if a[0] in ("I", "B", "Bits", "Bytes"):
        return dle(a, b)
    if a[0] == "L":
        return b[0] == "L" and len(a[1]) == len(b[1]) and all(vle(D, x, y) for x, y in zip(a[1], b[1]))
    if a[0] == "C":
        # Python dict equality ignores the dict subclass; the deserialiser's dictionary is a plain dict
        # (type 0) unless the program set a type, in which case both have that type
        if b[0] != "C" or b[1] not in (a[1], 0):
            return False
        fa, fb = dict((t, v) for t, v in a[2]), dict((t, v) for t, v in b[2])
        for t in set(fa) | set(fb):
            ds = [m[str(t)] for m in D.values() if str(t) in m]
            if t not in fb:
                return False
            if t not in fa:
                if not any(dle(d, fb[t]) for d in ds):
                    return False
            elif fa[t][0] == "L" and fb[t][0] == "L":
                # [lle]: the deserialised list is the serialiser's list with default-derived elements
                # inserted (a default is used, without consuming an element, whenever the list is exhausted)
                la, lb = fa[t][1], fb[t][1]

                def lle(i, j):
                    if j == len(lb):
                        return i == len(la)
                    if i < len(la) and vle(D, la[i], lb[j]) and lle(i + 1, j + 1):
                        return True
                    return any(dle(d, lb[j]) for d in ds) and lle(i, j + 1)
                if not lle(0, 0):
                    return False
            elif not vle(D, fa[t], fb[t]):
                return False
        return True
    return False


def ext(a, b):
    """b extends a: nothing that was in a has been changed or removed (context types may change)"""
    if a[0] == "L":
        return b[0] == "L" and len(b[1]) >= len(a[1]) and all(ext(x, y) for x, y in zip(a[1], b[1]))
    if a[0] == "C":
        if b[0] != "C":
            return False
        fb = dict((t, v) for t, v in b[2])
        return all(t in fb and ext(v, fb[t]) for t, v in a[2])
    return a == b


def leaves(tree, path=()):
    """(path, value) of every leaf / list / dict below a description"""
    out = []
    if tree[0] == "C":
        for i, (t, v) in enumerate(tree[2]):
            out.append((path + (2, i, 1), ("key", t), v))
            out.extend(leaves(v, path + (2, i, 1)))
    elif tree[0] == "L":
        for i, v in enumerate(tree[1]):
            out.extend(leaves(v, path + (1, i)))
    return out


def subtree(tree, path):
    for p in path:
        tree = tree[p]
    return tree


def dicts(tree, path=()):
    out = []
    if tree[0] == "C":
        out.append(path)
        for i, (t, v) in enumerate(tree[2]):
            out.extend(dicts(v, path + (2, i, 1)))
    elif tree[0] == "L":
        for i, v in enumerate(tree[1]):
            out.extend(dicts(v, path + (1, i)))
    return out


# --------------------------------------------------------------------------------------------
# case construction
# --------------------------------------------------------------------------------------------
def random_bytes(rng, n):
    mode = rng.randrange(5)
    if mode == 4:
        # long exp-Golomb codes: "0 b 0 b ... 1" with all-one / all-zero / random data bits, i.e. values
        # 2^k - 2, 2^k - 1 and random ones for k up to 4 * n (whichever bit the code starts on)
        out = []
        while len(out) < n:
            run = rng.randrange(1, max(2, n))
            out += [rng.choice([0x55, 0x55, 0xAA, 0x00, rng.randrange(256) & 0x55, rng.randrange(256) & 0xAA])] * 1 if rng.random() < 0.2 else \
                   [rng.choice([0x55, 0xAA, 0x00])] * run
            out.append(rng.randrange(256))
        return out[:n]
    if mode == 0:
        return [rng.randrange(256) for _ in range(n)]
    if mode == 1:
        return [rng.choice([0, 0, 1, 2, 0x80, 0xFF, rng.randrange(256)]) for _ in range(n)]
    if mode == 2:
        return [rng.randrange(256) & rng.randrange(256) for _ in range(n)]
    return [rng.randrange(256) | rng.randrange(256) for _ in range(n)]


def strip_types(rng, tree, p):
    if tree[0] == "C":
        return ["C", 0 if rng.random() < p else tree[1], [[t, strip_types(rng, v, p)] for t, v in tree[2]]]
    if tree[0] == "L":
        return ["L", [strip_types(rng, v, p) for v in tree[1]]]
    return tree


def mutate(rng, tree, D):
    """-> (tree', D', label)"""
    tree = copy.deepcopy(tree)
    D = copy.deepcopy(D)
    c = rng.random()
    lv = leaves(tree)
    leaf_keys = [(p, k, v) for (p, k, v) in lv if v[0] in ("I", "B", "Bits", "Bytes")]
    if c < 0.40 or not lv:
        return tree, D, "complete"
    if c < 0.50 and leaf_keys:
        p, k, v = rng.choice(leaf_keys)
        parent = subtree(tree, p[:-2])
        del parent[p[-2]]
        return tree, D, "missing"
    if c < 0.58:
        dp = rng.choice(dicts(tree))
        subtree(tree, dp)[2].append([EXTRA, ["I", 7]])
        return tree, D, "unused"
    if c < 0.66:
        cand = [(p, k, v) for (p, k, v) in lv if v[0] in ("Bits", "Bytes") and len(v[1]) > 0]
        if cand:
            p, k, v = rng.choice(cand)
            del v[1][rng.randrange(len(v[1])):]
            return tree, D, "padding"
    if c < 0.84 and leaf_keys:
        # default_values: move a value (or the tail of a list of leaves) into the defaults
        lists = [(p, k, v) for (p, k, v) in lv if v[0] == "L" and v[1] and all(x[0] in ("I", "B", "Bits", "Bytes") for x in v[1])]
        if lists and rng.random() < 0.5:
            p, k, v = rng.choice(lists)
            ty = subtree(tree, p[:-3])[1]
            n = rng.randrange(len(v[1]))
            D.setdefault(str(ty), {})[str(k[1])] = v[1][n]
            del v[1][n + (rng.random() < 0.5):]
            return tree, D, "default-in-list"
        p, k, v = rng.choice(leaf_keys)
        ty = subtree(tree, p[:-3])[1]
        D.setdefault(str(ty), {})[str(k[1])] = v
        if rng.random() < 0.8:
            del subtree(tree, p[:-2])[p[-2]]
        return tree, D, "default"
    if c < 0.90 and leaf_keys:
        p, k, v = rng.choice(leaf_keys)
        if v[0] == "I":
            new = rng.choice([["I", v[1] + rng.choice([1, 7, 256, 1 << 20])], ["I", -1 - v[1]], ["Bits", [1]]])
        elif v[0] == "B":
            new = ["B", not v[1]]
        elif v[0] == "Bits":
            new = rng.choice([["Bits", v[1] + [1]], ["I", 3]])
        else:
            new = rng.choice([["Bytes", v[1] + [65]], ["I", 3]])
        subtree(tree, p[:-2])[p[-2]][1] = new
        return tree, D, "value-changed"
    if c < 0.95:
        lists = [(p, k, v) for (p, k, v) in lv if v[0] == "L"]
        if lists:
            p, k, v = rng.choice(lists)
            if v[1] and rng.random() < 0.5:
                v[1].pop()
                return tree, D, "list-shortened"
            v[1].append(copy.deepcopy(v[1][-1]) if v[1] else ["I", 1])
            return tree, D, "list-extended"
    return ["C", rng.randrange(4), []], D, "empty"


def make_case(I, rng, chaos=0.04):
    prog, feats = gen_program(rng, chaos)
    data = random_bytes(rng, rng.choice([4, 12, 40, 40]))
    o, des = run_des(I, prog, data)
    try:
        base = to_tree(I, des.context)
    except Exception:
        base = ["C", 0, []]
    tree, D, label = mutate(rng, base, {})
    tree = strip_types(rng, tree, rng.choice([0.0, 0.5, 1.0]))
    return {"prog": prog, "ctx": tree, "D": D, "label": label, "features": feats, "seed_bytes": data}


def observe(I, case, rng=None):
    so, out, tree = run_ser(I, case["prog"], case["ctx"], case["D"])
    case["ser_obs"] = so
    if "des_in" not in case:
        if out is not None and (rng is None or rng.random() < 0.8):
            case["des_in"] = out + ([rng.randrange(256)] if rng is not None and rng.random() < 0.2 else [])
        else:
            case["des_in"] = case.get("seed_bytes", [])
            if rng is not None and case["des_in"] and rng.random() < 0.3:
                case["des_in"] = case["des_in"][: rng.randrange(len(case["des_in"]))]
    case["des_obs"], _ = run_des(I, case["prog"], case["des_in"])
    return case


def symmetric(prog):
    """programs whose control flow cannot differ between serialiser and deserialiser by design
    (is_target_complete answers differently on purpose)"""
    return not uses(prog, ("itc",))


# --------------------------------------------------------------------------------------------
# property oracle on the implementation
# --------------------------------------------------------------------------------------------
def oracle(I, ctx, case, rng):
    """Returns the number of oracle evaluations; reports violations."""
    prog, D = case["prog"], case["D"]
    n = 0
    inp = {"prog": prog, "ctx": case["ctx"], "D": D, "des_in": case.get("des_in", [])}

    # (T) context-type changes keep the root consistent; (O) the deserialiser never overwrites
    state = {"prev": None}

    def hook_T(sd, s):
        if s[0] == "settype":
            obj = sd.context
            try:
                for p in sd.path():
                    obj = obj[p]
            except Exception as e:
                obj = e
            if obj is not sd.cur_context or type(sd.cur_context) is not I["types"][s[1]]:
                ctx.violation("set_context_type-root-inconsistent", inp,
                              "after set_context_type the root description does not hold the retyped dictionary at the current path",
                              observed=repr(obj)[:200], expected=repr(sd.cur_context)[:200])

    def hook_des(sd, s):
        hook_T(sd, s)
        now = to_tree(I, sd.context)
        if state["prev"] is not None and not ext(state["prev"], now):
            ctx.violation("deserialiser-overwrote-value", inp, "a deserialiser step changed or removed an already written value (step %r)" % (s,),
                          observed=json.dumps(now)[:300], expected="extension of " + json.dumps(state["prev"])[:300])
        state["prev"] = now

    tr_s, tr_d = [], []
    so, out, tree = run_ser(I, prog, case["ctx"], D, hook_T, tr_s)
    n += 1
    if so[0] == "ok" and so[3] == 0 and symmetric(prog):
        # (R) round trip
        pad = [rng.randrange(256) for _ in range(rng.randrange(0, 3))]
        do, des = run_des(I, prog, out + pad, hook_des, tr_d)
        n += 1
        if do[0] != "ok" or do[3] != 0:
            ctx.violation("roundtrip-deserialise-fails", inp, "serialised complete description does not deserialise with the same program",
                          observed=do, expected="ok")
        else:
            if not vle(D, tree, do[2]):
                ctx.violation("roundtrip-description-differs", inp, "deserialised description differs from the serialised one",
                              observed=do[2], expected=tree)
            if [int(x) for x in tr_s] != [int(x) for x in tr_d]:
                ctx.violation("roundtrip-values-differ", inp, "primitives returned different values when deserialising", observed=repr(tr_d)[:300], expected=repr(tr_s)[:300])
            # consumed exactly what was written (up to the flush padding)
            nb = do[1][0]
            if not (len(out) * 8 - 7 <= nb <= len(out) * 8):
                ctx.violation("roundtrip-length-differs", inp, "deserialiser consumed a different number of bits", observed=nb, expected=len(out) * 8)
        # (U) an unused value must make serialisation fail
        t2 = copy.deepcopy(case["ctx"])
        dp = rng.choice(dicts(t2))
        subtree(t2, dp)[2].append([EXTRA, ["I", 1]])
        uo, _, _ = run_ser(I, prog, t2, D)
        n += 1
        if not ((uo[0] == "err" and uo[1] == ERR["UnusedTargetError"]) or (uo[0] == "ok" and uo[3] == ERR["UnusedTargetError"])):
            ctx.violation("unused-value-accepted", dict(inp, ctx=t2), "description with a value no primitive consumes was serialised", observed=uo[:1] + uo[3:], expected="UnusedTargetError")
        # (U2) ... and so must an unconsumed element at the end of a list of plain values
        ll = [(p, k, v) for (p, k, v) in leaves(case["ctx"]) if v[0] == "L" and v[1] and all(x[0] in ("I", "B", "Bits", "Bytes") for x in v[1])]
        if ll and not D:
            t4 = copy.deepcopy(case["ctx"])
            p, k, v = rng.choice(ll)
            lst = subtree(t4, p)
            lst[1].append(copy.deepcopy(lst[1][-1]))
            lo, lout, ltree = run_ser(I, prog, t4, D)
            n += 1
            # (a computed_value on the list target overwrites the extra element: then nothing differs)
            overwritten = lo[0] == "ok" and lo[3] == 0 and lout == out and ltree == tree
            # (an extra element may also be consumed by a later subcontext_enter on the same list target and
            # then fail differently: only ACCEPTING the description is a violation)
            if lo[0] == "ok" and lo[3] == 0 and not overwritten:
                ctx.violation("unused-list-element-accepted", dict(inp, ctx=t4), "description with a list element no primitive consumes was serialised",
                              observed=lo[:1] + lo[3:], expected="UnusedTargetError")
        # (M) a missing value (no default) must make serialisation fail
        lv = [(p, k, v) for (p, k, v) in leaves(case["ctx"]) if v[0] in ("I", "B", "Bits", "Bytes")]
        if lv and not D:
            t3 = copy.deepcopy(case["ctx"])
            p, k, v = rng.choice(lv)
            del subtree(t3, p[:-2])[p[-2]]
            mo, mout, mtree = run_ser(I, prog, t3, D)
            n += 1
            restored = mo[0] == "ok" and mo[3] == 0 and mout == out and vle({}, mtree, tree) and vle({}, tree, mtree)
            if not ((mo[0] == "err" and mo[1] in (ERR["KeyError"], ERR["ListTargetExhaustedError"])) or restored):
                ctx.violation("missing-value-accepted", dict(inp, ctx=t3), "description lacking a needed value (not a computed one) was serialised",
                              observed=mo[:1] + mo[3:], expected="KeyError")
    else:
        # deserialiser-only facts on arbitrary input
        run_des(I, prog, case.get("des_in", []), hook_des)
        n += 1
    return n


# --------------------------------------------------------------------------------------------
def load_corpus():
    out = []
    for path in sorted(glob.glob(os.path.join(VERIF, "corpus", "C21", "*.json"))):
        try:
            out.append(json.load(open(path)))
        except Exception:
            pass
    return out


def run(ctx):
    I = impl()
    rng = ctx.rng
    ctx.extra["rule"] = (
        "random description programs (<= 25 primitive operations, nesting depth <= 4: value primitives with data-dependent lengths, "
        "lists, (typed) subcontexts in plain targets and in lists, bounded blocks with trailing bits, byte_align, computed values, "
        "branches and loops on values read, is_target_complete, a few structurally broken programs); descriptions = what the real "
        "Deserialiser reads from random bytes, then mutated (missing/unused/short/default_values/changed/retyped-to-dict); each case runs "
        "the real Serialiser and the real Deserialiser and both Gallina interpreters; non-trivial = serialisation succeeds with >= 3 operations "
        "(distinct by program+description digest)")
    n = ctx.pick(2000, 20000)
    cases = []
    for c in load_corpus():
        try:
            c.pop("ser_obs", None), c.pop("des_obs", None)
            cases.append(observe(I, c))
        except Exception as e:
            ctx.note("corpus case unusable: %r" % (e,))
    ncorpus = len(cases)
    skipped = 0
    while len(cases) < ncorpus + n:
        chaos = 0.012 if len(cases) % 5 else 0.1
        case = make_case(I, rng, chaos)
        try:
            observe(I, case, rng)
        except (ValueError, OutOfDomain) as e:  # outside the modelled domain
            skipped += 1
            continue
        cases.append(case)
    from vlib import digest
    for case in cases:
        ok = case["ser_obs"][0] == "ok" and case["ser_obs"][3] == 0
        nontriv = ok and count_ops(case["prog"]) >= 3
        ctx.count(1, key=digest([case["prog"], case["ctx"], case["D"]]) if nontriv else None,
                  bucket="%s/%s" % (case.get("label", "corpus"), "ser-ok" if ok else ("ser-unverified" if case["ser_obs"][0] == "ok" else "ser-err%d" % case["ser_obs"][1])))
        for f in case.get("features", []):
            ctx.distribution["feature:" + f] = ctx.distribution.get("feature:" + f, 0) + 1
    for case in cases[ncorpus:ncorpus + 3]:
        ctx.sample({"prog": case["prog"], "ctx": case["ctx"], "D": case["D"], "ser": case["ser_obs"][:1], "label": case["label"]})

    bad = ctx.coq_check_cases("serdes", ["Model.SerDes", "Corr.C21"], "check_case", [coq_case(c) for c in cases],
                              ty="case", shard=ctx.pick(60, 150), timeout=900)
    for i in (bad or []):
        case = cases[i]
        # is the PROPERTY violated on the implementation at this input?  (the oracle decides)
        before = len(ctx.violations)
        oracle(I, ctx, case, rng)
        diag = ctx.coq_eval("diag_%d" % i, ["Model.SerDes", "Corr.C21"], "let c : case := %s in (diag_case c, model_ser c, model_des c)" % coq_case(case))
        if len(ctx.violations) == before:
            ctx.obligation("corr:serdes case %d agrees with implementation" % i, False, "corr-shard",
                           "model and implementation differ; property holds at this input.\nprogram=%s\nctx=%s\nD=%s\nimpl ser=%s\nimpl des=%s\nmodel=%s" % (
                               json.dumps(case["prog"]), json.dumps(case["ctx"]), json.dumps(case["D"]), json.dumps(case["ser_obs"]),
                               json.dumps(case["des_obs"]), diag))
        try:
            d = os.path.join(VERIF, "corpus", "C21")
            os.makedirs(d, exist_ok=True)
            keep = dict((k, case[k]) for k in ("prog", "ctx", "D", "des_in"))
            keep["label"] = "corpus"
            with open(os.path.join(d, "mismatch-%s.json" % digest(keep)), "w") as f:
                json.dump(keep, f)
        except Exception:
            pass

    # ---- property oracle on the implementation ---------------------------------------------
    m = ctx.pick(5000, 80000)
    evals = 0
    for case in cases:
        try:
            evals += oracle(I, ctx, case, rng)
        except (ValueError, OutOfDomain):
            skipped += 1
    k = 0
    while k < m:
        case = make_case(I, rng, 0.02)
        try:
            evals += oracle(I, ctx, case, rng)
        except (ValueError, OutOfDomain):
            skipped += 1
        k += 1
    ctx.note("%d generated cases skipped as outside the typed domain of the model" % skipped)
    ctx.count(evals, bucket="oracle-runs")
    ctx.trusted.append("bit-level I/O is modelled on bit lists inside Model/SerDes.v (writer/reader of bitstream/io.py: write_bit/read_bit, bounded blocks, "
                       "tell modulo 8); file objects, seek() and flush() beyond zero padding of the last byte are not modelled")
    ctx.trusted.append("context values outside the typed domain (e.g. an int where bool() is applied, a list given to bitarray()) are not modelled")


def replay(ctx, data):
    I = impl()
    inp = data["input"]
    case = {"prog": inp["prog"], "ctx": inp["ctx"], "D": inp.get("D", {}), "des_in": inp.get("des_in", [])}
    print("replaying", data.get("key"))
    print("program:", json.dumps(case["prog"]))
    print("description:", json.dumps(case["ctx"]), "defaults:", json.dumps(case["D"]))
    so, out, tree = run_ser(I, case["prog"], case["ctx"], case["D"])
    print("serialiser:", so)
    if out is not None:
        print("deserialiser on its output:", run_des(I, case["prog"], out)[0])
    before = len(ctx.violations)
    oracle(I, ctx, case, ctx.rng)
    for v in ctx.violations[before:]:
        print("VIOLATED:", v["key"], v["description"])
    bad = len(ctx.violations) > before
    print("property violated on this input:", bad)
    return 1 if bad else 0
