"""C23 harness: raw picture files (file_format.py) and vc2-picture-compare.

Correspondence (tie C): real files written/read by the implementation under ctx.workdir vs
Model/FileFormat.v + Model/Compare.v evaluated in coqc.  Property oracle: round trip of
in-range pictures/metadata and exactness of the comparison verdict and counts, decided
from the in-memory pictures independently of the tool.

Domain (filters of the generators, hypotheses of the theorems): complete video parameters,
depths >= 1 (excursions >= 1), every component has at least one sample, sample values within
the component's depth, picture numbers 0..2^32-1.
"""
import contextlib
from collections import OrderedDict
import io
import json
import os
import random
import re
import shutil
import sys

from vlib import cz, clist, copt, digest

COMPONENTS = ["Y", "C1", "C2"]
MODELLED = ["frame_width", "frame_height", "color_diff_format_index", "luma_excursion", "color_diff_excursion"]


def impl():
    import vc2_data_tables as t
    from vc2_conformance import file_format as ff
    from vc2_conformance.scripts import vc2_picture_compare as pc
    from vc2_conformance.dimensions_and_depths import compute_dimensions_and_depths as cdd
    from vc2_conformance.pseudocode.video_parameters import VideoParameters, set_source_defaults
    return t, ff, pc, cdd, VideoParameters, set_source_defaults


# ---------------------------------------------------------------------------------------
# deterministic construction of cases from small JSON specs (also used by replay)
# ---------------------------------------------------------------------------------------

def excursion_for_depth(rng, depth):
    """An excursion whose intlog2(exc + 1) is `depth`: 2^(depth-1) <= exc <= 2^depth - 1."""
    lo, hi = 1 << (depth - 1), (1 << depth) - 1
    return rng.choice([hi, lo, rng.randint(lo, hi)])


def gen_format_spec(rng, depth_l=None, depth_c=None, max_samples=12):
    t = impl()[0]
    cdf = rng.randrange(3)
    pcm = rng.randrange(2)
    # smallest legal sizes first: every component must keep >= 1 sample
    xmul = 2 if cdf in (1, 2) else 1
    ymul = (2 if cdf == 2 else 1) * (2 if pcm == 1 else 1)
    while True:
        w = rng.choice([xmul, xmul * rng.randint(1, 3), rng.randint(xmul, 6)])
        h = rng.choice([ymul, ymul * rng.randint(1, 3), rng.randint(ymul, 8)])
        lw, lh = w, (h // 2 if pcm else h)
        if lw * lh <= max_samples:
            break
    if depth_l is None:
        depth_l = rng.choice([rng.randint(1, 64), rng.randint(1, 16), rng.choice([8, 10, 12, 16, 63, 64])])
    if depth_c is None:
        depth_c = rng.choice([depth_l, rng.randint(1, 64)])
    base = rng.randrange(len(list(t.BaseVideoFormats)))
    spec = {
        "base": base, "w": w, "h": h, "cdf": cdf, "pcm": pcm,
        "lexc": str(excursion_for_depth(rng, depth_l)), "cexc": str(excursion_for_depth(rng, depth_c)),
        "picnum": rng.choice([0, 1, (1 << 32) - 1, (1 << 31), rng.randrange(1 << 32), rng.randrange(1000)]),
        "seed": rng.randrange(1 << 30),
        "tweak": rng.randrange(1 << 30) if rng.random() < 0.5 else None,
    }
    return spec


def build_vp(spec):
    t, ff, pc, cdd, VideoParameters, set_source_defaults = impl()
    vp = set_source_defaults(list(t.BaseVideoFormats)[spec["base"]])
    vp["frame_width"] = spec["w"]
    vp["frame_height"] = spec["h"]
    vp["color_diff_format_index"] = t.ColorDifferenceSamplingFormats(spec["cdf"])
    vp["luma_excursion"] = int(spec["lexc"])
    vp["color_diff_excursion"] = int(spec["cexc"])
    if spec.get("tweak") is not None:
        r = random.Random(spec["tweak"])
        vp["source_sampling"] = t.SourceSamplingModes(r.randrange(2))
        vp["top_field_first"] = bool(r.randrange(2))
        vp["frame_rate_numer"] = r.choice([1, 25, 30000, r.randrange(1, 1 << 40)])
        vp["frame_rate_denom"] = r.choice([1, 1001, r.randrange(1, 1 << 20)])
        vp["pixel_aspect_ratio_numer"] = r.randrange(1, 100)
        vp["pixel_aspect_ratio_denom"] = r.randrange(1, 100)
        vp["clean_width"] = r.randrange(0, spec["w"] + 1)
        vp["clean_height"] = r.randrange(0, spec["h"] + 1)
        vp["left_offset"] = r.randrange(0, 5)
        vp["top_offset"] = r.randrange(0, 5)
        vp["luma_offset"] = r.choice([0, 16, 64, r.randrange(0, int(spec["lexc"]) + 1)])
        vp["color_diff_offset"] = r.choice([0, 128, 512, r.randrange(0, int(spec["cexc"]) + 1)])
        vp["color_primaries_index"] = r.choice(list(t.PresetColorPrimaries))
        vp["color_matrix_index"] = r.choice(list(t.PresetColorMatrices))
        vp["transfer_function_index"] = r.choice(list(t.PresetTransferFunctions))
    if spec.get("lo") is not None:
        vp["luma_offset"] = int(spec["lo"])
    if spec.get("co") is not None:
        vp["color_diff_offset"] = int(spec["co"])
    return vp, t.PictureCodingModes(spec["pcm"])


def expected_dims(vp, pcm):
    """Component (width, height, depth_bits, bytes_per_sample) computed HERE from the video parameters and the
    coding mode -- independent of the implementation's compute_dimensions_and_depths (which is only observed):
    (11.6.2) subsampling and field rules, (11.6.3) depth = intlog2(excursion + 1) = bit_length(excursion),
    file format: bytes per sample = least power of two >= ceil(depth / 8)."""
    w, h = int(vp["frame_width"]), int(vp["frame_height"])
    cw, ch = w, h
    cdf = int(vp["color_diff_format_index"])
    if cdf == 1:
        cw = w // 2
    elif cdf == 2:
        cw, ch = w // 2, h // 2
    if int(pcm) == 1:
        h, ch = h // 2, ch // 2
    out = OrderedDict()
    for c, (cw_, ch_, exc) in (("Y", (w, h, vp["luma_excursion"])), ("C1", (cw, ch, vp["color_diff_excursion"])),
                               ("C2", (cw, ch, vp["color_diff_excursion"]))):
        depth = int(exc).bit_length()
        need, bps = (depth + 7) // 8, 1
        while bps < need:
            bps *= 2
        out[c] = (cw_, ch_, depth, bps)
    return out


def build_picture(spec, vp=None, pcm=None):
    if vp is None:
        vp, pcm = build_vp(spec)
    r = random.Random(spec["seed"])
    pic = {"pic_num": spec["picnum"]}
    for c, (w, h, depth, bps) in expected_dims(vp, pcm).items():
        top = (1 << depth) - 1
        special = [0, top, 1 << (depth - 1), top >> 1, 1, 0xFF & top, 0x100 & top]
        pic[c] = [[(r.choice(special) if r.random() < 0.4 else r.randint(0, top)) for _ in range(w)] for _ in range(h)]
    return pic


def flat(pic):
    return [[v for row in pic[c] for v in row] for c in COMPONENTS]


def junk_padding(raw, dims, r):
    """Set every padding bit of a raw file (bits >= depth of each sample) at random."""
    out = bytearray(raw)
    pos = 0
    for (w, h, depth, bps) in dims:
        for _ in range(w * h):
            word = int.from_bytes(out[pos:pos + bps], "little")
            word |= r.getrandbits(8 * bps) & ~((1 << depth) - 1)
            out[pos:pos + bps] = (word & ((1 << (8 * bps)) - 1)).to_bytes(bps, "little")
            pos += bps
    return bytes(out)


def has_padding(dims):
    return any(8 * bps > depth for (_, _, depth, bps) in dims)


# ---- per-process history: a failure may depend on formats seen EARLIER in the same process (stale state), so a
# violation's replayable input is the sequence of similar earlier cases followed by the failing one ------------------
HISTORY = []


def core_of(kind, spec):
    a = spec if kind == "file" else spec.get("a") if kind == "compare" else None
    return None if a is None else (a["w"], a["h"], a["cdf"], a["pcm"], a["lexc"], a["cexc"])


def vin(kind, spec):
    me = core_of(kind, spec)
    preds = []
    if me is not None:
        for i, h in enumerate(HISTORY):
            c = core_of(h["kind"], h["spec"])
            if c is not None and h["spec"] is not spec:
                sim = sum(1 for x, y in zip(c, me) if x == y)
                if sim >= 3:
                    preds.append((sim, i, h))
        # the most similar earlier cases (sharing all but one or two parameters), most recent first, in original order
        preds = sorted(sorted(preds, key=lambda x: (-x[0], -x[1]))[:14], key=lambda x: x[1])
    return {"sequence": [h for (_, _, h) in preds] + [{"kind": kind, "spec": spec}]}


# ---- Coq literals -----------------------------------------------------------------------

def cformat(vp):
    t, ff, pc, cdd, VideoParameters, _ = impl()
    others = [int(vp[k]) for k in VideoParameters.entry_objs if k not in MODELLED]
    return "(mkFormat %s %s %s %s %s %s)" % (
        cz(vp["frame_width"]), cz(vp["frame_height"]), cz(int(vp["color_diff_format_index"])),
        cz(vp["luma_excursion"]), cz(vp["color_diff_excursion"]), clist(others))


def cmeta(meta):
    if meta is None:
        return "None"
    vp, pcm, picnum = meta
    return "(Some (mkMeta %s %s %s))" % (cformat(vp), cz(int(pcm)), cz(picnum))


def cbytes(b):
    return "None" if b is None else "(Some %s)" % clist(list(b))


def cll(xss):
    return "[" + "; ".join(clist(xs) for xs in xss) + "]"


# ---- running the real tool ----------------------------------------------------------------

def run_main(pc, argv):
    """vc2-picture-compare main(argv) -> (exit status, stdout, stderr)."""
    out, err = io.StringIO(), io.StringIO()
    with contextlib.redirect_stdout(out), contextlib.redirect_stderr(err):
        try:
            rc = pc.main(argv)
        except SystemExit as e:
            rc = e.code
    return rc, out.getvalue(), err.getvalue()


COUNT_RE = re.compile(r"^\s*(Y|C1|C2): (Identical|Different: PSNR = \S+ dB, (\d+) pixels? \(\S+%\) differs?)\s*$", re.M)


def parse_counts(rc, text):
    """Per-component counts printed by the tool ([0,0,0] for 'Pictures are identical')."""
    if rc == 0:
        return [0, 0, 0] if "Pictures are identical" in text else None
    if rc != 4:
        return []
    got = {m.group(1): (0 if m.group(2) == "Identical" else int(m.group(3))) for m in COUNT_RE.finditer(text)}
    if sorted(got) != sorted(COMPONENTS):
        return None
    return [got[c] for c in COMPONENTS]


def expected_verdict(meta_a, meta_b, pic_a, pic_b, raw_ok_a=True, raw_ok_b=True):
    """The property's own statement, from the in-memory data: (identical?, counts or None).
    identical = metadata (after the documented substitution of a missing one) and all samples match."""
    if meta_a is None and meta_b is None:
        return False, None
    if not (raw_ok_a and raw_ok_b):
        return False, None
    ma = meta_a if meta_a is not None else meta_b
    mb = meta_b if meta_b is not None else meta_a
    if dict(ma[0]) != dict(mb[0]) or int(ma[1]) != int(mb[1]) or ma[2] != mb[2]:
        return False, None
    counts = []
    fa, fb = flat(pic_a), flat(pic_b)
    for a, b in zip(fa, fb):
        assert len(a) == len(b)
        counts.append(sum(1 for x, y in zip(a, b) if x != y))
    return all(c == 0 for c in counts), counts


# ---------------------------------------------------------------------------------------
# cases
# ---------------------------------------------------------------------------------------

class Files(object):
    """Scratch directory under ctx.workdir (never /tmp)."""

    def __init__(self, ctx):
        self.root = os.path.join(ctx.workdir, "files")
        shutil.rmtree(self.root, ignore_errors=True)
        os.makedirs(self.root)
        self.n = 0

    def fresh(self):
        self.n += 1
        d = os.path.join(self.root, "c%05d" % self.n)
        os.makedirs(d)
        return d

    def done(self, d):
        shutil.rmtree(d, ignore_errors=True)

    def close(self):
        shutil.rmtree(self.root, ignore_errors=True)


def file_case(ctx, files, spec, report=True):
    """Write/read one picture with the real code.  Returns (coq literal or None, property_failed)."""
    t, ff, pc, cdd, VideoParameters, _ = impl()
    vp, pcm = build_vp(spec)
    pic = build_picture(spec, vp, pcm)
    dims = [tuple(v) for v in expected_dims(vp, pcm).values()]      # independent of the implementation
    try:
        rdims = [list(v) for v in cdd(vp, pcm).values()]              # observed only (goes to the Coq comparison)
    except Exception as e:
        rdims = [[-1, -1, -1, -1]]
    spec_in = vin("file", spec)
    d = files.fresh()
    name = os.path.join(d, "picture_%d.raw" % spec["picnum"])
    failed = False
    try:
        ff.write(pic, vp, pcm, name)
        pic2, vp2, pcm2 = ff.read(name[:-4] + ".json")
    except Exception as e:  # the property implies no exception
        if report:
            ctx.violation("file-roundtrip-raises", spec_in, "write/read raised %r" % (e,), observed=repr(e), expected="round trip")
        files.done(d)
        return None, True
    ok_types = all(type(v) is int for c in COMPONENTS for row in pic2[c] for v in row) and type(pic2["pic_num"]) is int
    if pic2 != pic or not ok_types:
        failed = True
        if report:
            where = [(c, y, x, pic[c][y][x], pic2[c][y][x]) for c in COMPONENTS for y in range(len(pic[c]))
                     for x in range(len(pic[c][y])) if pic[c][y][x] != pic2[c][y][x]][:3]
            ctx.violation("file-roundtrip-picture-differs", spec_in,
                          "picture read back differs from the picture written (component, y, x, written, read): %r; "
                          "pic_num %r -> %r; python ints: %s" % (where, pic["pic_num"], pic2["pic_num"], ok_types),
                          observed=str(where), expected="identical values")
    if dict(vp2) != dict(vp) or pcm2 != pcm or type(vp2) is not VideoParameters or not isinstance(pcm2, t.PictureCodingModes) \
            or any(type(vp2[k]) is not type(vp[k]) for k in vp):
        failed = True
        if report:
            ctx.violation("file-roundtrip-metadata-differs", spec_in, "metadata read back differs: %r vs %r" % (dict(vp2), dict(vp)),
                          observed=repr((dict(vp2), pcm2)), expected=repr((dict(vp), pcm)))
    raw = open(name, "rb").read()
    want_size = sum(w * h * bps for (w, h, _, bps) in dims)
    if len(raw) != want_size:
        failed = True
        if report:
            ctx.violation("raw-file-size-wrong", spec_in,
                          "the .raw file has %d bytes; the format implies %d (components w,h,depth,bytes/sample %r; the implementation "
                          "reported %r)" % (len(raw), want_size, dims, rdims), observed=len(raw), expected=want_size)
    meta_json = json.load(open(name[:-4] + ".json"))
    if meta_json.get("picture_number") != str(spec["picnum"]):
        failed = True
        if report:
            ctx.violation("metadata-picture-number-not-a-decimal-string", spec_in, "picture_number in JSON is %r" % (meta_json.get("picture_number"),))
    # same file with random padding bits: the reader must return the same picture
    jr = random.Random(spec["seed"] ^ 0x5A5A)
    junk = junk_padding(raw, dims, jr) if len(raw) == want_size else raw
    with open(name, "wb") as f:
        f.write(junk)
    try:
        junk_pic, _, _ = ff.read(name)
    except Exception as e:
        junk_pic = None
        failed = True
        if report:
            ctx.violation("read-with-padding-raises", spec_in, "read raised %r" % (e,))
    if junk_pic is not None and junk_pic != pic:
        failed = True
        if report:
            ctx.violation("padding-bits-not-masked", spec_in, "padding bits of the raw file leak into the values read")
    files.done(d)
    if junk_pic is None:
        return None, failed
    lit = "(%s, %s, %s, %s, %s, %s, %s)" % (
        cformat(vp), cz(int(pcm)), cll(rdims), cll(flat(pic)), clist(list(raw)), clist(list(junk)), cll(flat(junk_pic)))
    return lit, failed


VARIANTS = ["same", "samples", "samples1", "fullrange", "constdelta", "padding", "vp-other", "vp-size", "vp-exc", "pcm", "picnum",
            "nometa_a", "nometa_b", "nometa_a+samples", "nometa_b+picnum", "nometa_both",
            "noraw_a", "noraw_b", "short_a", "short_b", "long_a", "long_b", "empty_b"]


def make_pair(spec_a, variant, vseed):
    """(meta_a, pic_a, meta_b, pic_b, tweaks) for a compare case; metadata = (vp, pcm, picnum)."""
    t = impl()[0]
    r = random.Random(vseed)
    vp_a, pcm_a = build_vp(spec_a)
    pic_a = build_picture(spec_a, vp_a, pcm_a)
    spec_b = dict(spec_a)
    vp_b, pcm_b = build_vp(spec_b)
    pic_b = build_picture(spec_b, vp_b, pcm_b)
    base = variant.split("+")
    if "msb_c" in base:      # one colour-difference sample differs in its most significant bit only
        dims = expected_dims(vp_b, pcm_b)
        c = r.choice(["C1", "C2"])
        w, h, depth, bps = dims[c]
        y, x = r.randrange(h), r.randrange(w)
        pic_b[c][y][x] ^= 1 << (depth - 1)
    if "msb_y" in base:
        w, h, depth, bps = expected_dims(vp_b, pcm_b)["Y"]
        y, x = r.randrange(h), r.randrange(w)
        pic_b["Y"][y][x] ^= 1 << (depth - 1)
    if "fullrange" in base or "constdelta" in base:
        # structured differences: EVERY sample of some components differs, by the full range (0 vs 2^depth-1,
        # either way round per sample: the error energy is then exactly the peak energy) or by one constant
        # delta; the other components are identical.  Summary statistics of such pairs take special values.
        dims = expected_dims(vp_b, pcm_b)
        chosen = [c for c in COMPONENTS if r.random() < 0.5] or [r.choice(COMPONENTS)]
        for c in chosen:
            w, h, depth, bps = dims[c]
            top = (1 << depth) - 1
            delta = top if "fullrange" in base else r.choice([1, top, max(1, top // 2), r.randint(1, top)])
            mixed = r.random() < 0.5
            for y in range(h):
                for x in range(w):
                    up = (not mixed) or r.random() < 0.5
                    lo = r.randint(0, top - delta) if "constdelta" in base else 0
                    pic_a[c][y][x], pic_b[c][y][x] = (lo, lo + delta) if up else (lo + delta, lo)
    if "samples" in base or "samples1" in base:
        dims = expected_dims(vp_b, pcm_b)
        k = 1 if "samples1" in base else r.randint(1, 6)
        for _ in range(k):
            c = r.choice(COMPONENTS)
            w, h, depth, bps = dims[c]
            y, x = r.randrange(h), r.randrange(w)
            old = pic_b[c][y][x]
            new = r.choice([old ^ 1, old ^ (1 << (depth - 1)), r.randrange(1 << depth), old ^ (1 << r.randrange(depth))])
            pic_b[c][y][x] = new
    if "vp-other" in base:
        key = r.choice(["frame_rate_numer", "frame_rate_denom", "pixel_aspect_ratio_numer", "clean_width", "clean_height",
                        "left_offset", "top_offset", "luma_offset", "color_diff_offset", "top_field_first",
                        "source_sampling", "color_primaries_index", "color_matrix_index", "transfer_function_index"])
        if key == "top_field_first":
            vp_b[key] = not vp_b[key]
        elif key == "source_sampling":
            vp_b[key] = t.SourceSamplingModes(1 - int(vp_b[key]))
        elif key.endswith("_index"):
            typ = type(vp_b[key])
            vp_b[key] = r.choice([m for m in typ if m != vp_b[key]])
        else:
            vp_b[key] = vp_b[key] + r.choice([1, 2, 1000])
    if "vp-size" in base:
        xmul = 2 if spec_a["cdf"] in (1, 2) else 1
        ymul = (2 if spec_a["cdf"] == 2 else 1) * (2 if spec_a["pcm"] == 1 else 1)
        if r.random() < 0.5:
            spec_b["w"] = spec_a["w"] + xmul
        else:
            spec_b["h"] = spec_a["h"] + ymul
        if r.random() < 0.3:
            spec_b["cdf"] = r.choice([c for c in (0, 1, 2) if c != spec_a["cdf"]])
            spec_b["w"] = spec_b["w"] * 2
            spec_b["h"] = spec_b["h"] * 2
        vp_b, pcm_b = build_vp(spec_b)
        pic_b = build_picture(spec_b, vp_b, pcm_b)
    if "vp-exc" in base:
        which = r.choice(["lexc", "cexc"])
        e = int(spec_a[which])
        depth = e.bit_length()
        lo, hi = 1 << (depth - 1), (1 << depth) - 1
        choices = [x for x in (lo, hi, e - 1, e + 1) if lo <= x <= hi and x != e]
        if choices:       # same depth, different excursion: same file layout, different metadata
            spec_b[which] = str(r.choice(choices))
        else:             # depth 1: only excursion 1 has it; change the depth instead
            spec_b[which] = str(e + 2)
        vp_b, pcm_b = build_vp(spec_b)
        pic_b = build_picture(spec_b, vp_b, pcm_b)
    if "pcm" in base:
        spec_b["pcm"] = 1 - spec_a["pcm"]
        if spec_b["pcm"] == 1:     # keep every component non-empty
            need = 2 * (2 if spec_a["cdf"] == 2 else 1)
            if spec_b["h"] < need:
                return None
        vp_b, pcm_b = build_vp(spec_b)
        pic_b = build_picture(spec_b, vp_b, pcm_b)
    if "picnum" in base:
        pic_b["pic_num"] = r.choice([spec_a["picnum"] ^ 1, (spec_a["picnum"] + 1) % (1 << 32), r.randrange(1 << 32)])
        if pic_b["pic_num"] == pic_a["pic_num"]:
            pic_b["pic_num"] = (pic_a["pic_num"] + 7) % (1 << 32)
    return (vp_a, pcm_a, pic_a["pic_num"]), pic_a, (vp_b, pcm_b, pic_b["pic_num"]), pic_b


def write_pair(ff, cdd, d, pair, variant, vseed, name_a="a_0.raw", name_b="b_0.raw"):
    """Write the two pictures and apply the file-level part of the variant.
    Returns dict(meta_a, meta_b (None when the .json is removed), raw_a, raw_b (None when removed), ok_a, ok_b, paths)."""
    meta_a, pic_a, meta_b, pic_b = pair
    r = random.Random(vseed ^ 0x77)
    pa, pb = os.path.join(d, name_a), os.path.join(d, name_b)
    os.makedirs(os.path.dirname(pa), exist_ok=True)
    os.makedirs(os.path.dirname(pb), exist_ok=True)
    ff.write(pic_a, meta_a[0], meta_a[1], pa)
    ff.write(pic_b, meta_b[0], meta_b[1], pb)
    base = variant.split("+")
    res = {"meta_a": meta_a, "meta_b": meta_b, "ok_a": True, "ok_b": True, "pa": pa, "pb": pb}
    if "padding" in base:
        dims = [tuple(v) for v in expected_dims(meta_b[0], meta_b[1]).values()]
        raw = open(pb, "rb").read()
        if len(raw) == sum(w * h * bps for (w, h, _, bps) in dims):
            with open(pb, "wb") as f:
                f.write(junk_padding(raw, dims, r))
    if "nometa_a" in base or "nometa_both" in base:
        os.remove(pa[:-4] + ".json")
        res["meta_a"] = None
    if "nometa_b" in base or "nometa_both" in base:
        os.remove(pb[:-4] + ".json")
        res["meta_b"] = None
    for side, p in (("a", pa), ("b", pb)):
        if "noraw_" + side in base:
            os.remove(p)
            res["ok_" + side] = False
        if "short_" + side in base:
            raw = open(p, "rb").read()
            with open(p, "wb") as f:
                f.write(raw[: r.randrange(len(raw))])
            res["ok_" + side] = False
        if "long_" + side in base:
            with open(p, "ab") as f:
                f.write(bytes(r.randrange(256) for _ in range(r.randint(1, 3))))
            res["ok_" + side] = False
        if "empty_" + side in base:
            with open(p, "wb") as f:
                pass
            res["ok_" + side] = False
    res["raw_a"] = open(pa, "rb").read() if os.path.exists(pa) else None
    res["raw_b"] = open(pb, "rb").read() if os.path.exists(pb) else None
    return res


def compare_case(ctx, files, spec, report=True):
    """One run of the real main() on a pair of files.  spec = {"a": file spec, "variant": v, "vseed": n}.
    Returns (coq literal or None, property_failed)."""
    t, ff, pc, cdd, VideoParameters, _ = impl()
    pair = make_pair(spec["a"], spec["variant"], spec["vseed"])
    if pair is None:
        return None, False
    spec_in = vin("compare", spec)
    d = files.fresh()
    res = write_pair(ff, cdd, d, pair, spec["variant"], spec["vseed"])
    failed = False
    try:
        # use the .json name for one side now and then: either name must do
        arg_a = res["pa"] if spec["vseed"] % 3 else res["pa"][:-4] + ".json"
        rc, out, err = run_main(pc, [arg_a, res["pb"]])
    except Exception as e:
        files.done(d)
        if report:
            ctx.violation("compare-raises", spec_in, "vc2-picture-compare raised %r" % (e,), observed=repr(e))
        return None, True
    files.done(d)
    counts = parse_counts(rc, out)
    identical, exp_counts = expected_verdict(res["meta_a"], res["meta_b"], pair[1], pair[3], res["ok_a"], res["ok_b"])
    if (rc == 0) != identical:
        failed = True
        if report:
            ctx.violation("compare-verdict-wrong", spec_in,
                          "exit status %r (%s) but the pictures/metadata are %s" % (
                              rc, out.strip().split("\n")[0] if out.strip() else err.strip(), "identical" if identical else "different"),
                          observed=rc, expected=0 if identical else "non-zero")
    elif not isinstance(rc, int):
        failed = True
        if report:
            ctx.violation("compare-exit-status-not-int", spec_in, "exit status %r" % (rc,))
    elif exp_counts is not None and rc in (0, 4) and counts != exp_counts:
        failed = True
        if report:
            ctx.violation("compare-counts-wrong", spec_in, "reported differing-sample counts %r, actual %r; output:\n%s" % (counts, exp_counts, out),
                          observed=counts, expected=exp_counts)
    if counts is None:
        counts = [-1]
    lit = "(%s, %s, %s, %s, %s, %s)" % (cmeta(res["meta_a"]), cmeta(res["meta_b"]), cbytes(res["raw_a"]), cbytes(res["raw_b"]),
                                        cz(rc if isinstance(rc, int) else -1), clist(counts))
    return lit, failed


DIR_VARIANTS = ["same", "same", "samples", "samples1", "fullrange", "padding", "vp-other", "vp-size", "pcm", "picnum"]


def dir_case(ctx, files, spec, report=True):
    """Directory mode: spec = {"pairs": [{"a":..., "variant":..., "vseed":..., "num": n}, ...]}"""
    t, ff, pc, cdd, VideoParameters, _ = impl()
    d = files.fresh()
    rows = []
    for p in spec["pairs"]:
        pair = make_pair(p["a"], p["variant"], p["vseed"])
        if pair is None:
            continue
        res = write_pair(ff, cdd, d, pair, p["variant"], p["vseed"],
                         name_a=os.path.join("A", "%s%d.raw" % (p.get("prefix_a", "pic_"), p["num"])),
                         name_b=os.path.join("B", "%s%d.raw" % (p.get("prefix_b", "x"), p["num"])))
        identical, _ = expected_verdict(res["meta_a"], res["meta_b"], pair[1], pair[3])
        rows.append((p["num"], res, identical))
    if not rows:
        files.done(d)
        return None, False
    rows.sort(key=lambda x: x[0])
    failed = False
    try:
        rcs = [pc.compare_pictures(res["pa"], res["pb"])[1] for (_, res, _) in rows]
        rc, out, err = run_main(pc, [os.path.join(d, "A"), os.path.join(d, "B")])
    except Exception as e:
        files.done(d)
        if report:
            ctx.violation("compare-directories-raises", {"sequence": [{"kind": "dirs", "spec": spec}]}, "raised %r" % (e,))
        return None, True
    files.done(d)
    m = re.search(r"Summary: (\d+) identical, (\d+) different", out)
    n_same = sum(1 for r in rows if r[2])
    order = re.findall(r"^Comparing (\S+) and (\S+):$", out, re.M)
    order_ok = [os.path.basename(a) for a, b in order] == [os.path.basename(res["pa"]) for (_, res, _) in rows]
    if m is None or (rc == 0) != (n_same == len(rows)) or (int(m.group(1)), int(m.group(2))) != (n_same, len(rows) - n_same) or not order_ok:
        failed = True
        if report:
            ctx.violation("compare-directories-summary-wrong", {"sequence": [{"kind": "dirs", "spec": spec}]},
                          "exit status %r, output %r; expected %d identical, %d different" % (rc, out[-200:], n_same, len(rows) - n_same),
                          observed=rc, expected=0 if n_same == len(rows) else "non-zero")
    if m is None:
        return None, failed
    lit = "(%s, %s, %s, %s)" % (clist(rcs), cz(rc), cz(int(m.group(1))), cz(int(m.group(2))))
    return lit, failed


# ---------------------------------------------------------------------------------------

def gen_family(rng):
    """A SEQUENCE of formats to be handled one after the other by this one process: a base format and siblings that
    share everything with it but ONE parameter (luma excursion, colour-difference excursion, either offset, width,
    height, subsampling, coding mode), in random order -- stale per-process state (caches keyed on too little) shows
    as a wrong file size, a truncated/masked read-back or a wrong comparison verdict.  Returns [(kind, spec), ...]."""
    dl, dc = rng.choice([rng.randint(1, 24), rng.randint(1, 64)]), rng.choice([rng.randint(1, 24), rng.randint(1, 64)])
    base = gen_format_spec(rng, depth_l=dl, depth_c=dc, max_samples=64)
    base.update({"w": rng.choice([2, 4]), "h": 4, "lo": str(rng.choice([0, 16, 64])), "co": str(rng.choice([0, 128, 512]))})
    sibs = [base]

    def sib(**kw):
        x = dict(base)
        x.update(kw)
        x["seed"] = rng.randrange(1 << 30)
        sibs.append(x)

    for which, d in (("lexc", dl), ("cexc", dc)):
        deeper = min(64, d + rng.choice([1, 2, 8, rng.randint(1, 16)]))      # the property's depths: 1..64
        if deeper != d:
            sib(**{which: str(excursion_for_depth(rng, deeper))})
        if d > 1:
            sib(**{which: str(excursion_for_depth(rng, max(1, d - rng.choice([1, 2, 8, rng.randint(1, 16)]))))})
    sib(lo=str(int(base["lo"]) + rng.choice([1, 16, 1000])))
    sib(co=str(int(base["co"]) + rng.choice([1, 128, 1000])))
    sib(w=base["w"] + 2)
    sib(h=base["h"] + 4)
    for cdf in (0, 1, 2):
        if cdf != base["cdf"]:
            sib(cdf=cdf)
    sib(pcm=1 - base["pcm"])
    rng.shuffle(sibs)
    out = []
    for x in sibs:
        out.append(("file", x))
        out.append(("compare", {"a": x, "variant": rng.choice(["msb_c", "msb_c", "msb_y", "samples1", "same"]), "vseed": rng.randrange(1 << 30)}))
    return out


def load_corpus(ctx):
    """corpus/C23/*.json: specs of past failures ({"kind": "file"|"compare"|"dirs", "spec": ...})."""
    out = []
    d = os.path.join(os.path.dirname(os.path.dirname(os.path.dirname(os.path.abspath(__file__)))), "corpus", "C23")
    if os.path.isdir(d):
        for n in sorted(os.listdir(d)):
            if n.endswith(".json"):
                try:
                    out.append(json.load(open(os.path.join(d, n))))
                except Exception as e:
                    ctx.note("corpus file %s unreadable: %r" % (n, e))
    return out


def depth_bucket(d):
    return "depth 1-8" if d <= 8 else "depth 9-16" if d <= 16 else "depth 17-32" if d <= 32 else "depth 33-64" if d <= 64 else "depth >64"


def run(ctx):
    t, ff, pc, cdd, VideoParameters, _ = impl()
    rng = ctx.rng
    files = Files(ctx)
    ctx.extra["rule"] = (
        "file cases: every luma depth 1..64 (+ 65..200 sampled) x random chroma depth, excursions 2^d-1 / 2^(d-1) / random with that depth, "
        "all 3 subsamplings x frames/fields, frame sizes 1..6 x 1..8 with every component non-empty (zero-sample components are outside "
        "the domain), base formats and all other video parameters random, picture numbers {0,1,2^31,2^32-1,random}; samples 40% boundary "
        "values (0, max, msb, 0xFF...) else uniform; written and read back with the REAL code on disk, also with all padding bits randomised. "
        "compare cases: a pair (a, variant of a) through the real main(): same / k differing samples / padding only / one other video "
        "parameter / size / excursion / coding mode / picture number / missing .json (a, b, both) / missing, short, long, empty .raw; "
        "directory mode: 1-5 numbered pairs. sequences: families of a base format and siblings differing in exactly one of luma excursion / "
        "colour-difference excursion / offsets / width / height / subsampling / coding mode, written, read and compared one after the other "
        "in this one process (stale per-process state); a violation's input is the sequence of similar earlier cases + the failing one. "
        "expected sizes/depths/bytes-per-sample are computed by the harness itself, never taken from the implementation. non-trivial = distinct (depths, sizes, subsampling, mode, variant) with a non-empty picture. "
        "oracle = round trip equality and verdict/counts computed from the in-memory pictures.")
    specs = []   # (kind, spec)
    for c in load_corpus(ctx):
        specs.append((c["kind"], c["spec"]))
    # ---- file cases: all depths 1..64, then random ------------------------------------------
    n_file = ctx.pick(180, 4000)
    for d in range(1, 65):
        specs.append(("file", gen_format_spec(rng, depth_l=d, depth_c=rng.choice([d, rng.randint(1, 64)]), max_samples=8)))
    for d in [65, 66, 72, 96, 127, 128, 129, 200]:
        specs.append(("file", gen_format_spec(rng, depth_l=d, depth_c=rng.choice([d, rng.randint(1, 130)]), max_samples=4)))
    for _ in range(n_file - 72):
        specs.append(("file", gen_format_spec(rng)))
    # ---- compare cases ----------------------------------------------------------------------
    n_cmp = ctx.pick(260, 5000)
    for i in range(n_cmp):
        v = VARIANTS[i % len(VARIANTS)] if i < 3 * len(VARIANTS) else rng.choice(VARIANTS + ["samples", "same", "padding", "samples1", "fullrange", "constdelta"])
        dl = (i % 64) + 1 if i < 128 else None
        specs.append(("compare", {"a": gen_format_spec(rng, depth_l=dl, max_samples=8), "variant": v, "vseed": rng.randrange(1 << 30)}))
    # ---- directory cases --------------------------------------------------------------------
    n_dir = ctx.pick(30, 400)
    for _ in range(n_dir):
        nums = rng.sample(range(0, 30), rng.randint(1, 5))
        allsame = rng.random() < 0.3
        specs.append(("dirs", {"pairs": [
            {"a": gen_format_spec(rng, max_samples=6), "variant": "same" if allsame else rng.choice(DIR_VARIANTS),
             "vseed": rng.randrange(1 << 30), "num": n, "prefix_a": rng.choice(["pic_", "p", "frame_00"]), "prefix_b": rng.choice(["pic_", "out"])}
            for n in nums]}))

    import time
    t0 = time.time()
    # ---- sequences of sibling formats through this one process ----------------------------------
    for _ in range(ctx.pick(10, 150)):
        specs.extend(gen_family(rng))
    lits = {"file": [], "compare": [], "dirs": []}
    metas = {"file": [], "compare": [], "dirs": []}
    prop_failed = {}
    for kind, spec in specs:
        fn = {"file": file_case, "compare": compare_case, "dirs": dir_case}[kind]
        try:
            lit, failed = fn(ctx, files, spec)
        except Exception as e:   # harness trouble is not a property violation: make it visible as a failed obligation
            ctx.obligation("harness:%s case runs" % kind, False, "corr-shard", "spec %r raised %r" % (spec, e))
            continue
        HISTORY.append({"kind": kind, "spec": spec})
        if kind == "file":
            dl = int(spec["lexc"]).bit_length()
            ctx.count(1, key=("f", dl, int(spec["cexc"]).bit_length(), spec["w"], spec["h"], spec["cdf"], spec["pcm"]), bucket="file " + depth_bucket(dl))
        elif kind == "compare":
            a = spec["a"]
            ctx.count(1, key=("c", spec["variant"], int(a["lexc"]).bit_length(), a["w"], a["h"], a["cdf"], a["pcm"]), bucket="compare " + spec["variant"].split("_")[0].split("+")[0])
        else:
            ctx.count(1, key=("d", digest(spec)), bucket="dirs n=%d" % len(spec["pairs"]))
        if lit is not None:
            lits[kind].append(lit)
            metas[kind].append(spec)
            prop_failed[(kind, len(lits[kind]) - 1)] = failed
    for kind, spec in specs[:2] + [s for s in specs if s[0] == "compare"][:2] + [s for s in specs if s[0] == "dirs"][:1]:
        ctx.sample({"kind": kind, "spec": spec})

    t1 = time.time()
    # the coqc runs are started now and collected at the end (coqc start-up dominates: few, large shards)
    import concurrent.futures
    pool = concurrent.futures.ThreadPoolExecutor(max_workers=4)
    IMPORTS = ["Model.FileFormat", "Model.Compare", "Corr.C23"]
    checks = {"file": ("check_file", 110), "compare": ("check_compare", 170), "dirs": ("check_dirs", 1000)}
    futs = {kind: pool.submit(ctx.coq_check_cases, "c23_" + kind, IMPORTS, checks[kind][0], lits[kind], None, checks[kind][1])
            for kind in ("file", "compare", "dirs")}
    # ---- single samples, all depths 1..64 (+ beyond), through the real writer/reader ----------
    sample_cases = []
    for depth in list(range(1, 65)) + [65, 100, 128, 129, 256, 257, 1000]:
        vals = {0, 1, (1 << depth) - 1, 1 << (depth - 1), ((1 << depth) - 1) >> 1} | {rng.randrange(1 << depth) for _ in range(ctx.pick(4, 40))}
        vp, pcm = build_vp({"base": 0, "w": len(vals), "h": 1, "cdf": 0, "pcm": 0, "lexc": str((1 << depth) - 1), "cexc": "1", "tweak": None})
        vals = sorted(vals)
        pic = {"Y": [vals], "C1": [[0] * len(vals)], "C2": [[1] * len(vals)], "pic_num": 0}
        buf = io.BytesIO()
        try:
            ff.write_picture(pic, vp, pcm, buf)
            raw = buf.getvalue()
            back = ff.read_picture(vp, pcm, 0, io.BytesIO(raw))
        except Exception as e:
            ctx.violation("sample-roundtrip-raises", {"depth": depth, "values": [str(v) for v in vals]}, "raised %r" % (e,))
            continue
        bps = expected_dims(vp, pcm)["Y"][3]
        if back["Y"] != [vals]:
            badv = [(v, b) for v, b in zip(vals, back["Y"][0]) if v != b][:3]
            ctx.violation("sample-roundtrip-differs", {"depth": depth, "values": [str(v) for v in vals]},
                          "depth %d: (written, read) %r" % (depth, badv), observed=str(badv), expected="equal")
        for i, v in enumerate(vals):
            sample_cases.append("(%s, %s, %s)" % (cz(depth), cz(v), clist(list(raw[i * bps:(i + 1) * bps]))))
            ctx.count(1, key=("s", depth, v), bucket="sample " + depth_bucket(depth))
    futs["sample"] = pool.submit(ctx.coq_check_cases, "c23_sample", IMPORTS, "check_sample", sample_cases, None, 1000)

    # ---- picture numbers through the metadata functions -----------------------------------------
    vp, pcm = build_vp({"base": 3, "w": 2, "h": 2, "cdf": 0, "pcm": 0, "lexc": "255", "cexc": "255", "tweak": 5})
    for n in [0, 1, 9, 10, 255, 256, (1 << 31) - 1, 1 << 31, (1 << 32) - 1] + [rng.randrange(1 << 32) for _ in range(ctx.pick(100, 2000))]:
        buf = io.BytesIO()
        try:
            ff.write_metadata({"pic_num": n}, vp, pcm, buf)
            vp2, pcm2, n2 = ff.read_metadata(io.BytesIO(buf.getvalue()))
        except Exception as e:
            ctx.violation("metadata-roundtrip-raises", {"picnum": n}, "raised %r" % (e,))
            continue
        ctx.count(1, bucket="picture number")
        if n2 != n or type(n2) is not int or vp2 != vp or pcm2 != pcm:
            ctx.violation("metadata-roundtrip-differs", {"picnum": n}, "read back %r" % (n2,), observed=n2, expected=n)

    # ---- beyond the stated 1..64: what the comparison does on deeper pictures (informational) ----
    try:
        spec = {"a": {"base": 0, "w": 2, "h": 2, "cdf": 0, "pcm": 0, "lexc": str((1 << 65) - 1), "cexc": "255", "picnum": 0, "seed": 1, "tweak": None},
                "variant": "samples1", "vseed": 3}
        lit, failed = compare_case(ctx, files, spec, report=False)
        ctx.note("65-bit luma, one differing sample: comparison %s (outside the property's 1-64 bit quantifier; "
                 "np.log of a Python int > 2^64 raises TypeError in psnr())" % ("fails" if failed else "works"))
    except Exception as e:
        ctx.note("65-bit comparison probe: %r" % (e,))
    files.close()
    t2 = time.time()
    for kind in ("file", "compare", "dirs"):
        bad = futs[kind].result()
        for i in (bad or []):
            if not prop_failed.get((kind, i)):
                ctx.obligation("corr:%s model agrees with implementation" % kind, False, "corr-shard",
                               "model and implementation differ (property holds on the implementation at this input): %s" % json.dumps(metas[kind][i])[:1500])
    bad = futs["sample"].result()
    if bad:
        ctx.obligation("corr:sample packing agrees with implementation", False, "corr-shard", "cases %r" % [sample_cases[i] for i in bad[:5]])
    pool.shutdown()
    ctx.note("timing: implementation runs %.1fs, waiting for coq shards %.1fs more" % (t2 - t0, time.time() - t2))
    ctx.trusted.append("numpy object-array arithmetic (&, >>, <<, +, -, count_nonzero, mean), the json module, str()/int() of picture "
                       "numbers, os/file I/O, argparse; float PSNR/percentage values are not checked")
    ctx.trusted.append("Model/FileFormat.v and Model/Compare.v are hand models tied by this run's correspondence shards; intlog2 is Gen/VC2Math.v (tie T)")


def replay(ctx, data):
    inp = data["input"]
    key = data.get("key", "")
    print("replaying", key, json.dumps(inp)[:600])
    t, ff, pc, cdd, VideoParameters, _ = impl()
    files = Files(ctx)

    class Rec(object):
        def __init__(self):
            self.v = []

        def violation(self, key, inp, desc, observed=None, expected=None):
            print("  property fails:", key, "-", desc)
            self.v.append(key)

        def note(self, s):
            print("  note:", s)

    rec = Rec()
    if "sequence" in inp:
        # the whole sequence is run in THIS (fresh) process, in order; the property fails if any step fails
        for i, step in enumerate(inp["sequence"]):
            print(" step %d/%d: %s %s" % (i + 1, len(inp["sequence"]), step["kind"], json.dumps(step["spec"])[:300]))
            fn = {"file": file_case, "compare": compare_case, "dirs": dir_case}[step["kind"]]
            fn(rec, files, step["spec"])
            HISTORY.append(step)
    elif "pairs" in inp:
        dir_case(rec, files, inp)
    elif "variant" in inp:
        compare_case(rec, files, inp)
    elif "depth" in inp:
        depth = inp["depth"]
        vals = [int(v) for v in inp["values"]]
        vp, pcm = build_vp({"base": 0, "w": len(vals), "h": 1, "cdf": 0, "pcm": 0, "lexc": str((1 << depth) - 1), "cexc": "1", "tweak": None})
        pic = {"Y": [vals], "C1": [[0] * len(vals)], "C2": [[1] * len(vals)], "pic_num": 0}
        buf = io.BytesIO()
        ff.write_picture(pic, vp, pcm, buf)
        back = ff.read_picture(vp, pcm, 0, io.BytesIO(buf.getvalue()))
        print("  written", vals, "read", back["Y"][0])
        if back["Y"] != [vals]:
            rec.v.append("sample")
    elif "picnum" in inp and "w" not in inp:
        vp, pcm = build_vp({"base": 3, "w": 2, "h": 2, "cdf": 0, "pcm": 0, "lexc": "255", "cexc": "255", "tweak": 5})
        buf = io.BytesIO()
        ff.write_metadata({"pic_num": inp["picnum"]}, vp, pcm, buf)
        n2 = ff.read_metadata(io.BytesIO(buf.getvalue()))[2]
        print("  written", inp["picnum"], "read", n2)
        if n2 != inp["picnum"]:
            rec.v.append("picnum")
    else:
        file_case(rec, files, inp)
    files.close()
    print("property violated on this input:", bool(rec.v))
    return 1 if rec.v else 0
