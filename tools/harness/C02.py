"""C02 harness (stage 1; stage 2 = tools/harness/C02_headers.py, hooked in below): the validator ends with a verdict on
any byte string.

(i)  structure-preserving mutations are covered by C01's correspondence (same model, Props/C02.v is
     the no-crash theorem without `units_valid`); here a slice of them is re-run through the model to
     keep the tie for this property's evidence;
(ii) arbitrary byte-level mutations of valid streams for many codec configurations, on the
     IMPLEMENTATION only: the exception escaping parse_stream must be a ConformanceError (or none), and
     explain(), offending_offset(), bitstream_viewer_hint() (formatted as the validator command does) must
     not raise.  Declared sizes are capped as the property allows: streams declaring big pictures, deep
     transforms, many slices or huge sample depths are aborted as out of scope (in-process wrappers
     around assert_level_constraint and sequence_header)."""
from __future__ import print_function

import signal
import struct
from io import BytesIO
from textwrap import dedent

import vlib
from vlib import cz

import C01
from C01 import CONFIGS, CODE_NAME, IMPORTS, impl, assemble, coq_units, valid_sequence, mutate, admissible, \
    payloads_parseable, desync_safe, tables_defs, pad, aux


class OutOfScope(Exception):
    pass


class Timeout(Exception):
    pass


CAPS = {"frame_width": 64, "frame_height": 64, "dwt_depth": 4, "dwt_depth_ho": 4, "slices_x": 16, "slices_y": 16,
        "slice_bytes_numerator": 4096, "slice_prefix_bytes": 64, "slice_size_scaler": 64,
        "luma_excursion": 1 << 16, "color_diff_excursion": 1 << 16, "luma_offset": 1 << 16, "color_diff_offset": 1 << 16,
        "clean_width": 1 << 12, "clean_height": 1 << 12, "left_offset": 1 << 12, "top_offset": 1 << 12,
        "frame_rate_numer": 1 << 32, "frame_rate_denom": 1 << 32}
_wrapped = {}


def install_caps():
    """Abort (as out of scope) as soon as a stream DECLARES a size above the modest bounds."""
    if _wrapped:
        return
    I = impl()
    import vc2_conformance.decoder.assertions as assertions
    import vc2_conformance.decoder.sequence_header as sh
    import vc2_conformance.decoder.picture_syntax as ps
    import vc2_conformance.decoder.transform_data_syntax as td
    import vc2_conformance.decoder.stream as stream_mod
    orig = assertions.assert_level_constraint

    def capped(state, key, value):
        cap = CAPS.get(key)
        if cap is not None and not isinstance(value, bool) and value > cap:
            raise OutOfScope("%s=%r" % (key, value))
        return orig(state, key, value)

    for m in (sh, ps, td):
        m.assert_level_constraint = capped
    orig_sh = stream_mod.sequence_header

    def capped_sequence_header(state):
        vp = orig_sh(state)
        if state["luma_width"] > 64 or state["luma_height"] > 64 or state["luma_depth"] > 18 or state["color_diff_depth"] > 18:
            raise OutOfScope("picture %dx%d depth %d" % (state["luma_width"], state["luma_height"], state["luma_depth"]))
        return vp

    stream_mod.sequence_header = capped_sequence_header
    _wrapped["done"] = True


def _alarm(signum, frame):
    raise Timeout()


def run_validator(data, limit=120):
    """-> (kind, detail) kind in accept | conformance | out-of-scope | timeout | crash | reporting-crash"""
    I = impl()
    st = I["State"](_output_picture_callback=lambda p, v, m: None)
    I["decoder"].init_io(st, BytesIO(data))
    old = signal.signal(signal.SIGALRM, _alarm)
    signal.alarm(limit)
    try:
        try:
            I["decoder"].parse_stream(st)
            return "accept", None
        except OutOfScope as e:
            return "out-of-scope", str(e)
        except Timeout:
            return "timeout", None
        except I["decoder"].ConformanceError as e:
            try:
                from vc2_conformance.bitstream import to_bit_offset
                from vc2_conformance.decoder import tell
                from vc2_conformance.string_utils import wrap_paragraphs
                summary, _, details = wrap_paragraphs(e.explain()).partition("\n")
                off = e.offending_offset()
                if off is None:
                    off = to_bit_offset(*tell(st))
                int(off)
                hint = dedent(e.bitstream_viewer_hint()).strip().format(cmd="vc2-bitstream-viewer", file="f.vc2", offset=off)
                str(e)
                wrap_paragraphs(details, 80)
                assert isinstance(hint, str) and isinstance(summary, str)
            except Timeout:
                return "timeout", None
            except Exception as e2:  # noqa
                return "reporting-crash", "%s: %s.%s" % (type(e).__name__, type(e2).__name__, e2)
            return "conformance", type(e).__name__
        except Exception as e:  # noqa
            import traceback
            tb = traceback.extract_tb(e.__traceback__)
            where = "%s:%s" % (tb[-1].filename.split("/")[-1], tb[-1].name) if tb else "?"
            return "crash", "%s@%s: %s" % (type(e).__name__, where, str(e)[:120])
    finally:
        signal.alarm(0)
        signal.signal(signal.SIGALRM, old)


def parse_info_positions(data):
    out = []
    pos = 0
    while pos + 13 <= len(data) and data[pos:pos + 4] == b"BBCD":
        out.append(pos)
        npo = struct.unpack(">I", data[pos + 5:pos + 9])[0]
        if npo == 0:
            npo = 13
        pos += npo
    return out


PARSE_CODES = [0x00, 0x10, 0x20, 0x30, 0xC8, 0xE8, 0xCC, 0xEC]


def common_corpus():
    import common
    return common.corpus_streams()


def byte_mutation(data, rng):
    b = bytearray(data)
    kind = rng.choice(["flip", "flip", "subst", "insert", "delete", "truncate", "random-tail", "parse-code", "offset",
                       "header-field", "payload-head", "dup-chunk", "zero-run", "ff-run"])
    pis = parse_info_positions(data)
    if kind == "flip" and b:
        for _ in range(rng.choice([1, 1, 2, 4])):
            i = rng.randrange(len(b))
            b[i] ^= 1 << rng.randrange(8)
    elif kind == "subst" and b:
        for _ in range(rng.choice([1, 2, 5])):
            b[rng.randrange(len(b))] = rng.randrange(256)
    elif kind == "insert":
        i = rng.randrange(len(b) + 1)
        b[i:i] = bytearray(rng.randrange(256) for _ in range(rng.choice([1, 2, 13])))
    elif kind == "delete" and len(b) > 2:
        i = rng.randrange(len(b))
        del b[i:i + rng.choice([1, 2, 4, 13])]
    elif kind == "truncate" and b:
        del b[rng.randrange(len(b)):]
    elif kind == "random-tail":
        i = rng.randrange(len(b) + 1)
        b[i:] = bytearray(rng.randrange(256) for _ in range(rng.randrange(0, 40)))
    elif kind == "parse-code" and pis:
        p = rng.choice(pis)
        b[p + 4] = rng.choice(PARSE_CODES + [rng.randrange(256)])
    elif kind == "offset" and pis:
        p = rng.choice(pis) + rng.choice([5, 9])
        b[p:p + 4] = struct.pack(">I", rng.choice([0, 1, 12, 13, 14, 0xFFFFFFFF, rng.randrange(0, 200)]))
    elif kind == "header-field" and pis:
        p = pis[0] + 13
        n = min(12, max(1, len(b) - p))
        i = p + rng.randrange(n)
        if i < len(b):
            b[i] = rng.choice([b[i] ^ (1 << rng.randrange(8)), rng.randrange(256)])
    elif kind == "payload-head" and pis:
        p = rng.choice(pis) + 13 + rng.randrange(0, 14)
        if p < len(b):
            b[p] = rng.choice([0, 0xFF, b[p] ^ (1 << rng.randrange(8)), rng.randrange(256)])
    elif kind == "dup-chunk" and len(pis) > 1:
        j = rng.randrange(len(pis) - 1)
        chunk = b[pis[j]:pis[j + 1]]
        k = rng.choice(pis)
        b[k:k] = chunk
    elif kind == "zero-run" and b:
        i = rng.randrange(len(b))
        n = rng.choice([1, 4, 16])
        b[i:i + n] = bytearray(n)
    elif kind == "ff-run" and b:
        i = rng.randrange(len(b))
        n = rng.choice([1, 4, 16])
        b[i:i + n] = bytearray([0xFF] * n)
    return bytes(b), kind


def base_streams(rng, n):
    out = []
    while len(out) < n:
        cfg = rng.choice(CONFIGS)
        level = rng.choice([0, 0, 1, 3, 64, 65, 66])
        if not admissible(cfg, level):
            level = 0
        nat = cfg.natural_version
        major = rng.choice([nat, 3]) if nat < 3 else 3
        hv = 2 if (major == 3 and nat < 3) else 0
        units = []
        for _ in range(rng.choice([1, 1, 2])):
            units += valid_sequence(cfg, rng, major=major, level=level, hdr_variant=hv)
        out.append((cfg, major, level, units))
    return out


def run(ctx):
    rng = ctx.rng
    impl()
    ctx.extra["rule"] = (
        "base: conformant 1-2 sequence streams from 8 tiny codec configurations x versions x levels (real encoder payloads). "
        "(i) structured unit-level mutations, abstracted to unit lists, compared with the stream model (as C01); "
        "(ii) 1-3 byte-level mutations (bit flips, substitutions, insertions, deletions, truncation, random tails, parse codes, "
        "parse offsets, sequence-header bytes, payload heads/slice length bytes, duplicated data units, 0x00/0xFF runs) and pure "
        "random byte strings: the real validator must accept or raise a ConformanceError whose explain / offending_offset / "
        "bitstream_viewer_hint work; declared sizes above the caps abort the case as out of scope. Non-trivial = mutated stream "
        "that was not accepted and not out of scope.")
    ctx.trusted.append("C02 harness caps declared sizes by wrapping assert_level_constraint / sequence_header in-process: %r" % (CAPS,))
    # ==== STAGE 2 (added by the C02 stage-2 engineer; self-contained in tools/harness/C02_headers.py) ===========
    # Model/Headers.v against the real decoder functions inside a data unit, over bits.  Runs BEFORE install_caps()
    # (its own temporary guards are removed again on exit) and with the unmodified LEVEL_CONSTRAINTS as well as the
    # permissive table installed by C01.impl().
    import C02_headers
    C02_headers.run_headers(ctx, impl().get("orig_level_constraints"))
    ctx.extra["rule"] += "  ||  " + ctx.extra.pop("headers_rule", "")
    # ==== end of the stage-2 section ================================================================================
    # ---- (i) model correspondence on structure-preserving mutations -------------------------------
    n_struct = ctx.pick(400, 6000)
    cases = []
    tries = 0
    bases = base_streams(rng, ctx.pick(40, 200))
    while len(cases) < n_struct and tries < 10 * n_struct:
        tries += 1
        cfg, major, level, units = rng.choice(bases)
        us = list(units)
        for _ in range(rng.choice([1, 2, 3])):
            us, _lab = mutate(us, cfg, rng, major, level)
            if not us:
                break
        if not us or len(us) > 14:
            continue
        data, abstract = assemble(us)
        if not payloads_parseable(abstract, us) or not desync_safe(us, data):
            continue
        c = C01.make_case(us, "struct", cfg.name)
        cases.append(c)
        ctx.count(1, bucket="structured")
        if c.obs >= 100:
            C01.judge_oracle(ctx, c)
    C01.check_cases(ctx, "c02_struct", cases)
    # ---- (ii) byte-level fuzz on the implementation --------------------------------------------------
    install_caps()
    n_fuzz = ctx.pick(10000, 120000)
    hist = {}
    classes = {}
    for n in range(n_fuzz):
        if n % 25 == 0:
            data0 = bytes(bytearray(rng.randrange(256) for _ in range(rng.randrange(0, 64))))
            if rng.random() < 0.5:
                data0 = b"BBCD" + data0
            data, labs = data0, ["random"]
        elif n % 25 in (4, 5) and common_corpus():
            # fixed conformant streams whose pictures use differing transform parameters within one sequence
            data = rng.choice(common_corpus())
            labs = ["corpus"]
            if n % 25 == 5:
                data, lab2 = byte_mutation(data, rng)
                labs.append(lab2)
        elif n % 25 in (1, 2, 3):
            # hand-packed tiny pictures/fragments with degenerate slice and transform parameters (zero slice
            # budgets, zero counts, invalid indices), sometimes mutated further
            import common
            lab, data = common.degenerate_stream(rng)
            labs = ["degenerate"]
            if rng.random() < 0.3:
                data, lab2 = byte_mutation(data, rng)
                labs.append(lab2)
        else:
            cfg, major, level, units = rng.choice(bases)
            data, _ = assemble(units)
            labs = []
            for _ in range(rng.choice([1, 1, 2, 3])):
                data, lab = byte_mutation(data, rng)
                labs.append(lab)
        # a third of the cases run under the REAL level constraint table (the permissive one installed by C01.impl()
        # never raises ValueNotAllowedInLevel for anything but `level`, so those errors' reports were never rendered)
        real_table = (n % 3 == 1)
        if real_table:
            from vc2_conformance.level_constraints import LEVEL_CONSTRAINTS as _LC
            _saved = list(_LC)
            _LC[:] = impl().get("orig_level_constraints") or _saved
            labs = labs + ["real-level-table"]
        try:
            kind, detail = run_validator(data)
        finally:
            if real_table:
                _LC[:] = _saved
        hist[kind] = hist.get(kind, 0) + 1
        if kind == "conformance":
            classes[detail] = classes.get(detail, 0) + 1
        ctx.count(1, key=vlib.digest(data.hex()) if kind in ("conformance",) else None, bucket="fuzz-" + labs[0])
        inp = {"bytes_hex": data.hex(), "mutations": labs}
        if kind == "crash":
            exc = detail.split(":")[0]
            ctx.violation("validator-raises-%s" % exc, inp, "parse_stream failed with a non-conformance exception: %s" % detail,
                          observed=detail, expected="Accept or a ConformanceError")
        elif kind == "reporting-crash":
            ctx.violation("error-reporting-fails-%s" % detail.split(":")[0], inp,
                          "explain()/offending_offset()/bitstream_viewer_hint() failed: %s" % detail,
                          observed=detail, expected="a printable report")
        elif kind == "timeout":
            ctx.violation("no-verdict-within-120s", inp, "validator did not finish within 120 s on a %d byte stream" % len(data),
                          observed="timeout", expected="a verdict")
        if n < 4:
            ctx.sample({"mutations": labs, "length": len(data), "outcome": kind, "detail": detail})
    ctx.extra["outcomes"] = hist
    ctx.extra["conformance_error_classes_seen"] = len(classes)
    ctx.extra["conformance_error_histogram"] = classes
    ctx.note("byte-level fuzz outcomes: %r; %d distinct ConformanceError classes" % (hist, len(classes)))


def replay(ctx, data):
    inp = data["input"]
    impl()
    if "units" in inp:
        return C01.replay(ctx, data)
    if inp.get("headers"):   # stage 2 (tools/harness/C02_headers.py)
        import C02_headers
        return C02_headers.replay_headers(ctx, data)
    install_caps()
    raw = bytes(bytearray.fromhex(inp["bytes_hex"]))
    if "real-level-table" in (inp.get("mutations") or []):
        from vc2_conformance.level_constraints import LEVEL_CONSTRAINTS as _LC
        _LC[:] = impl().get("orig_level_constraints") or list(_LC)
    kind, detail = run_validator(raw)
    print("replaying", data.get("key"), inp.get("mutations"), "->", kind, detail)
    bad = kind in ("crash", "reporting-crash", "timeout")
    print("property violated on this input:", bad)
    return 1 if bad else 0
