"""C26 harness: the real vc2-bitstream-viewer main() on arbitrary byte strings."""
import contextlib
import io
import os
import random
import shutil
import traceback

import common

OPTION_SETS = [
    [], [], [], [], [],   # default display options dominate
    ["-v"], ["-vv"], ["--show-internal-state"], ["--ignore-parse-info-prefix"], ["--hide-slice"],
    ["--show", "sequence_header"], ["--show", "parse_info"], ["--hide", "slice"], ["--num-trailing-bits", "0"],
    ["--from-offset", "64"], ["--to-offset", "-8"], ["--offset", "120"], ["--offset", "1000", "--context", "64"],
    ["--offset", "40", "--after-context", "100"], ["-v", "--show-internal-state", "--num-trailing-bits", "256"],
]


def run_main(argv):
    import importlib
    v = importlib.import_module("vc2_conformance.scripts.vc2_bitstream_viewer")
    out, err = io.StringIO(), io.StringIO()
    try:
        with contextlib.redirect_stdout(out), contextlib.redirect_stderr(err):
            try:
                rc = v.main(argv)
            except SystemExit as e:
                rc = "SystemExit:%r" % (e.code,)
    except common.OutOfScope:
        return "out-of-scope", "", ""
    except BaseException as e:
        return "exception:" + type(e).__name__, out.getvalue()[-300:], err.getvalue()[-300:] + traceback.format_exc()[-900:]
    return rc, out.getvalue()[-300:], err.getvalue()[-600:]


def make_input(rng):
    r = rng.random()
    if r < 0.12:
        return "random", bytes(rng.randrange(256) for _ in range(rng.choice([0, 1, 5, 13, 14, 40, 200])))
    if r < 0.2:
        body = bytes(rng.randrange(256) for _ in range(rng.randint(0, 60)))
        return "random-after-prefix", b"BBCD" + bytes([rng.choice([0x00, 0x10, 0x20, 0x30, 0xC8, 0xE8, 0xCC, 0xEC])]) + body
    if r < 0.42:
        # hand-packed tiny pictures / fragments with degenerate slice and transform parameters
        return common.degenerate_stream(rng)
    desc, data, pics = common.encoder_stream(rng) if rng.random() < 0.9 else common.deep_lossless_stream(rng)
    if r < 0.6:
        # 1-3 concatenated conformant sequences (differing configurations), some with extra padding units
        parts = [data]
        for _ in range(rng.choice([0, 1, 1, 2])):
            parts.append(common.encoder_stream(rng)[1])
        if rng.random() < 0.4:
            pad = b"BBCD\x30" + (13 + 4).to_bytes(4, "big") + (0).to_bytes(4, "big") + b"\x00" * 4
            eos = b"BBCD\x10" + (0).to_bytes(4, "big") + (17).to_bytes(4, "big")
            hdr_only = parts[0]
            # a tiny extra sequence made of the first sequence's header + padding + end of sequence is hard to
            # build by byte surgery; instead append trailing data after the last end of sequence
            parts.append(rng.choice([b"BBCD", b"BBCD\x10", b"BBCD\x10\x00\x00\x00\x00\x00\x00\x00\x00", b"BBC", b"junk!"]))
        data = b"".join(parts)
        return ("conformant-x%d" % len(parts)), data
    kind = "m"
    for _ in range(rng.choice([1, 1, 1, 2, 3])):
        k, data = common.mutate(data, rng)
        kind += ":" + k
    return kind, data


def one_case(job):
    seed, idx, workdir = job
    rng = random.Random((seed << 20) + idx + 2626)
    res = {"idx": idx, "problems": []}
    d = os.path.join(workdir, "case%05d" % idx)
    try:
        common.install_size_guards()
        shutil.rmtree(d, ignore_errors=True)
        os.makedirs(d)
        kind, data = make_input(rng)
        res["kind"] = kind
        res["bytes"] = len(data)
        path = os.path.join(d, "stream.vc2")
        with open(path, "wb") as f:
            f.write(data)
        opts = rng.choice(OPTION_SETS)
        res["options"] = opts
        rc, out, err = run_main([path, "--no-status"] + opts)
        res["rc"] = rc
        if rc == "out-of-scope":
            res["status"] = "out-of-scope"
            return res
        res["status"] = "ran"
        default = not opts
        tag = "default-options" if default else "sampled-options"
        if isinstance(rc, str) and rc.startswith("exception:"):
            res["problems"].append(("viewer-uncaught-exception:" + tag, "%s %s" % (rc, err[-700:])))
        elif rc == 255:
            res["problems"].append(("viewer-internal-error-status:" + tag, err[-700:]))
        elif isinstance(rc, str):
            res["problems"].append(("viewer-argument-error", "%s %s" % (rc, err[-300:])))
        elif rc not in (0, 2, 3, 4):
            res["problems"].append(("viewer-unexpected-status", "rc=%r" % (rc,)))
        res["hex"] = data.hex() if len(data) <= 600 else None
        return res
    except common.OutOfScope:
        res["status"] = "out-of-scope"
        return res
    except Exception:
        res["status"] = "harness-exception"
        res["detail"] = traceback.format_exc()[-1200:]
        return res
    finally:
        shutil.rmtree(d, ignore_errors=True)


def run(ctx):
    ctx.extra["rule"] = (
        "byte strings: 12% random bytes, 8% random bytes after a valid parse_info prefix, 25% one to three concatenated conformant encoder streams (some with trailing data), 55% "
        "encoder streams with 1-3 random mutations; the REAL viewer main() is run in-process with default options (25%) or one of "
        "15 sampled option sets; streams declaring sizes beyond common.GUARD_LIMITS are out of scope; non-trivial = the viewer "
        "ran to a status; distinct by case index")
    n = ctx.pick(300, 10000)
    results = common.pmap(one_case, [(ctx.seed, i, ctx.workdir) for i in range(n)])
    for r in results:
        st = r.get("status", "?")
        ctx.count(1, key=r["idx"] if st == "ran" else None, bucket="status:%s rc:%s" % (st, r.get("rc")))
        k = str(r.get("kind", "?")).split(":")[0]
        ctx.distribution["input:" + k] = ctx.distribution.get("input:" + k, 0) + 1
        if st == "harness-exception":
            ctx.obligation("harness:C26 case %d" % r["idx"], False, "harness", r.get("detail", ""))
        for key, detail in r["problems"]:
            ctx.violation(key, {"seed": ctx.seed, "idx": r["idx"], "kind": r.get("kind"), "options": r.get("options"),
                                "hex": r.get("hex")}, detail, observed=r.get("rc"))
    for r in results[:4]:
        ctx.sample({k: r.get(k) for k in ("idx", "kind", "bytes", "options", "rc", "status")})
    ctx.trusted.append("status classification proved on Model/Cli.v; the display code (monitor callback), argparse and the real "
                       "deserialiser are exercised by the differential run only")


def replay(ctx, data):
    inp = data["input"]
    r = one_case((inp["seed"], inp["idx"], ctx.workdir))
    print(r)
    return 1 if r["problems"] else 0
