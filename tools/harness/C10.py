"""C10 harness: concatenated sequences are validated and decoded independently.

Streams of up to 3 (quick) / 4 sequences drawn from differing codec configurations (profile, version,
level, pictures/fragments, fields/frames, picture numbering), optionally with ONE non-conformant (but
complete) sequence at each position.  Observed on the real validator: verdict, index of the sequence in
which it was reached (parse_sequence calls are counted), and the pictures handed to the output callback
(number + content digest + the video parameters / picture coding mode passed with them).
 - oracle (the property itself): the observation on the concatenation == what the per-sequence runs predict;
 - correspondence: == Model/Stream.v run_obs on the same abstract unit list, and == Model/StreamContent.v
   crun (numbers AND contents) with `decode` instantiated by a table dumped from the real per-sequence runs:
   (header id, payload ids of the picture's data units) -> digest of the really decoded picture.
Sequences with different video parameters / transform parameters / quantisation matrices / fragment usage
are concatenated in BOTH orders."""
from __future__ import print_function

import hashlib
from io import BytesIO

import vlib
from vlib import cz, clist

import C01
from C01 import (CONFIGS, CONFIG_BY_NAME, VERR_CODE, KEYERR_CODE, CODE_NAME, IMPORTS, impl, assemble, coq_units,
                 valid_sequence, mutate, admissible, payloads_parseable, stream_rules, tables_defs)


def observe(data):
    """-> (verdict code, sequence index, [(pic_num, content digest, params digest)])"""
    I = impl()
    import vc2_conformance.decoder.stream as stream_mod
    pics = []
    count = [0]
    orig = stream_mod.parse_sequence

    def counting_parse_sequence(state):
        count[0] += 1
        return orig(state)

    def cb(picture, video_parameters, picture_coding_mode):
        h = hashlib.sha1(repr([picture["Y"], picture["C1"], picture["C2"]]).encode()).hexdigest()[:10]
        p = hashlib.sha1(repr([sorted(video_parameters.items()), int(picture_coding_mode)]).encode()).hexdigest()[:8]
        pics.append((picture["pic_num"], h, p))

    st = I["State"](_output_picture_callback=cb)
    I["decoder"].init_io(st, BytesIO(data))
    stream_mod.parse_sequence = counting_parse_sequence
    try:
        try:
            I["decoder"].parse_stream(st)
            return 0, count[0], pics
        except I["decoder"].ConformanceError as e:
            return VERR_CODE.get(type(e).__name__, 900), count[0] - 1, pics
        except KeyError as e:
            return KEYERR_CODE.get(e.args[0] if e.args else None, 999), count[0] - 1, pics
        except UnboundLocalError:
            return 108, count[0] - 1, pics
        except Exception:  # noqa
            return 999, count[0] - 1, pics
    finally:
        stream_mod.parse_sequence = orig


SAFE_MUTATIONS = set(["npo-zero", "npo-wrong", "ppo-wrong", "ppo-zero", "picnum-skip", "picnum-repeat", "picnum-odd",
                      "delete", "duplicate", "swap", "insert-hdr-variant", "insert-pad", "insert-aux",
                      "insert-foreign-picture", "frag-xy", "frag-count", "frag-picnum", "hdr-version", "hdr-level",
                      "hdr-profile", "insert-picture", "insert-first-fragment", "insert-data-fragment"])


# configurations only used here: other picture size / colour sampling / wavelet / depth, a custom
# quantisation matrix, and white-noise pictures (distinct decoded contents)
EXTRA_CONFIGS = [
    C01.Config("hq-16x8-422-legall-d2-noise", 3, False, 0, 2, 2, noise=True,
               overrides={"frame_width": 16, "frame_height": 8, "clean_width": 16, "clean_height": 8,
                          "color_diff_format_index": 1, "wavelet_index": 1, "wavelet_index_ho": 1, "dwt_depth": 2,
                          "picture_bytes": 4 * 80}),
    C01.Config("hq-custom-quant-noise", 3, False, 0, 2, 1, noise=True,
               overrides={"quantization_matrix": {0: {"LL": 2}, 1: {"HL": 5, "LH": 3, "HH": 7}}}),
    C01.Config("ld-frames-pic-noise", 0, False, 0, 2, 1, noise=True),
    C01.Config("hq-fields-frag2-noise", 3, True, 2, 2, 2, noise=True),
]
for _i, _c in enumerate(EXTRA_CONFIGS):
    C01.CONFIG_INDEX[_c.name] = len(CONFIGS) + 1 + _i
ALL_CONFIGS = list(CONFIGS) + EXTRA_CONFIGS

_pids = {}
_digests = {}


def pid_of(payload):
    return _pids.setdefault(bytes(payload), len(_pids) + 1)


def digest_id(pic):
    """pic = (pic_num, content digest, parameters digest) -> small integer for (content, parameters)"""
    return _digests.setdefault((pic[1], pic[2]), len(_digests) + 1)


def coq_cunits(units):
    _, abstract = assemble(units)
    return "[" + "; ".join("CL " + " ".join(cz(x) for x in t) + " " + cz(pid_of(u.payload))
                           for t, u in zip(abstract, units)) + "]"


def completion_keys(units):
    """The key Corr/C10.v's decode_t computes for every data unit that may complete a picture, in
    order: (header id, payload ids of the fragments since the last first-fragment/picture + this payload)."""
    hid = -1
    frags = []
    remaining = 0
    out = []
    for u in units:
        if u.tag == 0:
            hid = u.f[0]
        elif u.tag == 1:
            out.append((hid, tuple(frags + [pid_of(u.payload)])))
            frags = []
        elif u.tag == 2:
            frags = [pid_of(u.payload)]
            remaining = (u.f[5] // 65536) * (u.f[5] % 65536)
        elif u.tag == 3:
            remaining -= u.f[2]
            if remaining == 0:
                out.append((hid, tuple(frags + [pid_of(u.payload)])))
            frags = frags + [pid_of(u.payload)]
        elif u.tag == 6:
            hid, frags, remaining = -1, [], 0
    return out


def complete(units):
    """one complete sequence: ends with its only end_of_sequence unit"""
    return bool(units) and units[-1].tag == 6 and all(u.tag != 6 for u in units[:-1])


def make_sequence(rng, conformant, cfg0=None):
    """-> (units, config name) ; conformant or not as asked (judged by the C01 rule checkers)."""
    for _ in range(200):
        cfg = cfg0 if cfg0 is not None else rng.choice(ALL_CONFIGS)
        level = rng.choice([0, 0, 1, 3, 64, 65, 66])
        if not admissible(cfg, level):
            level = 0
        nat = cfg.natural_version
        major = rng.choice([nat, nat, 3]) if nat < 3 else 3
        hv = 2 if (major == 3 and nat < 3) else 0   # keeps major_version 3 minimal when the pictures need less
        if major == 3 and nat < 3 and rng.random() < 0.5:
            major, hv = nat, 0
        npics = rng.choice([0, 1, 2, 2, 3])
        if not conformant and nat < 3 and rng.random() < 0.3:
            # non-conformant ONLY through state accumulated within the sequence: a declared major_version
            # above what the sequence's own features need (MajorVersionTooHigh) -- the kind of verdict that a
            # leak of version bounds from an EARLIER sequence would flip
            major, hv, npics = rng.choice([3, 3, 2] if nat < 2 else [3]), 0, max(1, npics)
        units = valid_sequence(cfg, rng, major=major, level=level, hdr_variant=hv, npics=npics)
        if not conformant and hv == 0 and major > nat and nat < 3 and rng.random() < 0.7:
            pass   # keep it as it is: the version is the only defect
        elif not conformant:
            for _ in range(rng.choice([1, 1, 2])):
                units2, lab = mutate(units, cfg, rng, major, level)
                if lab in SAFE_MUTATIONS:
                    units = units2
        if not complete(units) or len(units) > 12:
            continue
        data, abstract = assemble(units)
        if not payloads_parseable(abstract, units):
            continue
        if any(u.tag in (4, 5) and u.npo is not None and u.npo >= 13 and u.npo != u.length for u in units):
            continue
        ok, _, _ = stream_rules(abstract)
        if ok == conformant:
            return units, cfg.name
    raise RuntimeError("could not build a %s sequence" % ("conformant" if conformant else "non-conformant"))


def lit(abstract, obs):
    v, i, pics = obs
    return "(%s, (%s, %s, %s))" % (coq_units(abstract), cz(v), cz(i), clist([p[0] for p in pics]))


def run(ctx):
    rng = ctx.rng
    impl()
    ctx.extra["rule"] = (
        "streams of 1..N complete sequences (N = 3 quick / 4 thorough) from 12 differing codec configurations (profile, fields/frames, "
        "pictures/fragments, slice counts, symmetric/asymmetric transform, 8x4 4:4:4 Haar depth 1 vs 16x8 4:2:2 LeGall depth 2, default vs "
        "custom quantisation matrix, mid-grey vs white-noise pictures) x versions x levels x first picture numbers; every ordered pair of "
        "distinct configurations is concatenated (both orders); every position optionally holds one non-conformant (complete) sequence. "
        "Observed: verdict class, index of the sequence where it was reached, pictures output (number, digest of the decoded sample "
        "arrays, digest of the video parameters + picture coding mode). Oracle: equals the prediction from the per-sequence runs. "
        "Correspondence: equals run_obs of Model/Stream.v (numbers) and crun of Model/StreamContent.v (numbers and contents, decode = "
        "table of real per-sequence decodes keyed by header id + payload ids). Non-trivial = at least two sequences.")
    ctx.trusted.append("C10 harness counts parse_sequence calls by wrapping vc2_conformance.decoder.stream.parse_sequence in-process; "
                       "level CONSTRAINT table made permissive as in C01")
    maxseq = ctx.pick(3, 4)
    n_streams = ctx.pick(1200, 8000)
    # pools: at least one conformant sequence WITH pictures per configuration, then random ones
    pool_ok, by_cfg = [], {}
    for cfg in ALL_CONFIGS:
        for _ in range(50):
            sq = make_sequence(rng, True, cfg)
            if any(u.tag in (1, 2) for u in sq[0]):
                break
        by_cfg[cfg.name] = len(pool_ok)
        pool_ok.append(sq)
    pool_ok += [make_sequence(rng, True) for _ in range(ctx.pick(40, 200))]
    pool_bad = [make_sequence(rng, False) for _ in range(ctx.pick(30, 150))]
    alone = {}

    def pool(key):
        return (pool_ok if key[0] == "o" else pool_bad)[key[1]]

    def alone_obs(key):
        if key not in alone:
            data, abstract = assemble(pool(key)[0])
            alone[key] = observe(data)
        return alone[key]

    plans = []
    names = [c.name for c in ALL_CONFIGS]
    for a in names:               # every ordered pair of distinct configurations: both orders
        for b in names:
            if a != b:
                plans.append(([("o", by_cfg[a]), ("o", by_cfg[b])], None))
    for n in range(n_streams):
        k = rng.randrange(1, maxseq + 1)
        bad_pos = rng.choice([None] + list(range(k))) if n % 3 else None
        keys = [("b", rng.randrange(len(pool_bad))) if bad_pos == j else ("o", rng.randrange(len(pool_ok))) for j in range(k)]
        plans.append((keys, bad_pos))

    cases, ccases, metas = [], [], []
    for n, (keys, bad_pos) in enumerate(plans):
        k = len(keys)
        seqs = [(key, pool(key)) for key in keys]
        units = [u for (_, (us, _)) in seqs for u in us]
        data, abstract = assemble(units)
        obs = observe(data)
        # prediction from the per-sequence runs
        exp_pics = []
        exp = None
        for j, (key, (us, _)) in enumerate(seqs):
            v, i, pics = alone_obs(key)
            exp_pics += pics
            if v != 0:
                exp = (v, j, list(exp_pics))
                break
        if exp is None:
            exp = (0, k, exp_pics)
        inp = {"sequences": [{"config": cfgname, "units": [list(t) for t in assemble(us)[1]]} for (_, (us, cfgname)) in seqs],
               "bytes_hex": data.hex()}
        if obs != exp:
            what = "verdict" if obs[0] != exp[0] else ("sequence index" if obs[1] != exp[1] else
                                                       ("picture numbers" if [p[0] for p in obs[2]] != [p[0] for p in exp[2]]
                                                        else "picture content"))
            ctx.violation("concatenation-changes-%s" % what.replace(" ", "-"), inp,
                          "validating/decoding the concatenation differs from doing the sequences one by one (%s)" % what,
                          observed={"verdict": CODE_NAME.get(obs[0], obs[0]), "sequence": obs[1], "pictures": [list(p) for p in obs[2]]},
                          expected={"verdict": CODE_NAME.get(exp[0], exp[0]), "sequence": exp[1], "pictures": [list(p) for p in exp[2]]})
        cases.append(lit(abstract, obs))
        ccases.append((units, obs))
        metas.append(inp)
        ctx.count(1, key=vlib.digest([s["units"] for s in inp["sequences"]]) if k >= 2 else None,
                  bucket=("pair-both-orders" if n < len(names) * (len(names) - 1) else
                          "%d-seq%s" % (k, "" if bad_pos is None else "-bad@%d" % bad_pos)))
        if n < 2 or len(ctx.samples) < 4 and n % 97 == 0:
            ctx.sample({"sequences": [s["config"] for s in inp["sequences"]], "bad_position": bad_pos,
                        "verdict": CODE_NAME.get(obs[0], obs[0]), "sequence_index": obs[1], "pictures": [p[0] for p in obs[2]]})
    # per-sequence runs are correspondence cases too
    for key, (v, i, pics) in sorted(alone.items()):
        us = pool(key)[0]
        cases.append(lit(assemble(us)[1], (v, i, pics)))
        ccases.append((us, (v, i, pics)))
        ctx.count(1, bucket="alone")
    bad = ctx.coq_check_cases("concat", IMPORTS, "agree_obs gen_tbl lvl_tbls false", cases, shard=1500, defs=tables_defs())
    for i in (bad or [])[:5]:
        ctx.obligation("corr:concat model/implementation differ", False, "corr-shard", cases[i][:1500])
    # ---- content: decode := table of the REAL per-sequence decodes -----------------------------------
    table = {}
    for key, (v, i, pics) in sorted(alone.items()):
        us = pool(key)[0]
        for ck, pic in zip(completion_keys(us), pics):      # the first len(pics) completing units are the ones output
            d = digest_id(pic)
            if table.setdefault(ck, d) != d:
                ctx.violation("content-not-a-function-of-the-sequence", {"key": [ck[0], list(ck[1])], "config": pool(key)[1]},
                              "the same sequence header and picture data units decoded to different pictures in two sequences",
                              observed=d, expected=table[ck])
    ctbl = "Definition ctbl : content_table := [%s].\n" % "; ".join(
        "(%s, %s, %s)" % (cz(h), clist(list(ps)), cz(d)) for (h, ps), d in sorted(table.items()))
    clits = ["(%s, (%s, %s, [%s]))" % (coq_cunits(us), cz(v), cz(i), "; ".join("(%s, %s)" % (cz(p[0]), cz(digest_id(p))) for p in pics))
             for us, (v, i, pics) in ccases]
    badc = ctx.coq_check_cases("content", IMPORTS + ["Model.StreamContent", "Corr.C10"], "agree_content gen_tbl lvl_tbls ctbl", clits,
                               shard=1200, defs=tables_defs() + ctbl)
    for i in (badc or [])[:5]:
        ctx.obligation("corr:content model/implementation differ", False, "corr-shard", clits[i][:1500])
    ctx.note("pool: %d conformant, %d non-conformant complete sequences; %d ordered configuration pairs; content table: %d keys, "
             "%d distinct decoded pictures" % (len(pool_ok), len(pool_bad), len(names) * (len(names) - 1), len(table), len(_digests)))


def replay(ctx, data):
    inp = data["input"]
    impl()
    raw = bytes(bytearray.fromhex(inp["bytes_hex"]))
    obs = observe(raw)
    print("concatenation:", CODE_NAME.get(obs[0], obs[0]), "sequence", obs[1], "pictures", [p[0] for p in obs[2]])
    # split the byte stream at the sequence boundaries given by the unit lengths
    pos = 0
    exp_pics, exp = [], None
    for j, s in enumerate(inp["sequences"]):
        n = sum(t[7] for t in s["units"])
        o = observe(raw[pos:pos + n])
        pos += n
        print(" sequence %d alone:" % j, CODE_NAME.get(o[0], o[0]), "pictures", [p[0] for p in o[2]])
        exp_pics += o[2]
        if o[0] != 0 and exp is None:
            exp = (o[0], j, list(exp_pics))
    if exp is None:
        exp = (0, len(inp["sequences"]), exp_pics)
    bad = obs != exp
    print("property violated on this input:", bad)
    return 1 if bad else 0
